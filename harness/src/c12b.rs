//! C12, batch part: `BatchMerkleTree::new` / `open_batch` / `values` and
//! `verify_batch_merkle_proof_to_cap` (Poseidon and Keccak hashers) against the Lean model
//! (`P2/Model/BatchMerkle.lean`): shapes with 1–4 matrices of heights 2^0..2^6, every admissible
//! cap height, honest openings and negative requests.
use plonky2::field::goldilocks_field::GoldilocksField as F;
use plonky2::field::types::{Field, PrimeField64};
use plonky2::hash::batch_merkle_tree::BatchMerkleTree;
use plonky2::hash::hash_types::{BytesHash, HashOut};
use plonky2::hash::keccak::KeccakHash;
use plonky2::hash::merkle_proofs::{verify_batch_merkle_proof_to_cap, MerkleProof};
use plonky2::hash::merkle_tree::MerkleCap;
use plonky2::hash::poseidon::PoseidonHash;
use plonky2::plonk::config::Hasher;

use crate::util::*;

/// What the harness needs from a hasher besides `Hasher<F>`: an id for the request line, digest
/// printing, digest tampering.
pub trait HK: Hasher<F> + Send + Sync {
    const ID: usize;
    fn flat(hs: &[Self::Hash]) -> String;
    fn tweak(h: &mut Self::Hash, r: &mut Rng);
    fn zero() -> Self::Hash;
}

impl HK for PoseidonHash {
    const ID: usize = 0;
    fn flat(hs: &[HashOut<F>]) -> String {
        join(hs.iter().flat_map(|h| h.elements.iter().map(|x| x.to_canonical_u64())))
    }
    fn tweak(h: &mut HashOut<F>, r: &mut Rng) {
        h.elements[r.below(4) as usize] += F::ONE;
    }
    fn zero() -> HashOut<F> {
        HashOut { elements: [F::ZERO; 4] }
    }
}

impl<const N: usize> HK for KeccakHash<N> {
    const ID: usize = N;
    fn flat(hs: &[BytesHash<N>]) -> String {
        crate::c12k::flat_b(hs)
    }
    fn tweak(h: &mut BytesHash<N>, r: &mut Rng) {
        let b = if r.coin() { N - 1 } else { r.below(N as u64) as usize };
        h.0[b] ^= 1 << r.below(8);
    }
    fn zero() -> BytesHash<N> {
        BytesHash([0u8; N])
    }
}

fn can(xs: &[F]) -> String {
    join(xs.iter().map(|x| x.to_canonical_u64()))
}

/// `true` iff this build traps on integer overflow (profile `verif`): then `current_height -= 1`
/// at zero panics instead of wrapping. The model answers for the mode named in the request.
fn overflow_checks() -> bool {
    std::panic::catch_unwind(|| {
        let z = std::hint::black_box(0usize);
        #[allow(arithmetic_overflow)]
        let y = z - std::hint::black_box(1usize);
        std::hint::black_box(y);
    })
    .is_err()
}

fn verdict(res: anyhow::Result<()>) -> String {
    match res {
        Ok(()) => "OK".into(),
        Err(_) => "ERR".into(),
    }
}

fn bverify_req<H: HK>(ovf: bool, data: &[Vec<F>], heights: &[usize], idx: usize, cap: &MerkleCap<F, H>, proof: &MerkleProof<F, H>) -> String {
    let d: Vec<String> = data.iter().map(|row| if row.is_empty() { "0".to_string() } else { format!("{} {}", row.len(), can(row)) }).collect();
    let mut s = format!("c12 bverify {} {} {}", H::ID, ovf as u8, data.len());
    for part in [d.join(" "), format!("{} {}", heights.len(), join(heights.iter())), idx.to_string(),
        format!("{} {}", cap.0.len(), H::flat(&cap.0)), format!("{} {}", proof.siblings.len(), H::flat(&proof.siblings))] {
        let p = part.trim();
        if !p.is_empty() {
            s.push(' ');
            s.push_str(p);
        }
    }
    // no double spaces (empty lists)
    s.split_whitespace().collect::<Vec<_>>().join(" ")
}

fn check<H: HK>(e: &mut Emitter, class: &str, ovf: bool, data: &[Vec<F>], heights: &[usize], idx: usize, cap: &MerkleCap<F, H>, proof: &MerkleProof<F, H>) {
    e.case(class, bverify_req::<H>(ovf, data, heights, idx, cap, proof), || {
        verdict(verify_batch_merkle_proof_to_cap::<F, H>(data, heights, idx, cap, proof))
    });
}

fn matrix(r: &mut Rng, rows: usize, w: usize) -> Vec<Vec<F>> {
    (0..rows)
        .map(|_| (0..w).map(|_| if r.below(10) == 0 { F::from_canonical_u64(r.below(3)) } else { F::from_canonical_u64(r.below(P)) }).collect())
        .collect()
}

fn one_tree<H: HK>(e: &mut Emitter, r: &mut Rng, ovf: bool, hs: &[usize], cap_h: usize, widths: &[usize], pool: &(usize, rayon::ThreadPool), npos: usize) {
    let mats: Vec<Vec<Vec<F>>> = hs.iter().zip(widths).map(|(&h, &w)| matrix(r, 1 << h, w)).collect();
    let nt = pool.0;
    let tree = match std::panic::catch_unwind(std::panic::AssertUnwindSafe(|| pool.1.install(|| BatchMerkleTree::<F, H>::new(mats.clone(), cap_h)))) {
        Ok(t) => t,
        Err(_) => {
            e.oracle_failures.push(format!("BatchMerkleTree::new panicked on an admissible shape: H={} heights={hs:?} cap={cap_h} widths={widths:?}", H::ID));
            return;
        }
    };
    e.count(&format!("batch-threads={nt}"));
    e.count(&format!("batch-matrices={}", hs.len()));
    if *hs.last().unwrap() == cap_h {
        e.count("batch-last-matrix-at-cap-height");
    }
    let n = 1usize << hs[0];
    // all positions of small trees; otherwise `npos` of: the corners, the middle pair, random ones
    let positions: Vec<usize> = if n <= npos { (0..n).collect() } else {
        let mut cand = vec![0, n - 1, n / 2, n / 2 - 1, r.below(n as u64) as usize, r.below(n as u64) as usize];
        let rot = r.below(6) as usize;
        cand.rotate_left(rot);
        let mut p: Vec<usize> = vec![];
        for c in cand {
            if !p.contains(&c) && p.len() < npos { p.push(c); }
        }
        p
    };
    let shape: Vec<String> = hs.iter().zip(widths).map(|(&h, &w)| format!("{} {}", 1usize << h, w)).collect();
    let data: String = join(mats.iter().flat_map(|m| m.iter().flat_map(|row| row.iter().map(|x| x.to_canonical_u64()))));
    let req = format!("c12 btree {} {} {} {} {} {} {}", H::ID, cap_h, hs.len(), shape.join(" "), positions.len(), join(positions.iter()), data);
    let req = req.split_whitespace().collect::<Vec<_>>().join(" ");
    {
        let t2 = &tree;
        let pos2 = &positions;
        e.case(&format!("btree-H{}", H::ID), req, || {
            let proofs: Vec<String> = pos2.iter().map(|&i| H::flat(&t2.open_batch(i).siblings)).collect();
            let vals: Vec<String> = pos2.iter().map(|&i| can(&t2.values(i).concat())).collect();
            format!("{} | {} | {} | {}", H::flat(&t2.cap.0), H::flat(&t2.digests), proofs.join(" ; "), vals.join(" ; "))
        });
    }
    if tree.leaf_heights != hs {
        e.oracle_failures.push(format!("leaf_heights {:?} != {hs:?}", tree.leaf_heights));
    }
    let heights = tree.leaf_heights.clone();
    let nm = hs.len();
    for &i in &positions {
        let proof = tree.open_batch(i);
        let vals = tree.values(i);
        let honest = std::panic::catch_unwind(std::panic::AssertUnwindSafe(|| verify_batch_merkle_proof_to_cap::<F, H>(&vals, &heights, i, &tree.cap, &proof)));
        if !matches!(honest, Ok(Ok(()))) {
            e.oracle_failures.push(format!("honest batch opening rejected: H={} heights={hs:?} cap={cap_h} widths={widths:?} i={i}", H::ID));
        }
        check::<H>(e, "bverify-honest", ovf, &vals, &heights, i, &tree.cap, &proof);
        // a value of the first matrix row edited
        if widths[0] > 0 {
            let mut v = vals.clone();
            let c = r.below(widths[0] as u64) as usize;
            v[0][c] += F::ONE;
            check::<H>(e, "bverify-edited-first-row", ovf, &v, &heights, i, &tree.cap, &proof);
        }
        if nm > 1 {
            // a value of a later matrix row edited
            let m = 1 + r.below(nm as u64 - 1) as usize;
            if widths[m] > 0 {
                let mut v = vals.clone();
                let c = r.below(widths[m] as u64) as usize;
                v[m][c] += F::ONE;
                check::<H>(e, "bverify-edited-later-row", ovf, &v, &heights, i, &tree.cap, &proof);
            }
            // the row of a later matrix replaced by the row at another index of that matrix
            let m = 1 + r.below(nm as u64 - 1) as usize;
            let rows = 1usize << hs[m];
            if rows > 1 {
                let own = i >> (hs[0] - hs[m]);
                let other = (own + 1 + r.below(rows as u64 - 1) as usize) % rows;
                if tree.leaves[m][other] != tree.leaves[m][own] {
                    let mut v = vals.clone();
                    v[m] = tree.leaves[m][other].clone();
                    check::<H>(e, "bverify-later-row-of-other-index", ovf, &v, &heights, i, &tree.cap, &proof);
                }
            }
            // rows of two matrices exchanged; a matrix row dropped (assert on the lengths);
            // heights that do not belong to the tree
            let mut v = vals.clone();
            v.swap(0, nm - 1);
            if v != vals {
                check::<H>(e, "bverify-rows-swapped", ovf, &v, &heights, i, &tree.cap, &proof);
            }
            let mut v = vals.clone();
            v.pop();
            check::<H>(e, "bverify-row-missing", ovf, &v, &heights, i, &tree.cap, &proof);
            let mut h2 = heights.clone();
            h2.pop();
            check::<H>(e, "bverify-row-and-height-missing", ovf, &v, &h2, i, &tree.cap, &proof);
            let mut h3 = heights.clone();
            let m = 1 + r.below(nm as u64 - 1) as usize;
            h3[m] = if r.coin() { h3[m] + 1 } else { h3[m].wrapping_sub(1) };
            if h3[m] != usize::MAX {
                check::<H>(e, "bverify-wrong-height", ovf, &vals, &h3, i, &tree.cap, &proof);
            }
        }
        // one more (data, height) pair whose height is never reached: the final assert
        {
            let mut v = vals.clone();
            v.push(vec![F::ONE]);
            let mut h4 = heights.clone();
            h4.push(hs[0] + 1 + r.below(3) as usize);
            check::<H>(e, "bverify-extra-row-unreachable-height", ovf, &v, &h4, i, &tree.cap, &proof);
        }
        // no data at all: `leaf_data[0]` is out of range
        if i == positions[0] {
            check::<H>(e, "bverify-no-data", ovf, &[], &[], i, &tree.cap, &proof);
        }
        // wrong index
        if n > 1 {
            let j = (i + 1 + r.below(n as u64 - 1) as usize) % n;
            check::<H>(e, "bverify-wrong-index", ovf, &vals, &heights, j, &tree.cap, &proof);
        }
        check::<H>(e, "bverify-index-out-of-range", ovf, &vals, &heights, i + n * (1 + r.below(3) as usize), &tree.cap, &proof);
        if !proof.siblings.is_empty() {
            let mut p = proof.clone();
            let s = r.below(p.siblings.len() as u64) as usize;
            H::tweak(&mut p.siblings[s], r);
            check::<H>(e, "bverify-edited-sibling", ovf, &vals, &heights, i, &tree.cap, &p);
            let mut p = proof.clone();
            p.siblings.pop();
            check::<H>(e, "bverify-short-proof", ovf, &vals, &heights, i, &tree.cap, &p);
            if proof.siblings.len() > 1 {
                let mut p = proof.clone();
                p.siblings.remove(0);
                check::<H>(e, "bverify-short-proof-front", ovf, &vals, &heights, i, &tree.cap, &p);
            }
        }
        let mut cap2 = tree.cap.clone();
        let ci = i >> (hs[0] - cap_h);
        H::tweak(&mut cap2.0[ci], r);
        check::<H>(e, "bverify-edited-cap", ovf, &vals, &heights, i, &cap2, &proof);
        // extended proof: with the honest heights the height counter passes zero when the cap is
        // the root (wrapping in release builds, panic with overflow checks)
        let mut p = proof.clone();
        p.siblings.push(H::zero());
        check::<H>(e, "bverify-long-proof", ovf, &vals, &heights, i, &tree.cap, &p);
        if cap_h == 0 {
            e.count("bverify-long-proof-height-underflow");
        }
    }
}

/// Shapes that `BatchMerkleTree::new` must refuse (assertions before any buffer is touched).
fn bad_shapes<H: HK>(e: &mut Emitter, r: &mut Rng) {
    let cases: Vec<(Vec<usize>, usize)> = vec![
        (vec![], 0),          // no matrix
        (vec![3], 0),         // not a power of two
        (vec![4, 4], 0),      // equal heights
        (vec![2, 4], 0),      // increasing
        (vec![8, 4, 4], 1),   // duplicate later
        (vec![8, 2], 2),      // cap above the last matrix
        (vec![4], 3),         // cap above the only matrix
        (vec![8, 6], 0),      // later matrix not a power of two
        (vec![0], 0),         // empty matrix
    ];
    for (rows, cap_h) in cases {
        let mats: Vec<Vec<Vec<F>>> = rows.iter().map(|&n| matrix(r, n, 2)).collect();
        let shape: Vec<String> = rows.iter().map(|&n| format!("{n} 2")).collect();
        let data: String = join(mats.iter().flat_map(|m| m.iter().flat_map(|row| row.iter().map(|x| x.to_canonical_u64()))));
        let req = format!("c12 btree {} {} {} {} 0 {}", H::ID, cap_h, rows.len(), shape.join(" "), data);
        let req = req.split_whitespace().collect::<Vec<_>>().join(" ");
        e.case("btree-refused-shape", req, || {
            let t = BatchMerkleTree::<F, H>::new(mats.clone(), cap_h);
            format!("{} | {} |  | ", H::flat(&t.cap.0), H::flat(&t.digests))
        });
    }
}

fn shapes(thorough: bool) -> Vec<Vec<usize>> {
    let mut out: Vec<Vec<usize>> = vec![];
    if thorough {
        // every strictly decreasing sequence of 1..=4 heights out of 0..=6
        for mask in 1u32..128 {
            if mask.count_ones() > 4 {
                continue;
            }
            out.push((0..7).rev().filter(|b| mask >> b & 1 == 1).collect());
        }
    } else {
        for s in [
            vec![0], vec![1], vec![3], vec![6],
            vec![1, 0], vec![2, 0], vec![2, 1], vec![3, 0], vec![3, 1], vec![4, 2], vec![5, 3], vec![6, 0], vec![6, 5], vec![5, 2],
            vec![2, 1, 0], vec![5, 4, 3], vec![4, 1, 0], vec![6, 3, 1], vec![4, 3, 1],
            vec![3, 2, 1, 0], vec![6, 4, 2, 0], vec![5, 4, 3, 2], vec![6, 5, 2, 1],
        ] {
            out.push(s);
        }
    }
    out
}

fn sweep<H: HK>(e: &mut Emitter, r: &mut Rng, ovf: bool, thorough: bool, every: usize, npos: usize, tcount: &mut usize, pools: &[(usize, rayon::ThreadPool)]) {
    let mut wc = 0usize;
    for (si, hs) in shapes(thorough).iter().enumerate() {
        if si % every != 0 {
            continue;
        }
        let last = *hs.last().unwrap();
        for cap_h in 0..=last {
            // widths 1..=9 in rotation; now and then an empty row in a later matrix (then
            // `cap_hash.to_vec() ++ row` has exactly 4 elements: the Poseidon no-op boundary, the
            // re-hash is the identity and the matrix leaves no trace in the commitment — the
            // requests that drop it or move its height are accepted by code and model alike)
            let widths: Vec<usize> = (0..hs.len())
                .map(|m| {
                    wc += 1;
                    if m > 0 && r.below(12) == 0 { 0 } else { 1 + (wc * 7 + r.below(2) as usize) % 9 }
                })
                .collect();
            let pool = &pools[*tcount % 3];
            *tcount += 1;
            one_tree::<H>(e, r, ovf, hs, cap_h, &widths, pool, npos);
        }
    }
    bad_shapes::<H>(e, r);
}

pub fn emit(e: &mut Emitter, seed: u64, thorough: bool) {
    let mut r = Rng::new(seed ^ 0x12_BA);
    let ovf = overflow_checks();
    e.count(if ovf { "overflow-checks=on" } else { "overflow-checks=off" });
    let mut tcount = 0;
    let pools = crate::c12k::pools();
    // the tree logic does not depend on the hasher: the model's Poseidon is ~20x slower than its
    // Keccak, so Poseidon gets every shape with few positions and Keccak<25> (whose
    // `BytesHash::to_vec`, 7-byte chunks, feeds the re-hash of the later matrices) the bulk
    sweep::<PoseidonHash>(e, &mut r, ovf, thorough, 1, if thorough { 4 } else { 2 }, &mut tcount, &pools);
    sweep::<KeccakHash<25>>(e, &mut r, ovf, thorough, 1, if thorough { 8 } else { 4 }, &mut tcount, &pools);
    sweep::<KeccakHash<32>>(e, &mut r, ovf, thorough, if thorough { 5 } else { 3 }, if thorough { 8 } else { 4 }, &mut tcount, &pools);
}
