//! A `Stark` implementation that INTERPRETS AIR DATA (`DslStark<COLS, PIS>`), the same AIR language
//! as lean/P2/Model/Air.lean; a row-by-row evaluator over `F` (the implementation-side
//! classifier of traces); a seeded generator of AIRs with satisfying traces obtained by forward
//! simulation; the three toy STARKs of /repo/starky/src (fibonacci, permutation, unconstrained)
//! as AIR data; flat dumps of AIRs, traces, `StarkConfig`s and STARK proofs.
use std::sync::Arc;

use plonky2::field::extension::FieldExtension;
use plonky2::field::packed::PackedField;
use plonky2::field::polynomial::PolynomialValues;
use plonky2::field::types::Field;
use plonky2::fri::reduction_strategies::FriReductionStrategy;
use plonky2::fri::{FriConfig, FriParams};
use plonky2::iop::ext_target::ExtensionTarget;
use plonky2::plonk::circuit_builder::CircuitBuilder;
use plonky2::util::timing::TimingTree;
use starky::config::StarkConfig;
use starky::constraint_consumer::{ConstraintConsumer, RecursiveConstraintConsumer};
use starky::evaluation_frame::{StarkEvaluationFrame, StarkFrame};
use starky::lookup::{Column, Filter, Lookup};
use starky::proof::StarkProofWithPublicInputs;
use starky::stark::Stark;

use crate::dump::*;
use crate::util::*;

pub type SProof = StarkProofWithPublicInputs<F, C, 2>;

// ------------------------------------------------------------------------------- AIR data

#[derive(Clone, Debug, PartialEq)]
pub enum Expr {
    Const(u64),
    Local(usize),
    Next(usize),
    Public(usize),
    Add(Box<Expr>, Box<Expr>),
    Sub(Box<Expr>, Box<Expr>),
    Mul(Box<Expr>, Box<Expr>),
}

#[derive(Clone, Copy, Debug, PartialEq, Eq)]
pub enum Kind {
    First = 0,
    Last = 1,
    Transition = 2,
    All = 3,
}

/// `starky::lookup::Column` as data (its fields are private)
#[derive(Clone, Debug, Default, PartialEq)]
pub struct ColSpec {
    pub lc: Vec<(usize, u64)>,
    pub next: Vec<(usize, u64)>,
    pub c: u64,
}

/// `starky::lookup::Filter` as data
#[derive(Clone, Debug, PartialEq)]
pub struct FilterSpec {
    pub products: Vec<(ColSpec, ColSpec)>,
    pub constants: Vec<ColSpec>,
}

#[derive(Clone, Debug, PartialEq)]
pub struct LookupSpec {
    pub columns: Vec<ColSpec>,
    pub table: ColSpec,
    pub freq: ColSpec,
    pub filters: Vec<FilterSpec>,
}

#[derive(Clone, Debug, PartialEq)]
pub struct Air {
    pub cols: usize,
    pub pis: usize,
    pub degree: usize,
    pub constraints: Vec<(Kind, Expr)>,
    pub lookups: Vec<LookupSpec>,
    pub requires_ctls: bool,
}

pub fn lit(c: u64) -> Expr { Expr::Const(c) }
pub fn loc(i: usize) -> Expr { Expr::Local(i) }
pub fn nxt(i: usize) -> Expr { Expr::Next(i) }
pub fn pubi(i: usize) -> Expr { Expr::Public(i) }
pub fn add(a: Expr, b: Expr) -> Expr { Expr::Add(Box::new(a), Box::new(b)) }
pub fn sub(a: Expr, b: Expr) -> Expr { Expr::Sub(Box::new(a), Box::new(b)) }
pub fn mul(a: Expr, b: Expr) -> Expr { Expr::Mul(Box::new(a), Box::new(b)) }

impl Expr {
    /// total degree in the trace cells (public inputs and constants have degree 0)
    pub fn degree(&self) -> usize {
        match self {
            Expr::Const(_) | Expr::Public(_) => 0,
            Expr::Local(_) | Expr::Next(_) => 1,
            Expr::Add(a, b) | Expr::Sub(a, b) => a.degree().max(b.degree()),
            Expr::Mul(a, b) => a.degree() + b.degree(),
        }
    }
    /// evaluation over the base field (trace rows)
    pub fn eval(&self, lv: &[F], nv: &[F], pis: &[F]) -> F {
        match self {
            Expr::Const(c) => F::from_noncanonical_u64(*c),
            Expr::Local(i) => lv[*i],
            Expr::Next(i) => nv[*i],
            Expr::Public(i) => pis[*i],
            Expr::Add(a, b) => a.eval(lv, nv, pis) + b.eval(lv, nv, pis),
            Expr::Sub(a, b) => a.eval(lv, nv, pis) - b.eval(lv, nv, pis),
            Expr::Mul(a, b) => a.eval(lv, nv, pis) * b.eval(lv, nv, pis),
        }
    }
    /// evaluation over any packed field (what `eval_packed_generic` needs)
    fn eval_packed<FE, P, const D2: usize>(&self, lv: &[P], nv: &[P], pis: &[FE]) -> P
    where
        FE: FieldExtension<D2, BaseField = F>,
        P: PackedField<Scalar = FE>,
    {
        match self {
            Expr::Const(c) => P::from(FE::from_basefield(F::from_noncanonical_u64(*c))),
            Expr::Local(i) => lv[*i],
            Expr::Next(i) => nv[*i],
            Expr::Public(i) => P::from(pis[*i]),
            Expr::Add(a, b) => a.eval_packed(lv, nv, pis) + b.eval_packed(lv, nv, pis),
            Expr::Sub(a, b) => a.eval_packed(lv, nv, pis) - b.eval_packed(lv, nv, pis),
            Expr::Mul(a, b) => a.eval_packed(lv, nv, pis) * b.eval_packed(lv, nv, pis),
        }
    }
    /// the same expression as a circuit over extension targets (`eval_ext_circuit`)
    fn eval_circuit(
        &self,
        b: &mut CircuitBuilder<F, 2>,
        lv: &[ExtensionTarget<2>],
        nv: &[ExtensionTarget<2>],
        pis: &[ExtensionTarget<2>],
    ) -> ExtensionTarget<2> {
        match self {
            Expr::Const(c) => b.constant_extension(<FE as FieldExtension<2>>::from_basefield(F::from_noncanonical_u64(*c))),
            Expr::Local(i) => lv[*i],
            Expr::Next(i) => nv[*i],
            Expr::Public(i) => pis[*i],
            Expr::Add(x, y) => { let (x, y) = (x.eval_circuit(b, lv, nv, pis), y.eval_circuit(b, lv, nv, pis)); b.add_extension(x, y) }
            Expr::Sub(x, y) => { let (x, y) = (x.eval_circuit(b, lv, nv, pis), y.eval_circuit(b, lv, nv, pis)); b.sub_extension(x, y) }
            Expr::Mul(x, y) => { let (x, y) = (x.eval_circuit(b, lv, nv, pis), y.eval_circuit(b, lv, nv, pis)); b.mul_extension(x, y) }
        }
    }
    /// prefix dump: `0 c | 1 i | 2 i | 3 i | 4 a b | 5 a b | 6 a b`
    pub fn dump(&self, t: &mut Toks) {
        match self {
            Expr::Const(c) => { t.n(0); t.0.push(*c % P) }
            Expr::Local(i) => { t.n(1); t.n(*i) }
            Expr::Next(i) => { t.n(2); t.n(*i) }
            Expr::Public(i) => { t.n(3); t.n(*i) }
            Expr::Add(a, b) => { t.n(4); a.dump(t); b.dump(t) }
            Expr::Sub(a, b) => { t.n(5); a.dump(t); b.dump(t) }
            Expr::Mul(a, b) => { t.n(6); a.dump(t); b.dump(t) }
        }
    }
}

impl ColSpec {
    pub fn single(c: usize) -> Self { ColSpec { lc: vec![(c, 1)], next: vec![], c: 0 } }
    pub fn single_next(c: usize) -> Self { ColSpec { lc: vec![], next: vec![(c, 1)], c: 0 } }
    pub fn constant(c: u64) -> Self { ColSpec { lc: vec![], next: vec![], c } }
    pub fn to_column(&self) -> Column<F> {
        let f = |v: &Vec<(usize, u64)>| v.iter().map(|&(i, c)| (i, F::from_noncanonical_u64(c))).collect::<Vec<_>>();
        if self.lc.is_empty() && self.next.is_empty() {
            Column::constant(F::from_noncanonical_u64(self.c))
        } else {
            Column::linear_combination_and_next_row_with_constant(f(&self.lc), f(&self.next), F::from_noncanonical_u64(self.c))
        }
    }
    /// `Column::eval_table`: value at a trace row (the next row wraps around)
    pub fn eval_row(&self, rows: &[Vec<F>], r: usize) -> F {
        let n = rows.len();
        let mut s = F::from_noncanonical_u64(self.c);
        for &(i, c) in &self.lc { s += rows[r][i] * F::from_noncanonical_u64(c); }
        for &(i, c) in &self.next { s += rows[(r + 1) % n][i] * F::from_noncanonical_u64(c); }
        s
    }
    pub fn dump(&self, t: &mut Toks) {
        for v in [&self.lc, &self.next] {
            t.n(v.len());
            for &(i, c) in v { t.n(i); t.0.push(c % P); }
        }
        t.0.push(self.c % P);
    }
}

impl FilterSpec {
    /// `Filter::default()`: the constant 1
    pub fn always() -> Self { FilterSpec { products: vec![], constants: vec![ColSpec::constant(1)] } }
    pub fn to_filter(&self) -> Filter<F> {
        Filter::new(self.products.iter().map(|(a, b)| (a.to_column(), b.to_column())).collect(), self.constants.iter().map(|c| c.to_column()).collect())
    }
    pub fn eval_row(&self, rows: &[Vec<F>], r: usize) -> F {
        let mut s = F::ZERO;
        for (a, b) in &self.products { s += a.eval_row(rows, r) * b.eval_row(rows, r); }
        for c in &self.constants { s += c.eval_row(rows, r); }
        s
    }
    pub fn dump(&self, t: &mut Toks) {
        t.n(self.products.len());
        for (a, b) in &self.products { a.dump(t); b.dump(t); }
        t.n(self.constants.len());
        for c in &self.constants { c.dump(t); }
    }
}

impl LookupSpec {
    pub fn to_lookup(&self) -> Lookup<F> {
        Lookup {
            columns: self.columns.iter().map(|c| c.to_column()).collect(),
            table_column: self.table.to_column(),
            frequencies_column: self.freq.to_column(),
            filter_columns: self.filters.iter().map(|f| f.to_filter()).collect(),
        }
    }
    pub fn dump(&self, t: &mut Toks) {
        t.n(self.columns.len());
        for c in &self.columns { c.dump(t); }
        self.table.dump(t);
        self.freq.dump(t);
        t.n(self.filters.len());
        for f in &self.filters { f.dump(t); }
    }
}

impl Air {
    pub fn dump(&self, t: &mut Toks) {
        t.n(self.cols);
        t.n(self.pis);
        t.n(self.degree);
        t.n(self.constraints.len());
        for (k, e) in &self.constraints { t.n(*k as usize); e.dump(t); }
        t.n(self.lookups.len());
        for l in &self.lookups { l.dump(t); }
        t.b(self.requires_ctls);
    }
    /// The smallest `constraint_degree()` under which every constraint passes the library's own
    /// `test_stark_low_degree` (constraint × its multiplier has degree ≤ n·D − 1): an unconditional
    /// constraint of degree d needs D ≥ d, a transition one (× `z_last`) D ≥ max(2, d) as soon as
    /// d ≥ 1, a first/last-row one (× Lagrange basis polynomial) D ≥ d + 1.
    pub fn needed_degree(&self) -> usize {
        self.constraints.iter().map(|(k, e)| {
            let d = e.degree();
            match k {
                Kind::All => d.max(1),
                Kind::Transition => if d == 0 { 1 } else { d.max(2) },
                Kind::First | Kind::Last => d + 1,
            }
        }).max().unwrap_or(0)
    }
    /// Row-by-row evaluation on a trace: first-row constraints at row 0, last-row ones at row n−1,
    /// transitions on rows 0…n−2 (the wrap-around row is exempt), unconditional ones on every row
    /// (next row taken cyclically). Returns the first violation in (row, constraint index) order.
    pub fn first_violation(&self, rows: &[Vec<F>], pis: &[F]) -> Option<(usize, usize)> {
        let n = rows.len();
        for r in 0..n {
            let nv = &rows[(r + 1) % n];
            for (ci, (k, e)) in self.constraints.iter().enumerate() {
                let active = match k {
                    Kind::First => r == 0,
                    Kind::Last => r == n - 1,
                    Kind::Transition => r != n - 1,
                    Kind::All => true,
                };
                if active && e.eval(&rows[r], nv, pis) != F::ZERO { return Some((r, ci)); }
            }
        }
        None
    }
    /// Lookup semantics on a trace, independent of the protocol: for every lookup, the multiset of
    /// filtered looking values (with filter value as multiplicity) equals the table values weighted
    /// by the frequencies. Returns the index of the first lookup that does not hold.
    pub fn first_bad_lookup(&self, rows: &[Vec<F>]) -> Option<usize> {
        use plonky2::field::types::PrimeField64;
        for (li, l) in self.lookups.iter().enumerate() {
            let mut m: std::collections::BTreeMap<u64, F> = Default::default();
            for r in 0..rows.len() {
                for (c, f) in l.columns.iter().zip(&l.filters) {
                    *m.entry(c.eval_row(rows, r).to_canonical_u64()).or_insert(F::ZERO) += f.eval_row(rows, r);
                }
                *m.entry(l.table.eval_row(rows, r).to_canonical_u64()).or_insert(F::ZERO) -= l.freq.eval_row(rows, r);
            }
            if m.values().any(|v| *v != F::ZERO) { return Some(li); }
        }
        None
    }
}

// ------------------------------------------------------------------------------- the interpreter

#[derive(Clone)]
pub struct DslStark<const COLS: usize, const PIS: usize> {
    pub air: Arc<Air>,
}

impl<const COLS: usize, const PIS: usize> Stark<F, 2> for DslStark<COLS, PIS> {
    type EvaluationFrame<FE2, P, const D2: usize>
        = StarkFrame<P, P::Scalar, COLS, PIS>
    where
        FE2: FieldExtension<D2, BaseField = F>,
        P: PackedField<Scalar = FE2>;

    type EvaluationFrameTarget = StarkFrame<ExtensionTarget<2>, ExtensionTarget<2>, COLS, PIS>;

    fn eval_packed_generic<FE2, P, const D2: usize>(&self, vars: &Self::EvaluationFrame<FE2, P, D2>, yield_constr: &mut ConstraintConsumer<P>)
    where
        FE2: FieldExtension<D2, BaseField = F>,
        P: PackedField<Scalar = FE2>,
    {
        let (lv, nv, pis) = (vars.get_local_values(), vars.get_next_values(), vars.get_public_inputs());
        for (k, e) in &self.air.constraints {
            let v = e.eval_packed::<FE2, P, D2>(lv, nv, pis);
            match k {
                Kind::First => yield_constr.constraint_first_row(v),
                Kind::Last => yield_constr.constraint_last_row(v),
                Kind::Transition => yield_constr.constraint_transition(v),
                Kind::All => yield_constr.constraint(v),
            }
        }
    }

    fn eval_ext_circuit(&self, builder: &mut CircuitBuilder<F, 2>, vars: &Self::EvaluationFrameTarget, yield_constr: &mut RecursiveConstraintConsumer<F, 2>) {
        let (lv, nv, pis) = (vars.get_local_values(), vars.get_next_values(), vars.get_public_inputs());
        for (k, e) in &self.air.constraints {
            let v = e.eval_circuit(builder, lv, nv, pis);
            match k {
                Kind::First => yield_constr.constraint_first_row(builder, v),
                Kind::Last => yield_constr.constraint_last_row(builder, v),
                Kind::Transition => yield_constr.constraint_transition(builder, v),
                Kind::All => yield_constr.constraint(builder, v),
            }
        }
    }

    fn constraint_degree(&self) -> usize { self.air.degree }

    fn lookups(&self) -> Vec<Lookup<F>> { self.air.lookups.iter().map(|l| l.to_lookup()).collect() }

    fn requires_ctls(&self) -> bool { self.air.requires_ctls }
}

/// the (COLS, PIS) instantiations that exist; generated AIRs pick their shape from this list
pub const SHAPES: &[(usize, usize)] = &[(1, 0), (1, 1), (2, 0), (2, 3), (3, 0), (3, 1), (4, 2), (5, 1), (5, 4), (6, 0), (6, 3), (7, 2), (8, 0), (8, 2), (13, 0), (14, 2), (26, 0)];

/// run `$body` with `$s` bound to the `DslStark<COLS, PIS>` of the AIR's shape
macro_rules! with_stark {
    ($air:expr, $s:ident => $body:expr) => {{
        let air: Arc<Air> = $air.clone();
        macro_rules! arm { ($c:literal, $p:literal) => {{ let $s = DslStark::<$c, $p> { air: air.clone() }; $body }}; }
        match (air.cols, air.pis) {
            (1, 0) => arm!(1, 0), (1, 1) => arm!(1, 1), (2, 0) => arm!(2, 0), (2, 3) => arm!(2, 3),
            (3, 0) => arm!(3, 0), (3, 1) => arm!(3, 1), (4, 2) => arm!(4, 2), (5, 1) => arm!(5, 1),
            (5, 4) => arm!(5, 4), (6, 0) => arm!(6, 0), (6, 3) => arm!(6, 3), (7, 2) => arm!(7, 2),
            (8, 0) => arm!(8, 0), (8, 2) => arm!(8, 2),
            (13, 0) => arm!(13, 0), (14, 2) => arm!(14, 2), (26, 0) => arm!(26, 0),
            s => panic!("no DslStark instantiation for shape {s:?}"),
        }
    }};
}
pub(crate) use with_stark;

pub fn rows_to_polys(rows: &[Vec<F>]) -> Vec<PolynomialValues<F>> {
    let cols = rows[0].len();
    (0..cols).map(|c| PolynomialValues::new(rows.iter().map(|r| r[c]).collect())).collect()
}

/// `starky::prover::prove` on the interpreted AIR
pub fn prove_air(air: &Arc<Air>, config: &StarkConfig, rows: &[Vec<F>], pis: &[F], vparams: Option<FriParams>) -> anyhow::Result<SProof> {
    let polys = rows_to_polys(rows);
    with_stark!(air, s => starky::prover::prove::<F, C, _, 2>(s, config, polys, pis, vparams, &mut TimingTree::default()))
}

/// `starky::verifier::verify_stark_proof` on the interpreted AIR
pub fn verify_air(air: &Arc<Air>, config: &StarkConfig, proof: &SProof, vparams: Option<FriParams>) -> anyhow::Result<()> {
    with_stark!(air, s => starky::verifier::verify_stark_proof::<F, C, _, 2>(s, proof.clone(), config, vparams))
}

/// every Fiat–Shamir challenge of a proof, as one answer string (`get_challenges`)
pub fn challenges_air(air: &Arc<Air>, config: &StarkConfig, proof: &SProof, vparams: Option<FriParams>) -> String {
    use plonky2::field::types::PrimeField64;
    use plonky2::hash::poseidon::PoseidonHash;
    use plonky2::iop::challenger::Challenger;
    let mut ch = Challenger::<F, PoseidonHash>::new();
    let c = with_stark!(air, s => proof.get_challenges(&s, &mut ch, None, None, false, config, vparams));
    let ext = |x: FE| format!("{} {}", x.0[0].to_canonical_u64(), x.0[1].to_canonical_u64());
    let lk = match &c.lookup_challenge_set {
        None => "none".to_string(),
        Some(s) => join(s.challenges.iter().flat_map(|g| [g.beta.to_canonical_u64(), g.gamma.to_canonical_u64()])),
    };
    format!(
        "lookup {} alphas {} zeta {} fri_alpha {} fri_betas {} pow {} idx {}",
        lk, join(c.stark_alphas.iter().map(|x| x.to_canonical_u64())), ext(c.stark_zeta), ext(c.fri_challenges.fri_alpha),
        c.fri_challenges.fri_betas.iter().map(|b| ext(*b)).collect::<Vec<_>>().join(" "),
        c.fri_challenges.fri_pow_response.to_canonical_u64(), join(c.fri_challenges.fri_query_indices.iter())
    )
}

/// the library's own degree test and native-vs-circuit test on the interpreted AIR
pub fn low_degree_ok(air: &Arc<Air>) -> bool {
    with_stark!(air, s => starky::stark_testing::test_stark_low_degree::<F, _, 2>(s).is_ok())
}
pub fn circuit_agrees(air: &Arc<Air>) -> bool {
    with_stark!(air, s => starky::stark_testing::test_stark_circuit_constraints::<F, C, _, 2>(s).is_ok())
}

/// Verdict classes of the STARK verifier, aligned with the stages of lean/P2/Model/Stark.lean.
pub fn stark_verdict(res: anyhow::Result<()>) -> String {
    match res {
        Ok(()) => "ACCEPT".into(),
        Err(e) => {
            let m = format!("{e:#}");
            let stage = if m.contains("Invalid proof of work") { "pow" }
                else if m.contains("Number of query rounds") { "num-queries" }
                else if m.contains("Invalid Merkle proof") { "merkle" }
                else if m.contains("Final polynomial evaluation") { "final" }
                else if m.contains("old_eval") { "consistency" }
                else if m.contains("Mismatch between evaluation and opening of quotient polynomial") { "identity" }
                else { "shape" };
            format!("REJECT:{stage}")
        }
    }
}

pub fn verdict_air(air: &Arc<Air>, config: &StarkConfig, proof: &SProof, vparams: Option<FriParams>) -> String {
    match std::panic::catch_unwind(std::panic::AssertUnwindSafe(|| verify_air(air, config, proof, vparams))) {
        Ok(r) => stark_verdict(r),
        Err(_) => "PANIC".into(),
    }
}

// ------------------------------------------------------------------------------- dumps

pub fn dump_config(t: &mut Toks, c: &StarkConfig) {
    t.n(c.security_bits);
    t.n(c.num_challenges);
    t.n(c.fri_config.rate_bits);
    t.n(c.fri_config.cap_height);
    t.n(c.fri_config.proof_of_work_bits as usize);
    t.strategy(&c.fri_config.reduction_strategy);
    t.n(c.fri_config.num_query_rounds);
}

/// `verifier_circuit_fri_params`: only `degree_bits` and `reduction_arity_bits` are read
pub fn dump_vparams(t: &mut Toks, v: &Option<FriParams>) {
    match v {
        None => t.n(0),
        Some(p) => { t.n(1); t.n(p.degree_bits); t.ns(&p.reduction_arity_bits); }
    }
}

pub fn dump_trace(t: &mut Toks, rows: &[Vec<F>]) {
    t.n(rows.len());
    for r in rows { for &x in r { t.f(x); } }
}

pub fn sat_request(air: &Air, rows: &[Vec<F>], pis: &[F]) -> String {
    let mut t = Toks::default();
    air.dump(&mut t);
    dump_trace(&mut t, rows);
    t.fs(pis);
    format!("c09 sat {}", t.line())
}

pub fn sat_answer(v: Option<(usize, usize)>) -> String {
    match v { None => "SAT".into(), Some((r, c)) => format!("VIOLATED {r} {c}") }
}

pub fn proof_request(kind: &str, air: &Air, config: &StarkConfig, vparams: &Option<FriParams>, proof: &SProof) -> String {
    let mut t = Toks::default();
    air.dump(&mut t);
    dump_config(&mut t, config);
    dump_vparams(&mut t, vparams);
    t.stark_proof_with_pis(proof);
    format!("{kind} {}", t.line())
}

// ------------------------------------------------------------------------------- the three toy STARKs as AIR data

/// fibonacci_stark.rs: state `[x0, x1]`, `x0' = x1`, `x1' = x0 + x1`, public inputs x0, x1, result
pub fn fibonacci_air() -> Air {
    Air {
        cols: 2, pis: 3, degree: 2,
        constraints: vec![
            (Kind::First, sub(loc(0), pubi(0))),
            (Kind::First, sub(loc(1), pubi(1))),
            (Kind::Last, sub(loc(1), pubi(2))),
            (Kind::Transition, sub(nxt(0), loc(1))),
            (Kind::Transition, sub(sub(nxt(1), loc(0)), loc(1))),
        ],
        lookups: vec![], requires_ctls: false,
    }
}
pub fn fibonacci_trace(n: usize, x0: F, x1: F) -> (Vec<Vec<F>>, Vec<F>) {
    let mut rows = vec![vec![x0, x1]];
    for i in 1..n { let p = rows[i - 1].clone(); rows.push(vec![p[1], p[0] + p[1]]); }
    let res = rows[n - 1][1];
    (rows, vec![x0, x1, res])
}

/// permutation_stark.rs: columns `[i, j, 1]`, column 0 looked up in column 1 with frequencies in
/// column 2; no table constraint; `constraint_degree() = 0` exactly as the original declares
pub fn permutation_air(degree: usize) -> Air {
    Air {
        cols: 3, pis: 1, degree, constraints: vec![],
        lookups: vec![LookupSpec { columns: vec![ColSpec::single(0)], table: ColSpec::single(1), freq: ColSpec::single(2), filters: vec![FilterSpec::always()] }],
        requires_ctls: false,
    }
}
pub fn permutation_trace(n: usize, x0: F) -> (Vec<Vec<F>>, Vec<F>) {
    let mut rows: Vec<Vec<F>> = (0..n).map(|i| { let k = F::from_canonical_usize(i); vec![x0 + k, x0 + k + F::ONE, F::ONE] }).collect();
    rows[n - 1][1] = x0;
    (rows, vec![x0])
}

/// unconstrained_stark.rs: two columns of arbitrary values, no constraint, degree 0
pub fn unconstrained_air() -> Air {
    Air { cols: 2, pis: 0, degree: 0, constraints: vec![], lookups: vec![], requires_ctls: false }
}

// ------------------------------------------------------------------------------- generator

fn small(r: &mut Rng) -> u64 {
    match r.below(6) { 0 => 0, 1 => 1, 2 => P - 1, 3 => r.below(10), 4 => r.below(P), _ => r.range(2, 1 << 20) }
}

/// a random polynomial expression of degree ≤ `deg` over the given atoms
fn gen_poly(r: &mut Rng, atoms: &[Expr], deg: usize, pis: usize) -> Expr {
    let nterms = r.range(1, 3);
    let mut acc: Option<Expr> = None;
    for _ in 0..nterms {
        let d = if atoms.is_empty() { 0 } else { r.range(0, deg as u64) as usize };
        let mut term: Option<Expr> = None;
        for _ in 0..d {
            let a = r.pick(atoms).clone();
            term = Some(match term { None => a, Some(t) => mul(t, a) });
        }
        let coeff = if pis > 0 && r.below(5) == 0 { pubi(r.below(pis as u64) as usize) } else { lit(small(r).max(1)) };
        let term = match term { None => coeff, Some(t) => if r.coin() { mul(coeff, t) } else { t } };
        acc = Some(match acc { None => term, Some(a) => if r.coin() { add(a, term) } else { sub(a, term) } });
    }
    acc.unwrap()
}

/// How a column of a generated AIR gets its values in the forward simulation.
#[derive(Clone, Debug)]
pub enum ColRule {
    /// row 0 = `init`, row r+1 = `step`(row r); transition constraint `next[i] − step`
    State { init: Init, step: Expr },
    /// same value on every row (unconditional constraint `next[i] − local[i]`, wrap-around included)
    Constant(u64),
    /// `local[i] = def(local[j<i])` on every row (unconditional constraint, local only)
    Derived(Expr),
    /// no constraint mentions how the column evolves
    Free,
}
#[derive(Clone, Debug)]
pub enum Init { Const(u64), Public(usize), Unpinned(u64) }

pub struct GenAir {
    pub air: Arc<Air>,
    pub rules: Vec<ColRule>,
    /// (column, public input) pairs of last-row constraints `local[c] − public[p]`
    pub last_pins: Vec<(usize, usize)>,
    /// values of the public inputs that are not outputs of the simulation
    pub free_pis: Vec<u64>,
}

/// Generate an AIR of the given shape and declared degree (`degree = 0`: no constraint at all).
pub fn gen_air(r: &mut Rng, shape: (usize, usize), degree: usize) -> GenAir {
    let (cols, pis) = shape;
    let mut rules = vec![];
    let mut constraints = vec![];
    let mut last_pins = vec![];
    let free_pis: Vec<u64> = (0..pis).map(|_| small(r)).collect();
    // public inputs that the simulation computes (last-row outputs) must not feed the simulation
    let n_out = if pis > 0 && degree >= 2 { r.range(0, (pis as u64).min(2)) as usize } else { 0 };
    let n_in = pis - n_out; // publics [0, n_in) are inputs, [n_in, pis) are outputs
    if degree == 0 {
        return GenAir { air: Arc::new(Air { cols, pis, degree, constraints, lookups: vec![], requires_ctls: false }), rules: vec![ColRule::Free; cols], last_pins, free_pis };
    }
    for i in 0..cols {
        let locals: Vec<Expr> = (0..cols).map(loc).collect();
        let earlier: Vec<Expr> = (0..i).map(loc).collect();
        // degree 1 admits only unconditional constraints of degree ≤ 1 (see `needed_degree`)
        let choice = if degree == 1 { r.range(1, 3) } else { r.below(8) };
        let rule = match choice {
            1 => ColRule::Constant(small(r)),
            2 if i > 0 => ColRule::Derived(gen_poly(r, &earlier, degree, n_in)),
            3 => ColRule::Free,
            1..=3 => ColRule::Constant(small(r)),
            _ => {
                let init = match r.below(4) {
                    0 => Init::Unpinned(small(r)),
                    1 if n_in > 0 => Init::Public(r.below(n_in as u64) as usize),
                    _ => Init::Const(small(r)),
                };
                ColRule::State { init, step: gen_poly(r, &locals, degree, n_in) }
            }
        };
        match &rule {
            ColRule::State { init, step } => {
                match init {
                    Init::Const(c) => constraints.push((Kind::First, sub(loc(i), lit(*c)))),
                    Init::Public(p) => constraints.push((Kind::First, sub(loc(i), pubi(*p)))),
                    Init::Unpinned(_) => {}
                }
                constraints.push((Kind::Transition, sub(nxt(i), step.clone())));
            }
            ColRule::Constant(_) => constraints.push((Kind::All, sub(nxt(i), loc(i)))),
            ColRule::Derived(e) => constraints.push((Kind::All, sub(loc(i), e.clone()))),
            ColRule::Free => {}
        }
        rules.push(rule);
    }
    // last-row outputs: `local[c] − public[p]` (degree 1, needs D ≥ 2)
    for p in n_in..pis {
        let c = r.below(cols as u64) as usize;
        constraints.push((Kind::Last, sub(loc(c), pubi(p))));
        last_pins.push((c, p));
    }
    // now and then a first-row constraint of degree 2 (only D = 3 can carry it): the product of a
    // pinned initial value's constraint with another cell, which holds by construction
    if degree >= 3 && r.below(3) == 0 {
        if let Some(i) = (0..cols).find(|&i| matches!(rules[i], ColRule::State { init: Init::Const(_), .. })) {
            if let ColRule::State { init: Init::Const(c), .. } = &rules[i] {
                let j = r.below(cols as u64) as usize;
                constraints.push((Kind::First, mul(sub(loc(i), lit(*c)), loc(j))));
            }
        }
    }
    // shuffle the order in which constraints are emitted (α-powers depend on it)
    for k in (1..constraints.len()).rev() { let j = r.below(k as u64 + 1) as usize; constraints.swap(k, j); }
    let air = Air { cols, pis, degree, constraints, lookups: vec![], requires_ctls: false };
    debug_assert!(air.needed_degree() <= degree);
    GenAir { air: Arc::new(air), rules, last_pins, free_pis }
}

impl GenAir {
    /// a satisfying trace of `n` rows and the matching public inputs, by forward simulation
    pub fn simulate(&self, r: &mut Rng, n: usize) -> (Vec<Vec<F>>, Vec<F>) {
        let cols = self.air.cols;
        let mut pis: Vec<F> = self.free_pis.iter().map(|&x| F::from_noncanonical_u64(x)).collect();
        let mut rows: Vec<Vec<F>> = vec![vec![F::ZERO; cols]; n];
        for rr in 0..n {
            // state / constant / free columns first, then derived ones in column order
            for i in 0..cols {
                rows[rr][i] = match &self.rules[i] {
                    ColRule::State { init, step } => {
                        if rr == 0 {
                            match init { Init::Const(c) | Init::Unpinned(c) => F::from_noncanonical_u64(*c), Init::Public(p) => pis[*p] }
                        } else {
                            let prev = rows[rr - 1].clone();
                            step.eval(&prev, &[], &pis)
                        }
                    }
                    ColRule::Constant(c) => F::from_noncanonical_u64(*c),
                    ColRule::Free => F::from_noncanonical_u64(r.below(P)),
                    ColRule::Derived(_) => F::ZERO,
                };
            }
            for i in 0..cols {
                if let ColRule::Derived(e) = &self.rules[i] {
                    let cur = rows[rr].clone();
                    rows[rr][i] = e.eval(&cur, &[], &pis);
                }
            }
        }
        for &(c, p) in &self.last_pins { pis[p] = rows[n - 1][c]; }
        (rows, pis)
    }
}

// ------------------------------------------------------------------------------- configurations

/// A `StarkConfig`. `cheap`: 2–6 queries and little grinding, `security_bits` lowered to what the
/// parameters reach so that `check_config` accepts; otherwise standard strength (100 bits).
pub fn gen_stark_config(r: &mut Rng, cheap: bool, min_rate_bits: usize) -> StarkConfig {
    let rate_bits = (r.range(1, 3) as usize).max(min_rate_bits);
    let cap_height = r.range(0, 4) as usize;
    let strategy = match r.below(6) {
        0 => FriReductionStrategy::Fixed((0..r.range(0, 2)).map(|_| r.range(1, 2) as usize).collect()),
        1 => FriReductionStrategy::MinSize(if r.coin() { None } else { Some(r.range(1, 3) as usize) }),
        2 => FriReductionStrategy::ConstantArityBits(4, 5),
        _ => FriReductionStrategy::ConstantArityBits(r.range(1, 3) as usize, r.range(0, 3) as usize),
    };
    let num_challenges = r.range(1, 3) as usize;
    if cheap {
        let q = r.range(2, 6) as usize;
        let pow = r.range(0, 6) as u32;
        StarkConfig::new(rate_bits * q + pow as usize, num_challenges, FriConfig { rate_bits, cap_height, proof_of_work_bits: pow, reduction_strategy: strategy, num_query_rounds: q })
    } else {
        let pow = 16;
        let q = (100 - pow as usize).div_ceil(rate_bits);
        StarkConfig::new(100, num_challenges.max(2), FriConfig { rate_bits, cap_height, proof_of_work_bits: pow, reduction_strategy: strategy, num_query_rounds: q })
    }
}

/// `verifier_circuit_fri_params` the prover accepts for a `ConstantArityBits(a, f)` configuration:
/// a schedule of `k` reductions ending at `2^(f+1)` coefficients (`prove` asserts exactly that).
pub fn padded_params(config: &StarkConfig, k: usize) -> Option<FriParams> {
    match config.fri_config.reduction_strategy {
        FriReductionStrategy::ConstantArityBits(a, f) => Some(FriParams {
            config: config.fri_config.clone(), hiding: false, degree_bits: f + 1 + k * a, reduction_arity_bits: vec![a; k],
        }),
        _ => None,
    }
}

// ------------------------------------------------------------------------------- a dishonest prover

fn ext(x: F) -> FE { <FE as FieldExtension<2>>::from_basefield(x) }

/// `eval_l_0_and_l_last` together with `z_last`, over the extension field (public field operations)
fn lagrange_first_last(degree_bits: usize, x: FE) -> (FE, FE, FE) {
    let n = FE::from_canonical_usize(1 << degree_bits);
    let g = ext(F::primitive_root_of_unity(degree_bits));
    let z_x = x.exp_power_of_2(degree_bits) - FE::ONE;
    let l0 = z_x * (n * (x - FE::ONE)).inverse();
    let ll = z_x * (n * (g * x - FE::ONE)).inverse();
    (l0, ll, x - g.inverse())
}

/// the α-combined constraint values of the table constraints at a frame (what
/// `compute_eval_vanishing_poly` / the verifier compute for a STARK without lookups)
fn combined_constraints<S: Stark<F, 2>>(stark: &S, lv: &[FE], nv: &[FE], pis: &[F], alphas: &[F], degree_bits: usize, x: FE) -> Vec<FE> {
    let (l0, ll, z_last) = lagrange_first_last(degree_bits, x);
    let mut consumer = ConstraintConsumer::<FE>::new(alphas.iter().map(|&a| ext(a)).collect(), z_last, l0, ll);
    let pis_ext: Vec<FE> = pis.iter().map(|&p| ext(p)).collect();
    let vars = S::EvaluationFrame::<FE, FE, 2>::from_values(lv, nv, &pis_ext);
    stark.eval_ext(&vars, &mut consumer);
    consumer.accumulators()
}

/// A prover that does NOT commit to the quotient before learning ζ: it sends
/// `quotient_polys_cap = None` (which `validate_proof_shape` lets through even when the STARK has
/// quotient polynomials), so ζ does not depend on any quotient commitment and the quotient
/// oracle's Merkle paths are never checked (`fri_verify_initial_proof` zips the oracles with the
/// caps it was given). After seeing ζ it picks, per challenge, a linear "quotient"
/// `q(X) = a + bX` with `q(ζ) = vanishing(ζ) / Z_H(ζ)` and runs the honest FRI prover on
/// [trace, these polynomials]. Works for any trace of a STARK without lookups, satisfying or not.
fn forge_generic<S: Stark<F, 2>>(stark: &S, config: &StarkConfig, rows: &[Vec<F>], pis: &[F]) -> SProof {
    use plonky2::field::polynomial::PolynomialCoeffs;
    use plonky2::fri::oracle::PolynomialBatch;
    use plonky2::fri::structure::{FriOpeningBatch, FriOpenings};
    use plonky2::hash::poseidon::PoseidonHash;
    use plonky2::iop::challenger::Challenger;
    use plonky2::util::{log2_ceil, log2_strict};
    use starky::proof::{StarkOpeningSet, StarkProof};

    let n = rows.len();
    let degree_bits = log2_strict(n);
    let (rate_bits, cap_height) = (config.fri_config.rate_bits, config.fri_config.cap_height);
    let mut timing = TimingTree::default();
    let trace = PolynomialBatch::<F, C, 2>::from_values(rows_to_polys(rows), rate_bits, false, cap_height, &mut timing, None);
    let nch = config.num_challenges;
    // the transcript of `get_challenges`, with public operations of the challenger
    let mut ch = Challenger::<F, PoseidonHash>::new();
    ch.observe_elements(pis);
    config.observe(&mut ch);
    ch.observe_cap(&trace.merkle_tree.cap);
    let alphas_prime = ch.get_n_challenges(nch);
    let pow_degree = 2.max(stark.constraint_degree() + 1);
    let num_ext_powers = 1.max(50 / log2_ceil(pow_degree) - 1);
    let total = S::COLUMNS * 2;
    let zetas = ch.get_n_extension_challenges::<2>(total.div_ceil(num_ext_powers));
    let per = (num_ext_powers + 1).min(total);
    let dummy: Vec<FE> = zetas.into_iter().flat_map(|z| std::iter::successors(Some(z), move |p: &FE| Some(p.exp_u64(pow_degree as u64))).take(per)).collect();
    let zeta_prime = ch.get_extension_challenge::<2>();
    let binding = combined_constraints(stark, &dummy[..S::COLUMNS], &dummy[S::COLUMNS..2 * S::COLUMNS], pis, &alphas_prime, degree_bits, zeta_prime);
    ch.observe_extension_elements::<2>(&binding);
    let alphas = ch.get_n_challenges(nch);
    // no quotient cap is observed: ζ is known before any quotient exists
    let zeta = ch.get_extension_challenge::<2>();
    let g = F::primitive_root_of_unity(degree_bits);
    let eval_all = |z: FE| -> Vec<FE> { trace.polynomials.iter().map(|p| p.to_extension::<2>().eval(z)).collect() };
    let (lv, nv) = (eval_all(zeta), eval_all(zeta * ext(g)));
    let vanishing = combined_constraints(stark, &lv, &nv, pis, &alphas, degree_bits, zeta);
    let z_h = zeta.exp_power_of_2(degree_bits) - FE::ONE;
    let qdf = stark.quotient_degree_factor();
    let mut quotient_polys = vec![];
    for v in &vanishing {
        // first chunk: a + bX through (ζ, v / Z_H(ζ)); remaining chunks: zero
        let y = *v * z_h.inverse();
        let b = y.0[1] * zeta.0[1].inverse();
        let a = y.0[0] - b * zeta.0[0];
        let mut coeffs = vec![F::ZERO; n];
        coeffs[0] = a;
        coeffs[1] = b;
        quotient_polys.push(PolynomialCoeffs::new(coeffs));
        for _ in 1..qdf { quotient_polys.push(PolynomialCoeffs::new(vec![F::ZERO; n])); }
    }
    let quotient = PolynomialBatch::<F, C, 2>::from_coeffs(quotient_polys, rate_bits, false, cap_height, &mut timing, None);
    let openings = StarkOpeningSet::new(zeta, g, &trace, None, Some(&quotient), 0, false, &[]);
    let fri_openings = FriOpenings::<F, 2> {
        batches: vec![
            FriOpeningBatch { values: openings.local_values.iter().chain(openings.quotient_polys.iter().flatten()).copied().collect() },
            FriOpeningBatch { values: openings.next_values.clone() },
        ],
    };
    ch.observe_openings::<2>(&fri_openings);
    let fri_params = config.fri_params(degree_bits);
    let opening_proof = PolynomialBatch::<F, C, 2>::prove_openings(&stark.fri_instance(zeta, g, 0, vec![], config), &[&trace, &quotient], &mut ch, &fri_params, None, None, &mut timing);
    StarkProofWithPublicInputs {
        proof: StarkProof { trace_cap: trace.merkle_tree.cap.clone(), auxiliary_polys_cap: None, quotient_polys_cap: None, openings, opening_proof },
        public_inputs: pis.to_vec(),
    }
}

/// the dishonest prover on an interpreted AIR (no lookups, at least one constraint, n ≥ 2)
pub fn forge_air(air: &Arc<Air>, config: &StarkConfig, rows: &[Vec<F>], pis: &[F]) -> SProof {
    with_stark!(air, s => forge_generic(&s, config, rows, pis))
}
