//! C01: honest proofs of satisfiable circuit programs, under generated configurations: proving
//! succeeds, plain and compressed verification accept, the public inputs equal the program's direct
//! evaluation — computed in Rust over the field AND by the Lean `evalProg` — and the Lean verifier
//! model accepts the dumped proof.
use plonky2::field::types::PrimeField64;
use plonky2::fri::reduction_strategies::FriReductionStrategy;
use plonky2::plonk::circuit_data::CircuitConfig;

use crate::c04::request;
use crate::dump::*;
use crate::progs::*;
use crate::util::*;

pub fn config_for(r: &mut Rng, i: usize, cheap: bool) -> CircuitConfig {
    let mut c = gen_config(r, cheap);
    match i % 7 {
        0 => {}
        1 => c.zero_knowledge = true,
        2 => { c.num_routed_wires = *r.pick(&[28usize, 40, 50, 64]); }   // narrow routed part (PoseidonGate needs 135 wires)
        3 => { c.num_wires = 200; c.num_routed_wires = 120; }        // wide rows
        4 => c.fri_config.reduction_strategy = FriReductionStrategy::Fixed(r.pick(&[vec![1usize, 1, 1], vec![3, 2, 1], vec![1, 2, 3], vec![2, 2, 1, 1], vec![1, 3]]).clone()),
        5 => { c.num_challenges = 3; c.fri_config.cap_height = 1; }
        _ => c.fri_config.reduction_strategy = FriReductionStrategy::MinSize(Some(3)),
    }
    if c.zero_knowledge && matches!(c.fri_config.reduction_strategy, FriReductionStrategy::Fixed(_)) {
        // blinding never fits a Fixed schedule (F-C01-2): outside the admissible configurations
        c.zero_knowledge = false;
    }
    c
}

pub fn emit(e: &mut Emitter, seed: u64, thorough: bool) {
    let mut r = Rng::new(seed ^ 0x01);
    let n_cases = if thorough { 120 } else { 16 };
    // reduction-schedule sweep: every mixed-arity schedule needs enough rows for all its layers, which
    // the random cases below rarely reach — case numbers 1000+k use a 2^8..2^10-row multiplication chain
    let schedules: Vec<FriReductionStrategy> = vec![
        FriReductionStrategy::Fixed(vec![3, 2, 1]), FriReductionStrategy::Fixed(vec![1, 2, 3]), FriReductionStrategy::Fixed(vec![2, 2, 1, 1]),
        FriReductionStrategy::Fixed(vec![1, 3, 2]), FriReductionStrategy::Fixed(vec![1, 1, 2, 3]), FriReductionStrategy::Fixed(vec![4, 1, 2]),
        FriReductionStrategy::MinSize(None), FriReductionStrategy::MinSize(Some(2)), FriReductionStrategy::ConstantArityBits(3, 1),
        FriReductionStrategy::ConstantArityBits(2, 0), FriReductionStrategy::Fixed(vec![2, 3, 3]), FriReductionStrategy::Fixed(vec![1, 4, 1, 1]),
    ];
    // wide rows: gadgets whose gate-versus-arithmetic choice depends on the number of routed wires
    // (exp_from_bits_const_base takes its arithmetic-gate path for up to routed/4 exponent bits: with 160
    // routed wires that includes exponents of 33..40 bits — F-C01-3 was a 32-bit shift there)
    {
        let mut config = CircuitConfig::standard_recursion_config();
        config.num_wires = 200; config.num_routed_wires = 160;
        for (k, nbits) in [(0usize, 40usize), (1, 33), (2, 36)] {
            let exp = (1u64 << (nbits - 1)) | (r.next() >> (65 - nbits)) | if k == 0 { 0 } else { 1 << 32 };
            let prog = Prog { ops: vec![Op::Input(exp), Op::ExpConstBase(if k == 0 { 7 } else { r.below(P) }, 0, nbits), Op::Public(1), Op::Public(0)], tables: vec![], skip_connect: false };
            let (_, expected) = prog.eval();
            let what = format!("exp_from_bits_const_base with {nbits} exponent bits, 160 routed wires");
            e.stage(&format!("impl: building+proving {what}"));
            match std::panic::catch_unwind(std::panic::AssertUnwindSafe(|| { let (d, pw) = prog.build(config.clone()); let p = d.prove(pw)?; d.verify(p.clone())?; anyhow::Ok(p) })) {
                Ok(Ok(p)) => if p.public_inputs != expected { e.oracle_failures.push(format!("public inputs differ from direct evaluation (the circuit computes the wrong power); {what}")); },
                Ok(Err(er)) => e.oracle_failures.push(format!("prove/verify failed on a satisfiable circuit: {er:#}; {what}")),
                Err(_) => e.oracle_failures.push(format!("build/prove panicked; {what}")),
            }
            e.count("wide-row gadget case");
        }
        // narrow rows: more exponent bits than one ExponentiationGate holds (num_routed_wires - 2): the
        // gadget has to split the exponent (F-C01-4: the surplus bit used to land on the gate's output wire)
        for routed in [30usize, 40, 65] {
            let mut config = CircuitConfig::standard_recursion_config();
            config.num_routed_wires = routed;
            let nbits = *r.pick(&[45usize, 63, (routed - 1).min(63), routed.min(63)]);
            let exp = (1u64 << (nbits - 1)) | (r.next() >> (65 - nbits));
            let prog = Prog { ops: vec![Op::Input(exp), Op::Input(r.below(P)), Op::ExpConstBase(r.below(P), 0, nbits), Op::ExpBits(1, 0, nbits), Op::ExpU64(1, exp | 1), Op::Public(2), Op::Public(3), Op::Public(4)], tables: vec![], skip_connect: false };
            let (_, expected) = prog.eval();
            let what = format!("exp_from_bits_const_base / exp / exp_u64 with {nbits} exponent bits, {routed} routed wires");
            e.stage(&format!("impl: building+proving {what}"));
            match std::panic::catch_unwind(std::panic::AssertUnwindSafe(|| { let (d, pw) = prog.build(config.clone()); let p = d.prove(pw)?; d.verify(p.clone())?; anyhow::Ok(p) })) {
                Ok(Ok(p)) => {
                    if p.public_inputs != expected { e.oracle_failures.push(format!("public inputs differ from direct evaluation (the circuit computes the wrong power); {what}")); }
                    // the real proof's public inputs against the Lean reference semantics (evalProg has no
                    // constant-base operation: the equivalent program holds the base in a Const)
                    if let Op::ExpConstBase(cb, _, _) = prog.ops[2] {
                        let lean_prog = Prog { ops: vec![prog.ops[0].clone(), prog.ops[1].clone(), Op::Const(cb), Op::ExpBits(2, 0, nbits), Op::ExpBits(1, 0, nbits), Op::ExpU64(1, exp | 1), Op::Public(3), Op::Public(4), Op::Public(5)], tables: vec![], skip_connect: false };
                        let got = p.public_inputs.clone();
                        e.case("evalProg (exponentiation gadgets, narrow rows)", format!("c01 prog {}", join(lean_prog.encode().iter())), || join(got.iter().map(|x| x.to_canonical_u64())));
                    }
                },
                Ok(Err(er)) => e.oracle_failures.push(format!("prove/verify failed on a satisfiable circuit: {er:#}; {what}")),
                Err(_) => e.oracle_failures.push(format!("building a circuit for an ordinary gadget call panicked; {what}")),
            }
            e.count("narrow-row gadget case");
        }
    }
    let n_sched = if thorough { schedules.len() } else { 5 };
    let first = r.below(schedules.len() as u64) as usize;
    let sweep: Vec<(usize, Option<FriReductionStrategy>)> = (0..n_sched).map(|k| (1000 + k, Some(schedules[(first + k) % schedules.len()].clone()))).collect();
    for (i, sched) in (0..n_cases).map(|i| (i, None)).chain(sweep) {
        let features = r.below(16);
        // mixed Fixed schedules need at least 2^6 rows: large programs with hashing for those cases
        let nops = if i % 5 == 0 || i % 7 == 4 { r.range(100, 300) } else { r.range(6, 70) } as usize;
        let features = if i % 7 == 4 { features | 2 } else { features };
        let cheap = i % 3 != 0;
        let mut config = config_for(&mut r, i, cheap);
        let prog = if i % 8 == 3 || i == 5 {
            // lookup-heavy: counts at exact multiples of the LookupGate slot count of THIS configuration
            // (num_routed_wires / 2) and one off
            let n_tables = r.range(1, 3) as usize;
            let slots = config.num_routed_wires / 2;
            let counts: Vec<usize> = (0..n_tables).map(|t| [slots, 2 * slots, slots + 1, slots - 1][(i / 8 + t) % 4]).collect();
            crate::c08::lookup_prog(&mut r, n_tables, &counts, 26)
        } else { gen_prog(&mut r, nops, features) };
        // regression corpus of F-C01-1: Fixed schedules whose arities exceed the degree of a tiny circuit
        let prog = if let Some(st) = &sched {
            config = gen_config(&mut r, true);
            config.zero_knowledge = false;
            config.fri_config.cap_height = r.below(3) as usize;
            config.fri_config.reduction_strategy = st.clone();
            let n_mul = *r.pick(&[3000usize, 6000, 12000]);
            let mut ops = vec![Op::Input(r.below(P)), Op::Input(r.below(P))];
            for k in 0..n_mul { ops.push(Op::Mul(k, k + 1)); }
            ops.push(Op::Public(n_mul));
            ops.push(Op::Public(0));
            Prog { ops, tables: vec![], skip_connect: false }
        } else if i == 1 || i == 8 {
            config = CircuitConfig::standard_recursion_config();
            config.fri_config.cap_height = 0;
            config.fri_config.reduction_strategy = FriReductionStrategy::Fixed(if i == 1 { vec![3, 3] } else { vec![2, 3] });
            gen_prog(&mut r, 5, 0)
        } else { prog };
        let (_, expected_pis) = prog.eval();
        // Lean evalProg on the same program
        let exp2 = expected_pis.clone();
        e.case("evalProg", format!("c01 prog {}", join(prog.encode().iter())), || join(exp2.iter().map(|x| x.to_canonical_u64())));
        e.stage(&format!("building a generated circuit ({} ops, features {features}, config {:?})", prog.ops.len(), config));
        let built = std::panic::catch_unwind(std::panic::AssertUnwindSafe(|| prog.build(config.clone())));
        let Ok((data, pw)) = built else {
            // a configuration the builder refuses loudly is not admissible; only counted
            e.count("inadmissible: build panicked");
            continue;
        };
        if sched.is_some() { e.count(&format!("schedule sweep: degree_bits {} arities {:?}", data.common.degree_bits(), data.common.fri_params.reduction_arity_bits)); }
        e.count(&format!("admissible zk={} lookups={} strategy={}", config.zero_knowledge, data.common.num_lookup_polys != 0,
            match config.fri_config.reduction_strategy { FriReductionStrategy::Fixed(_) => "fixed", FriReductionStrategy::ConstantArityBits(..) => "const", FriReductionStrategy::MinSize(_) => "minsize" }));
        let what = format!("program of {} ops (seed {seed}, case {i}), config {:?}", prog.ops.len(), config);
        e.stage(&format!("impl: proving {what}"));
        let proof = match std::panic::catch_unwind(std::panic::AssertUnwindSafe(|| data.prove(pw))) {
            Ok(Ok(p)) => p,
            Ok(Err(er)) => { e.oracle_failures.push(format!("prove failed on a satisfiable circuit: {er:#}; {what}")); continue; }
            Err(_) => { e.oracle_failures.push(format!("prove panicked on a satisfiable circuit; {what}")); continue; }
        };
        if proof.public_inputs != expected_pis {
            e.oracle_failures.push(format!("public inputs differ from direct evaluation; {what}"));
        }
        e.stage(&format!("impl: verifying {what}"));
        match std::panic::catch_unwind(std::panic::AssertUnwindSafe(|| data.verify(proof.clone()))) {
            Ok(Ok(())) => {}
            Ok(Err(er)) => e.oracle_failures.push(format!("HONEST PROOF REJECTED: {er:#}; {what}")),
            Err(_) => e.oracle_failures.push(format!("verify panicked on an honest proof; {what}")),
        }
        match std::panic::catch_unwind(std::panic::AssertUnwindSafe(|| {
            let cp = proof.clone().compress(&data.verifier_only.circuit_digest, &data.common)?;
            data.verify_compressed(cp)
        })) {
            Ok(Ok(())) => {}
            Ok(Err(er)) => e.oracle_failures.push(format!("honest proof rejected in compressed form: {er:#}; {what}")),
            Err(_) => e.oracle_failures.push(format!("compress/verify_compressed panicked on an honest proof; {what}")),
        }
        // the Lean verifier must accept the dumped proof (cheap configs only: model speed)
        if cheap && data.common.degree_bits() <= 9 {
            e.case("lean-verifier-accepts", request("c01 verify", &data, &proof), || "ACCEPT".to_string());
        }
    }
}
