//! Seeded generator of circuit programs over the builder's gadgets, with a direct evaluator over
//! the field (the oracle for public inputs), and of circuit configurations.
use plonky2::field::extension::Extendable;
use plonky2::field::goldilocks_field::GoldilocksField as F;
use plonky2::field::types::{Field, PrimeField64};
use plonky2::fri::reduction_strategies::FriReductionStrategy;
use plonky2::fri::FriConfig;
use plonky2::hash::hash_types::HashOutTarget;
use plonky2::hash::hashing::hash_n_to_hash_no_pad;
use plonky2::hash::poseidon::{PoseidonHash, PoseidonPermutation};
use plonky2::iop::target::{BoolTarget, Target};
use plonky2::iop::witness::{PartialWitness, WitnessWrite};
use plonky2::plonk::circuit_builder::CircuitBuilder;
use plonky2::plonk::circuit_data::{CircuitConfig, CircuitData};
use std::sync::Arc;

use crate::dump::C;
use crate::util::*;

const D: usize = 2;

#[derive(Clone, Debug)]
pub enum Op {
    Input(u64),
    Const(u64),
    Add(usize, usize),
    Sub(usize, usize),
    Mul(usize, usize),
    MulAdd(usize, usize, usize),
    Arith(u64, u64, usize, usize, usize), // c0*x*y + c1*z
    Neg(usize),
    Div(usize, usize),       // divisor value must be non-zero
    IsEqual(usize, usize),   // 0/1
    Select(usize, usize, usize), // cond var must be 0/1
    Not(usize),
    And(usize, usize),
    Or(usize, usize),
    SplitSum(usize, usize),  // split_le(x, n) then le_sum == x (x < 2^n)
    RangeCheck(usize, usize),
    RandomAccess(usize, Vec<usize>), // index var value < len (len power of two)
    ExpU64(usize, u64),
    ExpBits(usize, usize, usize), // base, exponent var (value < 2^n), n bits
    Hash(Vec<usize>),        // first element of the digest
    Lookup(usize, usize),    // table index, input var whose value is a table input
    ExtMulNorm(usize, usize), // (a + bX)^2 first coordinate via extension arithmetic
    SplitBase4(usize, usize), // split_le_base::<4>(x, limbs), returns limb 0
    Public(usize),
    /// `connect(a, b)`: satisfiable iff the two values are equal; returns a
    Connect(usize, usize),
    // ---- added for C17 (gadget / generator coverage of the serializers); only generated when
    // feature bit 4 (value 16) is set, so existing seeds are unaffected
    ExtArith(u64, u64, [usize; 6], usize), // c0*A*B + c1*D on extension elements (x_i + x_j X), coordinate k
    DivExt([usize; 4], usize),             // (x0 + x1 X) / (x2 + x3 X), coordinate k; divisor non-zero
    ReduceBase([usize; 2], Vec<usize>, usize), // sum_i t_i * alpha^i via ReducingFactorTarget::reduce_base
    ReduceExt([usize; 2], Vec<[usize; 2]>, usize), // the same over extension terms (ReducingExtensionGate)
    CopyGen(usize),                        // generate_copy into a fresh virtual target
    LowHigh(usize, usize, usize),          // split_low_high(x, n_log, num_bits) -> low
    SplitBase2(usize, usize),              // split_le_base::<2>(x, limbs)[0]
    ExpConstBase(u64, usize, usize),       // exp_from_bits_const_base(base, bits of x (n bits))
}

#[derive(Clone, Debug)]
pub struct Prog {
    pub ops: Vec<Op>,
    pub tables: Vec<Vec<(u16, u16)>>,
    /// build the twin circuit that omits every `connect` (same gates and rows, coarser partition)
    pub skip_connect: bool,
}

fn f(x: u64) -> F {
    F::from_canonical_u64(x)
}
type FE = plonky2::field::extension::quadratic::QuadraticExtension<F>;
fn fe(a: F, b: F) -> FE {
    plonky2::field::extension::quadratic::QuadraticExtension([a, b])
}

impl Prog {
    /// Direct evaluation over the field: value of every variable and the public inputs.
    pub fn eval(&self) -> (Vec<F>, Vec<F>) {
        let mut v: Vec<F> = vec![];
        let mut pis = vec![];
        for op in &self.ops {
            let val = match op {
                Op::Input(x) | Op::Const(x) => f(*x),
                Op::Add(a, b) => v[*a] + v[*b],
                Op::Sub(a, b) => v[*a] - v[*b],
                Op::Mul(a, b) => v[*a] * v[*b],
                Op::MulAdd(a, b, c) => v[*a] * v[*b] + v[*c],
                Op::Arith(c0, c1, x, y, z) => f(*c0) * v[*x] * v[*y] + f(*c1) * v[*z],
                Op::Neg(a) => -v[*a],
                Op::Div(a, b) => v[*a] / v[*b],
                Op::IsEqual(a, b) => F::from_bool(v[*a] == v[*b]),
                Op::Select(c, x, y) => if v[*c] == F::ONE { v[*x] } else { v[*y] },
                Op::Not(a) => F::ONE - v[*a],
                Op::And(a, b) => v[*a] * v[*b],
                Op::Or(a, b) => v[*a] + v[*b] - v[*a] * v[*b],
                Op::SplitSum(a, _) => v[*a],
                Op::RangeCheck(a, _) => v[*a],
                Op::RandomAccess(i, vs) => v[vs[v[*i].to_canonical_u64() as usize]],
                Op::ExpU64(a, e) => v[*a].exp_u64(*e),
                Op::ExpBits(a, e, _) => v[*a].exp_u64(v[*e].to_canonical_u64()),
                Op::Hash(xs) => {
                    let inp: Vec<F> = xs.iter().map(|i| v[*i]).collect();
                    hash_n_to_hash_no_pad::<F, PoseidonPermutation<F>>(&inp).elements[0]
                }
                Op::Lookup(t, a) => {
                    let x = v[*a].to_canonical_u64() as u16;
                    f(self.tables[*t].iter().find(|p| p.0 == x).expect("lookup input in table").1 as u64)
                }
                Op::ExtMulNorm(a, b) => v[*a] * v[*a] + f(7) * v[*b] * v[*b],
                Op::SplitBase4(a, _) => f(v[*a].to_canonical_u64() % 4),
                Op::Public(a) => {
                    pis.push(v[*a]);
                    v[*a]
                }
                Op::Connect(a, _) => v[*a],
                Op::ExtArith(c0, c1, x, k) => {
                    let (a, bb, d) = (fe(v[x[0]], v[x[1]]), fe(v[x[2]], v[x[3]]), fe(v[x[4]], v[x[5]]));
                    (a * bb * fe(f(*c0), F::ZERO) + d * fe(f(*c1), F::ZERO)).0[*k]
                }
                Op::DivExt(x, k) => (fe(v[x[0]], v[x[1]]) / fe(v[x[2]], v[x[3]])).0[*k],
                Op::ReduceBase(al, ts, k) => {
                    let alpha = fe(v[al[0]], v[al[1]]);
                    ts.iter().rev().fold(FE::ZERO, |acc, t| acc * alpha + fe(v[*t], F::ZERO)).0[*k]
                }
                Op::ReduceExt(al, ts, k) => {
                    let alpha = fe(v[al[0]], v[al[1]]);
                    ts.iter().rev().fold(FE::ZERO, |acc, t| acc * alpha + fe(v[t[0]], v[t[1]])).0[*k]
                }
                Op::CopyGen(a) => v[*a],
                Op::LowHigh(a, n_log, _) => f(v[*a].to_canonical_u64() & ((1u64 << n_log) - 1)),
                Op::SplitBase2(a, _) => f(v[*a].to_canonical_u64() & 1),
                Op::ExpConstBase(base, e, _) => f(*base).exp_u64(v[*e].to_canonical_u64()),
            };
            v.push(val);
        }
        (v, pis)
    }

    /// Build the circuit and the witness assignment of its inputs.
    pub fn build(&self, config: CircuitConfig) -> (CircuitData<F, C, D>, PartialWitness<F>) {
        let (d, pw, _) = self.build_with_targets(config);
        (d, pw)
    }

    /// like `build`, also returning the target of every program variable
    pub fn build_with_targets(&self, config: CircuitConfig) -> (CircuitData<F, C, D>, PartialWitness<F>, Vec<Target>) {
        let mut b = CircuitBuilder::<F, D>::new(config);
        let mut pw = PartialWitness::new();
        let mut t: Vec<Target> = vec![];
        let tabs: Vec<usize> = self.tables.iter().map(|tb| b.add_lookup_table_from_pairs(Arc::new(tb.clone()))).collect();
        for op in &self.ops {
            let bt = |x: Target| BoolTarget::new_unsafe(x);
            let tg = match op {
                Op::Input(x) => {
                    let v = b.add_virtual_target();
                    pw.set_target(v, f(*x)).unwrap();
                    v
                }
                Op::Const(x) => b.constant(f(*x)),
                Op::Add(x, y) => b.add(t[*x], t[*y]),
                Op::Sub(x, y) => b.sub(t[*x], t[*y]),
                Op::Mul(x, y) => b.mul(t[*x], t[*y]),
                Op::MulAdd(x, y, z) => b.mul_add(t[*x], t[*y], t[*z]),
                Op::Arith(c0, c1, x, y, z) => b.arithmetic(f(*c0), f(*c1), t[*x], t[*y], t[*z]),
                Op::Neg(x) => b.neg(t[*x]),
                Op::Div(x, y) => b.div(t[*x], t[*y]),
                Op::IsEqual(x, y) => b.is_equal(t[*x], t[*y]).target,
                Op::Select(c, x, y) => {
                    b.assert_bool(bt(t[*c]));
                    b.select(bt(t[*c]), t[*x], t[*y])
                }
                Op::Not(x) => b.not(bt(t[*x])).target,
                Op::And(x, y) => b.and(bt(t[*x]), bt(t[*y])).target,
                Op::Or(x, y) => b.or(bt(t[*x]), bt(t[*y])).target,
                Op::SplitSum(x, n) => {
                    let bits = b.split_le(t[*x], *n);
                    b.le_sum(bits.iter())
                }
                Op::RangeCheck(x, n) => {
                    b.range_check(t[*x], *n);
                    t[*x]
                }
                Op::RandomAccess(i, vs) => b.random_access(t[*i], vs.iter().map(|j| t[*j]).collect()),
                Op::ExpU64(x, e) => b.exp_u64(t[*x], *e),
                Op::ExpBits(x, e, n) => b.exp(t[*x], t[*e], *n),
                Op::Hash(xs) => {
                    let h: HashOutTarget = b.hash_n_to_hash_no_pad::<PoseidonHash>(xs.iter().map(|j| t[*j]).collect());
                    h.elements[0]
                }
                Op::Lookup(tb, x) => b.add_lookup_from_index(t[*x], tabs[*tb]),
                Op::ExtMulNorm(x, y) => {
                    let e = plonky2::iop::ext_target::ExtensionTarget::<D>([t[*x], t[*y]]);
                    b.mul_extension(e, e).0[0]
                }
                Op::SplitBase4(x, l) => b.split_le_base::<4>(t[*x], *l)[0],
                Op::Public(x) => {
                    b.register_public_input(t[*x]);
                    t[*x]
                }
                Op::Connect(x, y) => {
                    if !self.skip_connect { b.connect(t[*x], t[*y]); }
                    t[*x]
                }
                Op::ExtArith(c0, c1, x, k) => {
                    let et = |i: usize, j: usize| plonky2::iop::ext_target::ExtensionTarget::<D>([t[x[i]], t[x[j]]]);
                    b.arithmetic_extension(f(*c0), f(*c1), et(0, 1), et(2, 3), et(4, 5)).0[*k]
                }
                Op::DivExt(x, k) => {
                    let et = |i: usize, j: usize| plonky2::iop::ext_target::ExtensionTarget::<D>([t[x[i]], t[x[j]]]);
                    b.div_extension(et(0, 1), et(2, 3)).0[*k]
                }
                Op::ReduceBase(al, ts, k) => {
                    let alpha = plonky2::iop::ext_target::ExtensionTarget::<D>([t[al[0]], t[al[1]]]);
                    let terms: Vec<Target> = ts.iter().map(|i| t[*i]).collect();
                    plonky2::util::reducing::ReducingFactorTarget::new(alpha).reduce_base(&terms, &mut b).0[*k]
                }
                Op::ReduceExt(al, ts, k) => {
                    let alpha = plonky2::iop::ext_target::ExtensionTarget::<D>([t[al[0]], t[al[1]]]);
                    let terms: Vec<_> = ts.iter().map(|i| plonky2::iop::ext_target::ExtensionTarget::<D>([t[i[0]], t[i[1]]])).collect();
                    plonky2::util::reducing::ReducingFactorTarget::new(alpha).reduce(&terms, &mut b).0[*k]
                }
                Op::CopyGen(x) => {
                    let v = b.add_virtual_target();
                    b.generate_copy(t[*x], v);
                    v
                }
                Op::LowHigh(x, n_log, num_bits) => b.split_low_high(t[*x], *n_log, *num_bits).0,
                Op::SplitBase2(x, l) => b.split_le_base::<2>(t[*x], *l)[0],
                Op::ExpConstBase(base, e, n) => {
                    let bits = b.split_le(t[*e], *n);
                    b.exp_from_bits_const_base(f(*base), bits.iter())
                }
            };
            t.push(tg);
        }
        (b.build::<C>(), pw, t)
    }
}

impl Prog {
    /// flat encoding for the Lean `evalProg` (see lean/P2/Drv/C01.lean)
    pub fn encode(&self) -> Vec<u64> {
        let mut t: Vec<u64> = vec![self.tables.len() as u64];
        for tb in &self.tables {
            t.push(tb.len() as u64);
            for &(a, b) in tb { t.push(a as u64); t.push(b as u64); }
        }
        t.push(self.ops.len() as u64);
        let u = |x: &usize| *x as u64;
        for op in &self.ops {
            match op {
                Op::Input(v) => t.extend([0, *v]),
                Op::Const(v) => t.extend([1, *v]),
                Op::Add(a, b) => t.extend([2, u(a), u(b)]),
                Op::Sub(a, b) => t.extend([3, u(a), u(b)]),
                Op::Mul(a, b) => t.extend([4, u(a), u(b)]),
                Op::MulAdd(a, b, c) => t.extend([5, u(a), u(b), u(c)]),
                Op::Arith(c0, c1, x, y, z) => t.extend([6, *c0, *c1, u(x), u(y), u(z)]),
                Op::Neg(a) => t.extend([7, u(a)]),
                Op::Div(a, b) => t.extend([8, u(a), u(b)]),
                Op::IsEqual(a, b) => t.extend([9, u(a), u(b)]),
                Op::Select(c, x, y) => t.extend([10, u(c), u(x), u(y)]),
                Op::Not(a) => t.extend([11, u(a)]),
                Op::And(a, b) => t.extend([12, u(a), u(b)]),
                Op::Or(a, b) => t.extend([13, u(a), u(b)]),
                Op::SplitSum(a, n) => t.extend([14, u(a), u(n)]),
                Op::RangeCheck(a, n) => t.extend([15, u(a), u(n)]),
                Op::RandomAccess(i, vs) => { t.extend([16, u(i), vs.len() as u64]); t.extend(vs.iter().map(u)); }
                Op::ExpU64(a, e) => t.extend([17, u(a), *e]),
                Op::ExpBits(a, e, n) => t.extend([18, u(a), u(e), u(n)]),
                Op::Hash(xs) => { t.extend([19, xs.len() as u64]); t.extend(xs.iter().map(u)); }
                Op::Lookup(tb, a) => t.extend([20, u(tb), u(a)]),
                Op::ExtMulNorm(a, b) => t.extend([21, u(a), u(b)]),
                Op::SplitBase4(a, l) => t.extend([22, u(a), u(l)]),
                Op::Public(a) => t.extend([23, u(a)]),
                Op::Connect(a, b) => t.extend([24, u(a), u(b)]),
                // the C17-only gadget ops have no counterpart in the Lean evalProg yet (never generated
                // for the properties that use this encoding: feature bit 16)
                _ => t.extend([99]),
            }
        }
        t
    }
}

/// program variables an operation reads
pub fn uses(op: &Op) -> Vec<usize> {
    match op {
        Op::Input(_) | Op::Const(_) => vec![],
        Op::Add(a, b) | Op::Sub(a, b) | Op::Mul(a, b) | Op::Div(a, b) | Op::IsEqual(a, b) | Op::And(a, b) | Op::Or(a, b)
        | Op::ExtMulNorm(a, b) | Op::Connect(a, b) => vec![*a, *b],
        Op::MulAdd(a, b, c) | Op::Select(a, b, c) => vec![*a, *b, *c],
        Op::Arith(_, _, x, y, z) => vec![*x, *y, *z],
        Op::Neg(a) | Op::Not(a) | Op::SplitSum(a, _) | Op::RangeCheck(a, _) | Op::ExpU64(a, _) | Op::SplitBase4(a, _)
        | Op::Public(a) | Op::Lookup(_, a) | Op::CopyGen(a) | Op::LowHigh(a, _, _) | Op::SplitBase2(a, _) => vec![*a],
        Op::ExpBits(a, e, _) => vec![*a, *e],
        Op::ExpConstBase(_, e, _) => vec![*e],
        Op::RandomAccess(i, vs) => { let mut v = vec![*i]; v.extend(vs); v }
        Op::Hash(xs) => xs.clone(),
        Op::ExtArith(_, _, x, _) => x.to_vec(),
        Op::DivExt(x, _) => x.to_vec(),
        Op::ReduceBase(al, ts, _) => { let mut v = al.to_vec(); v.extend(ts); v }
        Op::ReduceExt(al, ts, _) => { let mut v = al.to_vec(); for t in ts { v.extend(t); } v }
    }
}

/// A random, satisfiable program. `features`: bit 0 lookups, bit 1 hashing, bit 2 random access/exp,
/// bit 3 base-4 splits, bit 4 the C17 gadget mix (extension arithmetic/division, reducing gates, copies, …).
pub fn gen_prog(r: &mut Rng, n_ops: usize, features: u64) -> Prog {
    let mut ops: Vec<Op> = vec![];
    let mut vals: Vec<F> = vec![];
    let mut tables: Vec<Vec<(u16, u16)>> = vec![];
    if features & 1 != 0 {
        let nt = r.range(1, 3) as usize;
        for _ in 0..nt {
            let len = *r.pick(&[1u64, 2, 5, 26, 27, 40, 60]) as usize;
            let mut tb: Vec<(u16, u16)> = vec![];
            while tb.len() < len {
                let i = r.below(1 << 16) as u16;
                if tb.iter().all(|p| p.0 != i) {
                    tb.push((i, if r.below(4) == 0 { 7 } else { r.below(1 << 16) as u16 }));
                }
            }
            tables.push(tb);
        }
    }
    let boundary = [0u64, 1, 2, P - 1, P - 2, 1 << 32, (1 << 32) - 1, (1 << 63), 255, 256];
    // seeds
    for _ in 0..3 {
        ops.push(Op::Input(if r.coin() { *r.pick(&boundary) } else { r.below(P) }));
    }
    ops.push(Op::Const(*r.pick(&boundary)));
    let prog0 = Prog { ops: ops.clone(), tables: tables.clone(), skip_connect: false };
    vals = prog0.eval().0;
    let mut npub = 0;
    while ops.len() < n_ops {
        let n = ops.len();
        let any = |r: &mut Rng| r.below(n as u64) as usize;
        let bools: Vec<usize> = (0..n).filter(|&i| vals[i] == F::ZERO || vals[i] == F::ONE).collect();
        let small = |bits: usize| -> Vec<usize> { (0..n).filter(|&i| vals[i].to_canonical_u64() < (1u64 << bits)).collect() };
        if features & 16 != 0 && r.below(3) == 0 {
            // C17 gadget mix (no draw from the stream unless the feature bit is set)
            let k = r.below(2) as usize;
            let mut six = [0usize; 6];
            for s in six.iter_mut() { *s = any(r); }
            let op = match r.below(9) {
                0 => Op::ExtArith(*r.pick(&[0u64, 1, 2, P - 1, 12345]), *r.pick(&[0u64, 1, P - 1, 77]), six, k),
                1 => {
                    let x = [six[0], six[1], six[2], six[3]];
                    if vals[x[2]] == F::ZERO && vals[x[3]] == F::ZERO { continue; }
                    Op::DivExt(x, k)
                }
                // short reductions go through arithmetic gates, long ones through Reducing(Extension)Gate
                2 => Op::ReduceBase([six[0], six[1]], (0..*r.pick(&[1usize, 5, 12, 13, 40, 70, 140])).map(|_| any(r)).collect(), k),
                3 => Op::ReduceExt([six[0], six[1]], (0..*r.pick(&[1usize, 5, 12, 13, 33, 70])).map(|_| [any(r), any(r)]).collect(), k),
                4 => Op::CopyGen(any(r)),
                5 => {
                    let num_bits = *r.pick(&[8usize, 16, 32, 40, 63]);
                    let s = small(num_bits);
                    if s.is_empty() { continue; }
                    Op::LowHigh(*r.pick(&s), r.range(1, num_bits as u64 - 1) as usize, num_bits)
                }
                6 => {
                    let limbs = *r.pick(&[1usize, 4, 16, 33, 63]);
                    let s = small(limbs);
                    if s.is_empty() { continue; }
                    Op::SplitBase2(*r.pick(&s), limbs)
                }
                7 => {
                    // few bits: arithmetic gates; many bits: ExponentiationGate
                    let nb = *r.pick(&[1usize, 3, 10, 21, 30, 63]);
                    let s = small(nb);
                    if s.is_empty() { continue; }
                    Op::ExpConstBase(if r.coin() { *r.pick(&boundary) } else { r.below(P) }, *r.pick(&s), nb)
                }
                _ => {
                    // random access over 32 and 64 items (the generic arm stops at 16)
                    let lb = r.range(5, 6) as usize;
                    let s = small(lb);
                    if s.is_empty() { continue; }
                    Op::RandomAccess(*r.pick(&s), (0..1 << lb).map(|_| any(r)).collect())
                }
            };
            ops.push(op);
            let p = Prog { ops: ops.clone(), tables: tables.clone(), skip_connect: false };
            vals = p.eval().0;
            continue;
        }
        let op = match r.below(26) {
            0 => Op::Input(if r.below(3) == 0 { *r.pick(&boundary) } else { r.below(P) }),
            1 => Op::Const(if r.coin() { *r.pick(&boundary) } else { r.below(P) }),
            2 | 3 => Op::Add(any(r), any(r)),
            4 => Op::Sub(any(r), any(r)),
            5 | 6 => Op::Mul(any(r), any(r)),
            7 => Op::MulAdd(any(r), any(r), any(r)),
            8 => Op::Arith(*r.pick(&[0u64, 1, 2, P - 1, 12345]), *r.pick(&[0u64, 1, P - 1, 77]), any(r), any(r), any(r)),
            9 => Op::Neg(any(r)),
            10 => {
                let nz: Vec<usize> = (0..n).filter(|&i| vals[i] != F::ZERO).collect();
                if nz.is_empty() { continue; }
                Op::Div(any(r), *r.pick(&nz))
            }
            11 => { let a = any(r); if r.coin() { Op::IsEqual(a, a) } else { Op::IsEqual(a, any(r)) } }
            12 => { if bools.is_empty() { continue; } Op::Select(*r.pick(&bools), any(r), any(r)) }
            13 => { if bools.is_empty() { continue; } Op::Not(*r.pick(&bools)) }
            14 => { if bools.is_empty() { continue; } if r.coin() { Op::And(*r.pick(&bools), *r.pick(&bools)) } else { Op::Or(*r.pick(&bools), *r.pick(&bools)) } }
            15 => {
                let bits = *r.pick(&[1usize, 8, 16, 32, 33, 63]);
                let s = small(bits);
                if s.is_empty() { continue; }
                if r.coin() { Op::SplitSum(*r.pick(&s), bits) } else { Op::RangeCheck(*r.pick(&s), bits) }
            }
            16 if features & 4 != 0 => {
                let lb = r.range(1, 4) as usize;
                let s = small(lb);
                if s.is_empty() { continue; }
                Op::RandomAccess(*r.pick(&s), (0..1 << lb).map(|_| any(r)).collect())
            }
            17 if features & 4 != 0 => Op::ExpU64(any(r), *r.pick(&[0u64, 1, 2, 3, 7, 64, 65537])),
            18 if features & 4 != 0 => {
                let nb = r.range(1, 10) as usize;
                let s = small(nb);
                if s.is_empty() { continue; }
                Op::ExpBits(any(r), *r.pick(&s), nb)
            }
            19 if features & 2 != 0 => Op::Hash((0..r.range(1, 13) as usize).map(|_| any(r)).collect()),
            20 | 21 if features & 1 != 0 && !tables.is_empty() => {
                // a variable holding a table input: make one
                let tb = r.below(tables.len() as u64) as usize;
                let ent = *r.pick(&tables[tb]);
                ops.push(Op::Input(ent.0 as u64));
                vals.push(f(ent.0 as u64));
                Op::Lookup(tb, ops.len() - 1)
            }
            22 => Op::ExtMulNorm(any(r), any(r)),
            23 if features & 8 != 0 => {
                let s = small(16);
                if s.is_empty() { continue; }
                Op::SplitBase4(*r.pick(&s), 8)
            }
            24 => { npub += 1; Op::Public(any(r)) }
            25 => {
                // two inputs with the same value, connected; both published
                let v = if r.coin() { *r.pick(&boundary) } else { r.below(P) };
                ops.push(Op::Input(v));
                // the partner is another input or a circuit constant (`x == 7`)
                if r.coin() { ops.push(Op::Input(v)); } else { ops.push(Op::Const(v)); }
                let n2 = ops.len();
                ops.push(Op::Connect(n2 - 2, n2 - 1));
                ops.push(Op::Public(n2 - 2));
                npub += 1;
                Op::Public(n2 - 1)
            }
            _ => continue,
        };
        ops.push(op);
        let p = Prog { ops: ops.clone(), tables: tables.clone(), skip_connect: false };
        vals = p.eval().0;
    }
    // the builder refuses a declared table that is never used ("LUT number _ is unused")
    for tb in 0..tables.len() {
        if !ops.iter().any(|o| matches!(o, Op::Lookup(t, _) if *t == tb)) {
            let ent = *r.pick(&tables[tb]);
            ops.push(Op::Input(ent.0 as u64));
            ops.push(Op::Lookup(tb, ops.len() - 1));
            ops.push(Op::Public(ops.len() - 1));
            npub += 1;
        }
    }
    if npub == 0 {
        ops.push(Op::Public(ops.len() - 1));
    }
    Prog { ops, tables, skip_connect: false }
}

/// A random admissible-looking configuration (the caller still guards build/prove with
/// catch_unwind: what the builder rejects loudly is out of scope).
pub fn gen_config(r: &mut Rng, cheap: bool) -> CircuitConfig {
    let mut c = CircuitConfig::standard_recursion_config();
    if cheap {
        // few queries, low security: exact verdict agreement is what is compared, not soundness
        c.security_bits = 8;
        c.fri_config.num_query_rounds = r.range(2, 6) as usize;
        c.fri_config.proof_of_work_bits = r.range(0, 6) as u32;
    }
    match r.below(6) {
        0 => c.zero_knowledge = true,
        1 => c.num_challenges = r.range(1, 3) as usize,
        2 => c.fri_config.cap_height = r.range(0, 3) as usize,
        3 => {
            c.fri_config.reduction_strategy = match r.below(3) {
                0 => FriReductionStrategy::ConstantArityBits(r.range(1, 3) as usize, r.range(1, 4) as usize),
                1 => FriReductionStrategy::MinSize(None),
                _ => FriReductionStrategy::ConstantArityBits(4, 5),
            }
        }
        4 => {
            c.fri_config.rate_bits = 4;
            if !cheap { c.fri_config.num_query_rounds = 21; }
        }
        _ => {}
    }
    c
}

pub fn fri_config_ok(c: &FriConfig) -> bool {
    c.rate_bits >= 3
}

#[allow(dead_code)]
pub fn unused<FF: Extendable<2>>() {}
