//! C12: Merkle trees, proofs and verification (Poseidon hasher) against the Lean model, for all
//! small heights, every cap height, several leaf widths, positions, negative requests, and
//! different rayon pool sizes; plus path compression on index multisets.
use plonky2::field::goldilocks_field::GoldilocksField as F;
use plonky2::field::types::{Field, PrimeField64};
use plonky2::hash::hash_types::HashOut;
use plonky2::hash::merkle_proofs::{verify_merkle_proof_to_cap, MerkleProof};
use plonky2::hash::merkle_tree::{MerkleCap, MerkleTree};
use plonky2::hash::poseidon::PoseidonHash;

use crate::util::*;

type H = PoseidonHash;

fn flat(hs: &[HashOut<F>]) -> String {
    join(hs.iter().flat_map(|h| h.elements.iter().map(|x| x.to_canonical_u64())))
}

fn leaves(r: &mut Rng, n: usize, w: usize) -> Vec<Vec<F>> {
    (0..n)
        .map(|_| (0..w).map(|_| if r.below(10) == 0 { F::from_canonical_u64(r.below(3)) } else { F::from_canonical_u64(r.below(P)) }).collect())
        .collect()
}

fn flat_leaves(ls: &[Vec<F>]) -> String {
    join(ls.iter().flat_map(|l| l.iter().map(|x| x.to_canonical_u64())))
}

fn verdict(res: anyhow::Result<()>) -> String {
    match res {
        Ok(()) => "OK".into(),
        Err(_) => "ERR".into(),
    }
}

fn verify_req(leaf: &[F], idx: usize, cap: &MerkleCap<F, H>, proof: &MerkleProof<F, H>) -> String {
    format!(
        "c12 verify {} {} {} {} {} {} {}",
        leaf.len(),
        join(leaf.iter().map(|x| x.to_canonical_u64())),
        idx,
        cap.0.len(),
        flat(&cap.0),
        proof.siblings.len(),
        flat(&proof.siblings)
    )
}

pub fn emit(e: &mut Emitter, seed: u64, thorough: bool) {
    let mut r = Rng::new(seed ^ 0x12);
    let kmax = if thorough { 9 } else { 6 };
    let widths: &[usize] = if thorough { &[1, 2, 3, 4, 5, 8, 9, 16, 135] } else { &[1, 3, 4, 5, 9] };
    let threads = [1usize, 2, 16];
    let mut tcount = 0;
    for k in 0..=kmax {
        for cap_h in 0..=k {
            for &w in widths {
                if w == 135 && k > 5 {
                    continue;
                }
                let n = 1usize << k;
                let ls = leaves(&mut r, n, w);
                let nt = threads[tcount % 3];
                tcount += 1;
                let pool = rayon::ThreadPoolBuilder::new().num_threads(nt).build().unwrap();
                let tree = pool.install(|| MerkleTree::<F, H>::new(ls.clone(), cap_h));
                e.count(&format!("threads={nt}"));
                let head = format!("{k} {cap_h} {w}");
                // positions: all for small trees, sampled otherwise
                let positions: Vec<usize> = if n <= 8 { (0..n).collect() } else {
                    vec![0, n - 1, n / 2, n / 2 - 1, r.below(n as u64) as usize, r.below(n as u64) as usize]
                };
                let t2 = tree.clone();
                let pos2 = positions.clone();
                e.case("tree+proofs", format!("c12 tree {head} {} {} {}", positions.len(), join(positions.iter()), flat_leaves(&ls)), || {
                    let proofs: Vec<String> = pos2.iter().map(|&i| flat(&t2.prove(i).siblings)).collect();
                    format!("{} | {} | {}", flat(&t2.cap.0), flat(&t2.digests), proofs.join(" ; "))
                });
                for &i in &positions {
                    let proof = tree.prove(i);
                    // honest verification
                    e.case("verify-honest", verify_req(&ls[i], i, &tree.cap, &proof), || {
                        verdict(verify_merkle_proof_to_cap(ls[i].clone(), i, &tree.cap, &proof))
                    });
                    // negative requests
                    if n > 1 {
                        let j = (i + 1 + r.below(n as u64 - 1) as usize) % n;
                        e.case("verify-wrong-position", verify_req(&ls[i], j, &tree.cap, &proof), || {
                            verdict(verify_merkle_proof_to_cap(ls[i].clone(), j, &tree.cap, &proof))
                        });
                        if ls[j] != ls[i] {
                            e.case("verify-wrong-leaf", verify_req(&ls[j], i, &tree.cap, &proof), || {
                                verdict(verify_merkle_proof_to_cap(ls[j].clone(), i, &tree.cap, &proof))
                            });
                        }
                    }
                    let mut leaf2 = ls[i].clone();
                    let c = r.below(w as u64) as usize;
                    leaf2[c] += F::ONE;
                    e.case("verify-edited-leaf", verify_req(&leaf2, i, &tree.cap, &proof), || {
                        verdict(verify_merkle_proof_to_cap(leaf2.clone(), i, &tree.cap, &proof))
                    });
                    if !proof.siblings.is_empty() {
                        let mut p3 = proof.clone();
                        let s = r.below(p3.siblings.len() as u64) as usize;
                        p3.siblings[s].elements[r.below(4) as usize] += F::ONE;
                        e.case("verify-edited-sibling", verify_req(&ls[i], i, &tree.cap, &p3), || {
                            verdict(verify_merkle_proof_to_cap(ls[i].clone(), i, &tree.cap, &p3))
                        });
                        let mut p4 = proof.clone();
                        p4.siblings.pop();
                        // a shorter proof lands on a cap index out of range unless the cap is large enough
                        e.case("verify-short-proof", verify_req(&ls[i], i, &tree.cap, &p4), || {
                            verdict(verify_merkle_proof_to_cap(ls[i].clone(), i, &tree.cap, &p4))
                        });
                    }
                    let mut cap2 = tree.cap.clone();
                    let ci = i >> (k - cap_h);
                    cap2.0[ci].elements[r.below(4) as usize] += F::ONE;
                    e.case("verify-edited-cap", verify_req(&ls[i], i, &cap2, &proof), || {
                        verdict(verify_merkle_proof_to_cap(ls[i].clone(), i, &cap2, &proof))
                    });
                    let mut p5 = proof.clone();
                    p5.siblings.push(HashOut { elements: [F::ZERO; 4] });
                    e.case("verify-long-proof", verify_req(&ls[i], i, &tree.cap, &p5), || {
                        verdict(verify_merkle_proof_to_cap(ls[i].clone(), i, &tree.cap, &p5))
                    });
                }
            }
        }
    }
    // Keccak hasher (src/c12k.rs) and batch Merkle trees (src/c12b.rs)
    crate::c12k::emit(e, seed, thorough);
    crate::c12b::emit(e, seed, thorough);
}
