//! C20: conditional and cyclic recursion.
//!  (a) `conditionally_verify_proof(b, p0, vd0, p1, vd1)`: outer accepts iff the SELECTED proof is
//!      valid for the SELECTED verifier data, for both condition values × validity of each branch;
//!  (b) dummy proofs of `dummy_circuit(common)` verify natively;
//!  (c) cyclic chains (both base cases, lengths 1..k): every proof verifies, carries the circuit's
//!      verifier data, `check_cyclic_proof_verifier_data` accepts it and rejects any single-element
//!      alteration of the embedded data.
use hashbrown::HashMap;
use plonky2::field::types::{Field, PrimeField64};
use plonky2::gates::noop::NoopGate;
use plonky2::hash::hash_types::HashOutTarget;
use plonky2::hash::hashing::hash_n_to_hash_no_pad;
use plonky2::hash::poseidon::{PoseidonHash, PoseidonPermutation};
use plonky2::iop::witness::{PartialWitness, WitnessWrite};
use plonky2::plonk::circuit_builder::CircuitBuilder;
use plonky2::plonk::circuit_data::{CircuitConfig, CircuitData, CommonCircuitData};
use plonky2::plonk::proof::ProofWithPublicInputs;
use plonky2::recursion::cyclic_recursion::check_cyclic_proof_verifier_data;
use plonky2::recursion::dummy_circuit::{cyclic_base_proof, dummy_circuit, dummy_proof};

use crate::c03::verdict;
use crate::c04::request;
use crate::dump::*;
use crate::progs::*;
use crate::util::*;

type Pwpi = ProofWithPublicInputs<F, C, 2>;

fn tamper(r: &mut Rng, p: &Pwpi) -> Pwpi {
    let mut q = p.clone();
    match r.below(4) {
        0 => { let k = r.below(q.proof.openings.wires.len() as u64) as usize; q.proof.openings.wires[k] += FE::ONE; }
        1 => { q.proof.opening_proof.pow_witness += F::ONE; }
        2 => { let k = r.below(q.proof.opening_proof.final_poly.coeffs.len() as u64) as usize; q.proof.opening_proof.final_poly.coeffs[k] += FE::ONE; }
        _ => { q.proof.wires_cap.0[0].elements[1] += F::ONE; }
    }
    q
}

fn conditional(e: &mut Emitter, r: &mut Rng, thorough: bool) {
    let n = if thorough { 4 } else { 2 };
    let mut made = 0;
    let mut tries = 0;
    while made < n && tries < 6 * n {
        tries += 1;
        // two different circuits with the SAME common data: same program shape, different constant
        let nops = r.range(8, 40) as usize;
        // every second inner circuit uses lookup tables (the opening set then has lookup_zs / next_lookup_zs)
        let feat = if made % 2 == 0 { r.clone().below(4) | 1 } else { r.clone().below(4) & !1 };
        let mut prog0 = gen_prog(r, nops, feat);
        prog0.ops.push(Op::Const(11));
        let mut prog1 = prog0.clone();
        *prog1.ops.last_mut().unwrap() = Op::Const(12);
        for p in [&mut prog0, &mut prog1] { let k = p.ops.len() - 1; p.ops.push(Op::Mul(k, k)); let k2 = p.ops.len() - 1; p.ops.push(Op::Public(k2)); }
        let mut config = CircuitConfig::standard_recursion_config();
        config.security_bits = 8; config.fri_config.num_query_rounds = 2; config.fri_config.proof_of_work_bits = 3;
        e.stage("building+proving two inner circuits with identical common data");
        let b = std::panic::catch_unwind(std::panic::AssertUnwindSafe(|| {
            let (d0, w0) = prog0.build(config.clone());
            let (d1, w1) = prog1.build(config.clone());
            let p0 = d0.prove(w0).unwrap();
            let p1 = d1.prove(w1).unwrap();
            (d0, p0, d1, p1)
        }));
        let Ok((d0, p0, d1, p1)) = b else { continue };
        if d0.common != d1.common { e.count("conditional: common data differ, skipped"); continue; }
        made += 1;
        e.stage("building the conditional outer circuit");
        let mut bld = CircuitBuilder::<F, 2>::new(CircuitConfig::standard_recursion_config());
        let cond = bld.add_virtual_bool_target_safe();
        let pt0 = bld.add_virtual_proof_with_pis(&d0.common);
        let pt1 = bld.add_virtual_proof_with_pis(&d0.common);
        let vt0 = bld.add_virtual_verifier_data(d0.common.config.fri_config.cap_height);
        let vt1 = bld.add_virtual_verifier_data(d0.common.config.fri_config.cap_height);
        bld.conditionally_verify_proof::<C>(cond, &pt0, &vt0, &pt1, &vt1, &d0.common);
        let outer = bld.build::<C>();
        // validity of each branch: valid | tampered | valid proof under the OTHER circuit's verifier data
        for cond_v in [true, false] {
            for (k0, k1) in [(0, 0), (0, 1), (1, 0), (1, 1), (0, 2), (2, 0), (2, 2), (1, 2), (2, 1)] {
                let mk = |kind: usize, p: &Pwpi, own: &CircuitData<F, C, 2>, other: &CircuitData<F, C, 2>, r: &mut Rng| -> (Pwpi, plonky2::plonk::circuit_data::VerifierOnlyCircuitData<C, 2>) {
                    match kind { 0 => (p.clone(), own.verifier_only.clone()), 1 => (tamper(r, p), own.verifier_only.clone()), _ => (p.clone(), other.verifier_only.clone()) }
                };
                let (q0, v0) = mk(k0, &p0, &d0, &d1, r);
                let (q1, v1) = mk(k1, &p1, &d1, &d0, r);
                // native verdict of the SELECTED (proof, verifier data)
                let (qs, vs) = if cond_v { (&q0, &v0) } else { (&q1, &v1) };
                let sel = plonky2::plonk::circuit_data::VerifierCircuitData { verifier_only: vs.clone(), common: d0.common.clone() };
                let native = match std::panic::catch_unwind(std::panic::AssertUnwindSafe(|| sel.verify(qs.clone()))) {
                    Ok(res) => plonk_verdict(res),
                    Err(_) => "PANIC".into(),
                };
                e.stage(&format!("impl: conditional outer circuit, condition {cond_v}, branch kinds ({k0},{k1})"));
                let res = std::panic::catch_unwind(std::panic::AssertUnwindSafe(|| -> anyhow::Result<()> {
                    let mut pw = PartialWitness::new();
                    pw.set_bool_target(cond, cond_v)?;
                    pw.set_proof_with_pis_target(&pt0, &q0)?;
                    pw.set_proof_with_pis_target(&pt1, &q1)?;
                    pw.set_verifier_data_target(&vt0, &v0)?;
                    pw.set_verifier_data_target(&vt1, &v1)?;
                    let pr = outer.prove(pw)?;
                    outer.verify(pr)
                }));
                let outer_ok = matches!(res, Ok(Ok(())));
                e.count(&format!("conditional: cond={cond_v} kinds=({k0},{k1}) selected-native={} outer={}", native == "ACCEPT", outer_ok));
                if outer_ok != (native == "ACCEPT") {
                    e.oracle_failures.push(format!("conditional verification: condition {cond_v}, branch kinds ({k0},{k1}) [0 valid, 1 tampered, 2 foreign vd]: selected branch natively {native} but outer circuit {}", if outer_ok { "ACCEPTS" } else { "REJECTS" }));
                }
                let nv = native.clone();
                e.case("selected inner verdict (native = Lean)", crate::c04::request_parts("c20 verify", &sel.common, &sel.verifier_only, qs), || nv.clone());
            }
        }
    }
}

fn dummies(e: &mut Emitter, r: &mut Rng, thorough: bool) {
    for _ in 0..(if thorough { 6 } else { 2 }) {
        let nops = r.range(5, 80) as usize;
        let prog = gen_prog(r, nops, r.clone().below(4) & 2);
        let mut config = CircuitConfig::standard_recursion_config();
        if r.coin() { config.security_bits = 8; config.fri_config.num_query_rounds = 3; }
        e.stage("building a circuit and its dummy circuit");
        let Ok((data, _)) = std::panic::catch_unwind(std::panic::AssertUnwindSafe(|| prog.build(config.clone()))) else { continue };
        let res = std::panic::catch_unwind(std::panic::AssertUnwindSafe(|| -> anyhow::Result<(CircuitData<F, C, 2>, Pwpi)> {
            let dc = dummy_circuit::<F, C, 2>(&data.common);
            let mut nz = HashMap::new();
            if data.common.num_public_inputs > 0 { nz.insert(0usize, F::from_canonical_u64(r.below(P))); }
            let dp = dummy_proof::<F, C, 2>(&dc, nz)?;
            Ok((dc, dp))
        }));
        match res {
            Ok(Ok((dc, dp))) => {
                if dc.common != data.common { e.oracle_failures.push(format!("dummy circuit's common data differ from the circuit's (degree_bits {} vs {})", dc.common.degree_bits(), data.common.degree_bits())); }
                let v = verdict(&dc, &dp);
                if v != "ACCEPT" { e.oracle_failures.push(format!("dummy proof is not valid for its dummy circuit: {v}")); }
                e.count("dummy proof verified");
                if data.common.config.security_bits < 50 && dc.common.degree_bits() <= 9 {
                    e.case("dummy proof judged by the Lean verifier", request("c20 verify", &dc, &dp), || v.clone());
                }
            }
            Ok(Err(er)) => e.oracle_failures.push(format!("dummy_proof failed: {er:#}")),
            Err(_) => e.oracle_failures.push("dummy_circuit/dummy_proof panicked".into()),
        }
    }
}

fn common_data_for_recursion() -> CommonCircuitData<F, 2> {
    let config = CircuitConfig::standard_recursion_config();
    let builder = CircuitBuilder::<F, 2>::new(config.clone());
    let data = builder.build::<C>();
    let mut builder = CircuitBuilder::<F, 2>::new(config.clone());
    let proof = builder.add_virtual_proof_with_pis(&data.common);
    let vd = builder.add_virtual_verifier_data(data.common.config.fri_config.cap_height);
    builder.verify_proof::<C>(&proof, &vd, &data.common);
    let data = builder.build::<C>();
    let mut builder = CircuitBuilder::<F, 2>::new(config);
    let proof = builder.add_virtual_proof_with_pis(&data.common);
    let vd = builder.add_virtual_verifier_data(data.common.config.fri_config.cap_height);
    builder.verify_proof::<C>(&proof, &vd, &data.common);
    while builder.num_gates() < 1 << 12 { builder.add_gate(NoopGate, vec![]); }
    builder.build::<C>().common
}

fn cyclic(e: &mut Emitter, r: &mut Rng, thorough: bool) {
    e.stage("building the cyclic hash-chain circuit");
    let res = std::panic::catch_unwind(std::panic::AssertUnwindSafe(|| -> anyhow::Result<()> {
        let mut builder = CircuitBuilder::<F, 2>::new(CircuitConfig::standard_recursion_config());
        let one = builder.one();
        let initial_hash_target = builder.add_virtual_hash();
        builder.register_public_inputs(&initial_hash_target.elements);
        let current_hash_in = builder.add_virtual_hash();
        let current_hash_out = builder.hash_n_to_hash_no_pad::<PoseidonHash>(current_hash_in.elements.to_vec());
        builder.register_public_inputs(&current_hash_out.elements);
        let counter = builder.add_virtual_public_input();
        let mut common_data = common_data_for_recursion();
        let vdt = builder.add_verifier_data_public_inputs();
        common_data.num_public_inputs = builder.num_public_inputs();
        let condition = builder.add_virtual_bool_target_safe();
        let inner = builder.add_virtual_proof_with_pis(&common_data);
        let ipis = &inner.public_inputs;
        let inner_initial = HashOutTarget::try_from(&ipis[0..4]).unwrap();
        let inner_latest = HashOutTarget::try_from(&ipis[4..8]).unwrap();
        let inner_counter = ipis[8];
        builder.connect_hashes(initial_hash_target, inner_initial);
        let actual_in = HashOutTarget { elements: core::array::from_fn(|i| builder.select(condition, inner_latest.elements[i], initial_hash_target.elements[i])) };
        builder.connect_hashes(current_hash_in, actual_in);
        let new_counter = builder.mul_add(condition.target, inner_counter, one);
        builder.connect(counter, new_counter);
        builder.conditionally_verify_cyclic_proof_or_dummy::<C>(condition, &inner, &common_data)?;
        let data = builder.build::<C>();

        let chain_len = if thorough { 4 } else { 2 };
        for base in 0..2 {
            let init = [F::from_canonical_u64(r.below(P)), F::ONE, F::TWO, F::from_canonical_u64(3 + base)];
            let mut pw = PartialWitness::new();
            pw.set_bool_target(condition, false)?;
            pw.set_proof_with_pis_target::<C, 2>(&inner, &cyclic_base_proof(&common_data, &data.verifier_only, init.into_iter().enumerate().collect()))?;
            pw.set_verifier_data_target(&vdt, &data.verifier_only)?;
            let mut proof = data.prove(pw)?;
            for step in 0..=chain_len {
                e.stage(&format!("impl: cyclic chain, base {base}, step {step}"));
                if let Err(er) = check_cyclic_proof_verifier_data(&proof, &data.verifier_only, &data.common) { e.oracle_failures.push(format!("cyclic proof at step {step} does not carry the circuit's verifier data: {er:#}")); }
                if let Err(er) = data.verify(proof.clone()) { e.oracle_failures.push(format!("cyclic proof at step {step} rejected: {er:#}")); }
                // the chain computes a repeated hash
                let cnt = proof.public_inputs[8].to_canonical_u64() as usize;
                let mut cur: [F; 4] = proof.public_inputs[..4].try_into().unwrap();
                for _ in 0..cnt { cur = hash_n_to_hash_no_pad::<F, PoseidonPermutation<F>>(&cur).elements; }
                if cnt != step + 1 || proof.public_inputs[4..8] != cur { e.oracle_failures.push(format!("cyclic chain step {step}: counter/hash wrong")); }
                e.count("cyclic proof verified + vd check");
                // every single-element alteration of the embedded verifier data must be rejected by the vd check
                let npis = proof.public_inputs.len();
                let vd_start = 9;
                for k in (vd_start..npis).step_by(if thorough { 1 } else { 7 }) {
                    let mut bad = proof.clone();
                    bad.public_inputs[k] += F::ONE;
                    if check_cyclic_proof_verifier_data(&bad, &data.verifier_only, &data.common).is_ok() {
                        e.oracle_failures.push(format!("check_cyclic_proof_verifier_data accepts altered embedded verifier data (public input {k})"));
                    }
                    e.count("altered embedded vd rejected");
                }
                if step == chain_len { break; }
                let mut pw = PartialWitness::new();
                pw.set_bool_target(condition, true)?;
                pw.set_proof_with_pis_target(&inner, &proof)?;
                pw.set_verifier_data_target(&vdt, &data.verifier_only)?;
                proof = data.prove(pw)?;
            }
            // foreign verifier data inside the chain: a base proof made under ALTERED verifier data (one cap
            // element, or one digest element, changed) verifies as a proof of this circuit but fails the
            // verifier-data check; the chain must not be extendable from it under the genuine data
            for which in 0..2 {
                let mut bad_vd = data.verifier_only.clone();
                if which == 0 { bad_vd.constants_sigmas_cap.0[0].elements[1] += F::ONE; } else { bad_vd.circuit_digest.elements[2] += F::ONE; }
                let what = if which == 0 { "one cap element altered, digest kept" } else { "one digest element altered, cap kept" };
                e.stage(&format!("impl: cyclic base proof under altered verifier data ({what})"));
                let made = std::panic::catch_unwind(std::panic::AssertUnwindSafe(|| -> anyhow::Result<Pwpi> {
                    let mut pw = PartialWitness::new();
                    pw.set_bool_target(condition, false)?;
                    pw.set_proof_with_pis_target::<C, 2>(&inner, &cyclic_base_proof(&common_data, &bad_vd, init.into_iter().enumerate().collect()))?;
                    pw.set_verifier_data_target(&vdt, &bad_vd)?;
                    data.prove(pw)
                }));
                let Ok(Ok(p_bad)) = made else { e.count(&format!("cyclic: no base proof under altered verifier data ({what})")); continue; };
                let verifies = data.verify(p_bad.clone()).is_ok();
                let vd_ok = check_cyclic_proof_verifier_data(&p_bad, &data.verifier_only, &data.common).is_ok();
                e.count(&format!("cyclic: base proof under altered vd ({what}): verifies={verifies} vd-check-passes={vd_ok}"));
                if vd_ok { e.oracle_failures.push(format!("check_cyclic_proof_verifier_data accepts a proof made under altered verifier data ({what})")); }
                let mut pw = PartialWitness::new();
                pw.set_bool_target(condition, true)?;
                pw.set_proof_with_pis_target(&inner, &p_bad)?;
                pw.set_verifier_data_target(&vdt, &data.verifier_only)?;
                e.stage(&format!("impl: extending the cyclic chain from a proof with foreign verifier data ({what})"));
                let ext = std::panic::catch_unwind(std::panic::AssertUnwindSafe(|| data.prove(pw).and_then(|p| { data.verify(p.clone())?; Ok(p) })));
                if let Ok(Ok(p2)) = ext {
                    let passes = check_cyclic_proof_verifier_data(&p2, &data.verifier_only, &data.common).is_ok();
                    e.oracle_failures.push(format!("cyclic chain EXTENDED from an inner proof that carries foreign verifier data ({what}); the new proof verifies and its verifier-data check passes: {passes}"));
                }
                e.count("cyclic: extension from foreign verifier data refused");
            }
            // a tampered inner proof must not extend the chain
            let mut pw = PartialWitness::new();
            pw.set_bool_target(condition, true)?;
            pw.set_proof_with_pis_target(&inner, &tamper(r, &proof))?;
            pw.set_verifier_data_target(&vdt, &data.verifier_only)?;
            let ext = std::panic::catch_unwind(std::panic::AssertUnwindSafe(|| data.prove(pw).and_then(|p| data.verify(p))));
            if matches!(ext, Ok(Ok(()))) { e.oracle_failures.push("cyclic chain extended from a tampered inner proof".into()); }
            e.count("tampered inner cyclic proof refused");
        }
        Ok(())
    }));
    match res {
        Ok(Ok(())) => {}
        Ok(Err(er)) => e.oracle_failures.push(format!("cyclic recursion flow failed: {er:#}")),
        Err(_) => e.oracle_failures.push("cyclic recursion flow panicked".into()),
    }
}

pub fn emit(e: &mut Emitter, seed: u64, thorough: bool) {
    let mut r = Rng::new(seed ^ 0x20);
    conditional(e, &mut r, thorough);
    dummies(e, &mut r, thorough);
    cyclic(e, &mut r, thorough);
}
