//! C15: FFT family, bit reversal / transpose helpers and polynomial algebra on the real code.
use plonky2::field::fft::{fft_root_table, fft_with_options, ifft};
use plonky2::field::goldilocks_field::GoldilocksField as F;
use plonky2::field::interpolation::{barycentric_weights, interpolant, interpolate};
use plonky2::field::polynomial::{PolynomialCoeffs, PolynomialValues};
use plonky2::field::types::{Field, PrimeField64};
use plonky2::field::zero_poly_coset::ZeroPolyOnCoset;
use plonky2::util::transpose;
use plonky2_util::{reverse_index_bits, reverse_index_bits_in_place};

use crate::util::*;

fn can(xs: &[F]) -> String {
    join(xs.iter().map(|x| x.to_canonical_u64()))
}
fn fe(r: &mut Rng) -> u64 {
    match r.below(8) { 0 => 0, 1 => 1, 2 => P - 1, _ => r.below(P) }
}
fn fvec(xs: &[u64]) -> Vec<F> {
    xs.iter().map(|&x| F::from_canonical_u64(x)).collect()
}
fn digest(xs: impl Iterator<Item = u64>) -> u64 {
    xs.fold(14695981039346656037u64, |h, x| (h ^ x).wrapping_mul(1099511628211))
}
fn show_perm(xs: &[u64]) -> String {
    if xs.len() <= 256 { join(xs.iter()) } else { format!("digest {}", digest(xs.iter().copied())) }
}

fn rev_inplace_generic<const W: usize>(lb: usize) -> Vec<u64> {
    let n = 1usize << lb;
    let mut v: Vec<[u64; W]> = (0..n as u64).map(|i| { let mut a = [i ^ 0x5555; W]; a[0] = i; a }).collect();
    reverse_index_bits_in_place(&mut v);
    // every lane must have moved together
    assert!(v.iter().all(|a| a.iter().skip(1).all(|&x| x == a[0] ^ 0x5555)));
    v.iter().map(|a| a[0]).collect()
}

fn poly(r: &mut Rng, kind: u64, maxdeg: u64) -> Vec<u64> {
    // kinds: 0 empty, 1 zero poly with length, 2 constant, 3 dense, 4 leading zeros, 5 sparse
    match kind {
        0 => vec![],
        1 => vec![0; r.range(1, 4) as usize],
        2 => vec![fe(r).max(1)],
        3 => { let d = r.range(1, maxdeg); let mut v: Vec<u64> = (0..=d).map(|_| r.below(P)).collect(); let l = v.len(); v[l - 1] = v[l - 1].max(1); v }
        4 => { let mut v = poly(r, 3, maxdeg); v.extend(vec![0; r.range(1, 5) as usize]); v }
        _ => { let d = r.range(1, maxdeg) as usize; let mut v = vec![0u64; d + 1]; v[d] = 1 + r.below(P - 1); v[0] = fe(r); if d > 2 { v[r.below(d as u64) as usize] = fe(r); } v }
    }
}

pub fn emit(e: &mut Emitter, seed: u64, thorough: bool) {
    let mut r = Rng::new(seed ^ 0x15);
    let max_lg = if thorough { 13 } else { 10 };
    // ---------------- transforms
    for lg in 0..=max_lg {
        let n = 1usize << lg;
        for rep in 0..(if lg <= 6 { 4 } else { 2 }) {
            let c: Vec<u64> = (0..n).map(|_| fe(&mut r)).collect();
            let cs = join(c.iter());
            let fc = fvec(&c);
            // plain, with a precomputed table of the right size, with a larger table (must be refused)
            for tbl in 0..3u64 {
                if tbl == 2 && (rep > 0 || lg > 8) { continue; }
                let fc2 = fc.clone();
                e.case("fft", format!("c15 fft {lg} 0 {tbl} {cs}"), move || {
                    let t = match tbl { 1 => Some(fft_root_table::<F>(n)), 2 => Some(fft_root_table::<F>(2 * n)), _ => None };
                    can(&fft_with_options(PolynomialCoeffs::new(fc2), None, t.as_ref()).values)
                });
            }
            // zero-tail speed-up: coefficients with a 2^r-fold zero tail
            for rr in 0..=lg.min(4) {
                let keep = n >> rr;
                let mut cz = c.clone();
                for x in cz.iter_mut().skip(keep) { *x = 0; }
                let fz = fvec(&cz);
                e.case("fft-zero-tail", format!("c15 fft {lg} {} {} {}", rr + 1, rep % 2, join(cz.iter())), move || {
                    let t = if rep % 2 == 1 { Some(fft_root_table::<F>(n)) } else { None };
                    can(&fft_with_options(PolynomialCoeffs::new(fz), Some(rr), t.as_ref()).values)
                });
            }
            let fc3 = fc.clone();
            e.case("ifft", format!("c15 ifft {lg} {cs}"), move || can(&ifft(PolynomialValues::new(fc3)).coeffs));
            let rs = r.range(2, P - 1);
            let shift = *r.pick(&[1u64, 7, F::MULTIPLICATIVE_GROUP_GENERATOR.0, P - 1, rs]);
            let fc4 = fc.clone();
            e.case("coset-fft", format!("c15 cosetfft {lg} {shift} {cs}"), move || {
                can(&PolynomialCoeffs::new(fc4).coset_fft(F::from_canonical_u64(shift)).values)
            });
            let fc5 = fc.clone();
            e.case("coset-ifft", format!("c15 cosetifft {lg} {shift} {cs}"), move || {
                can(&PolynomialValues::new(fc5).coset_ifft(F::from_canonical_u64(shift)).coeffs)
            });
            if lg <= max_lg - 3 {
                let rate = r.below(4) as usize;
                let fc6 = fc.clone();
                e.case("lde", format!("c15 lde {lg} {rate} {cs}"), move || can(&PolynomialValues::new(fc6).lde(rate).values));
            }
        }
    }
    // ---------------- bit reversal: out of place, both branches (n_power <= 6 and > 6)
    for lb in 0..=(if thorough { 18 } else { 15 }) {
        e.case("reverse-index-bits", format!("c15 revperm {lb}"), || {
            let v: Vec<u64> = (0..1u64 << lb).collect();
            show_perm(&reverse_index_bits(&v))
        });
    }
    // in place: element sizes 8, 16, 64, 2048 and 16384 bytes around the chunking thresholds
    // (size_of::<T>() << lb_n <= 2^16 → trivial algorithm, else chunked unless T >= 2^14 bytes)
    for lb in 0..=(if thorough { 18 } else { 16 }) {
        e.case("reverse-in-place-u64", format!("c15 revinplace {lb} 8"), || show_perm(&rev_inplace_generic::<1>(lb)));
        if lb <= 15 {
            e.case("reverse-in-place-16B", format!("c15 revinplace {lb} 16"), || show_perm(&rev_inplace_generic::<2>(lb)));
        }
        if lb <= 13 {
            e.case("reverse-in-place-64B", format!("c15 revinplace {lb} 64"), || show_perm(&rev_inplace_generic::<8>(lb)));
        }
        if lb <= 8 {
            e.case("reverse-in-place-2KiB", format!("c15 revinplace {lb} 2048"), || show_perm(&rev_inplace_generic::<256>(lb)));
        }
        if lb <= 7 {
            e.case("reverse-in-place-4KiB", format!("c15 revinplace {lb} 4096"), || show_perm(&rev_inplace_generic::<512>(lb)));
            e.case("reverse-in-place-8KiB", format!("c15 revinplace {lb} 8192"), || show_perm(&rev_inplace_generic::<1024>(lb)));
        }
        if lb <= 5 {
            e.case("reverse-in-place-16KiB", format!("c15 revinplace {lb} 16384"), || show_perm(&rev_inplace_generic::<2048>(lb)));
        }
    }
    for _ in 0..20 {
        let (rows, cols) = (r.range(1, 9) as usize, r.range(1, 9) as usize);
        let m: Vec<Vec<u64>> = (0..rows).map(|_| (0..cols).map(|_| r.below(1000)).collect()).collect();
        let flat: Vec<u64> = m.iter().flatten().copied().collect();
        e.case("transpose", format!("c15 transpose {rows} {cols} {}", join(flat.iter())), || {
            join(transpose(&m).into_iter().flatten())
        });
    }
    // ---------------- polynomial algebra
    let n = if thorough { 1500 } else { 250 };
    for i in 0..n {
        let (ka, kb) = (r.below(6), r.below(6));
        let maxdeg = if i % 5 == 0 { 70 } else { 12 };
        let a = poly(&mut r, ka, maxdeg);
        let b = poly(&mut r, kb, maxdeg);
        let class = format!("poly kinds {ka},{kb}");
        let (pa, pb) = (PolynomialCoeffs::new(fvec(&a)), PolynomialCoeffs::new(fvec(&b)));
        let req_ab = format!("{} {} {}", a.len(), join(a.iter()), join(b.iter()));
        if !a.is_empty() && !b.is_empty() {
            let (pa2, pb2) = (pa.clone(), pb.clone());
            e.case(&class, format!("c15 polymul {req_ab}"), move || can(&(&pa2 * &pb2).trimmed().coeffs));
        }
        let (pa2, pb2) = (pa.clone(), pb.clone());
        e.case(&format!("div_rem {class}"), format!("c15 divrem {req_ab}"), move || {
            let (q, rm) = pa2.div_rem(&pb2);
            format!("{} | {}", can(&q.trimmed().coeffs), can(&rm.trimmed().coeffs))
        });
        let (pa2, pb2) = (pa.clone(), pb.clone());
        e.case(&format!("long_division {class}"), format!("c15 divrem {req_ab}"), move || {
            let (q, rm) = pa2.div_rem_long_division(&pb2);
            format!("{} | {}", can(&q.trimmed().coeffs), can(&rm.trimmed().coeffs))
        });
        if !a.is_empty() {
            let z = fe(&mut r);
            let pa2 = pa.clone();
            e.case("divide-by-linear", format!("c15 divlin {z} {}", join(a.iter())), move || {
                can(&pa2.divide_by_linear(F::from_canonical_u64(z)).coeffs)
            });
            let x = fe(&mut r);
            let pa2 = pa.clone();
            e.case("eval", format!("c15 eval {x} {}", join(a.iter())), move || pa2.eval(F::from_canonical_u64(x)).to_canonical_u64().to_string());
        }
    }
    // regression corpus: inputs of the repaired defects F-C15-1 / F-C15-2 run first
    for (a, b) in [
        (vec![1u64, 0, 0, 0, 0, 0, 0, 0, 0, 1], vec![1u64, 0, 1]),
        (vec![0, 0, 1], vec![0, 1]),
        (vec![P - 1, 0, 0, 0, 1], vec![P - 1, 0, 1]),
        (vec![5, 0, 3, 0, 0, 0, 1], vec![2, 0, 0, 1]),
        (vec![1, 0, 1], vec![1]),
    ] {
        let (pa, pb) = (PolynomialCoeffs::new(fvec(&a)), PolynomialCoeffs::new(fvec(&b)));
        let req_ab = format!("{} {} {}", a.len(), join(a.iter()), join(b.iter()));
        let (pa2, pb2) = (pa.clone(), pb.clone());
        e.case("div_rem corpus", format!("c15 divrem {req_ab}"), move || {
            let (q, rm) = pa2.div_rem(&pb2);
            format!("{} | {}", can(&q.trimmed().coeffs), can(&rm.trimmed().coeffs))
        });
        e.case("long_division corpus", format!("c15 divrem {req_ab}"), move || {
            let (q, rm) = pa.div_rem_long_division(&pb);
            format!("{} | {}", can(&q.trimmed().coeffs), can(&rm.trimmed().coeffs))
        });
    }
    // sparse divisors x^k + c and dividends with zero blocks (Newton iteration blocks with zero tops)
    for i in 0..(if thorough { 400 } else { 80 }) {
        let k = r.range(1, 9) as usize;
        let m = k + r.range(0, 24) as usize;
        let mut b = vec![0u64; k + 1];
        b[k] = if i % 2 == 0 { 1 } else { 1 + r.below(P - 1) };
        b[0] = fe(&mut r);
        if i % 3 == 0 && k > 2 { b[r.range(1, k as u64 - 1) as usize] = fe(&mut r); }
        let mut a = vec![0u64; m + 1];
        a[m] = 1 + r.below(P - 1);
        a[0] = fe(&mut r);
        if i % 4 == 0 { for x in a.iter_mut().take(m) { if r.below(3) == 0 { *x = r.below(P); } } }
        let (pa, pb) = (PolynomialCoeffs::new(fvec(&a)), PolynomialCoeffs::new(fvec(&b)));
        let req_ab = format!("{} {} {}", a.len(), join(a.iter()), join(b.iter()));
        let (pa2, pb2) = (pa.clone(), pb.clone());
        e.case("div_rem sparse", format!("c15 divrem {req_ab}"), move || {
            let (q, rm) = pa2.div_rem(&pb2);
            format!("{} | {}", can(&q.trimmed().coeffs), can(&rm.trimmed().coeffs))
        });
        e.case("long_division sparse", format!("c15 divrem {req_ab}"), move || {
            let (q, rm) = pa.div_rem_long_division(&pb);
            format!("{} | {}", can(&q.trimmed().coeffs), can(&rm.trimmed().coeffs))
        });
    }
    // interpolation: arbitrary distinct points (incl. non power-of-two counts), x inside/outside
    for _ in 0..(if thorough { 300 } else { 60 }) {
        let npts = r.range(1, 12) as usize;
        let mut xs: Vec<u64> = vec![];
        while xs.len() < npts {
            let c = if r.below(4) == 0 { F::primitive_root_of_unity(4).exp_u64(xs.len() as u64).to_canonical_u64() } else { r.below(P) };
            if !xs.contains(&c) { xs.push(c); }
        }
        let ys: Vec<u64> = (0..npts).map(|_| fe(&mut r)).collect();
        let x = if r.below(4) == 0 { xs[r.below(npts as u64) as usize] } else { r.below(P) };
        let pts: Vec<(F, F)> = xs.iter().zip(&ys).map(|(&a, &b)| (F::from_canonical_u64(a), F::from_canonical_u64(b))).collect();
        let req = format!("{npts} {x} {} {}", join(xs.iter()), join(ys.iter()));
        let p2 = pts.clone();
        e.case("interpolate-barycentric", format!("c15 interp {req}"), move || {
            let w = barycentric_weights(&p2);
            interpolate(&p2, F::from_canonical_u64(x), &w).to_canonical_u64().to_string()
        });
        let p3 = pts.clone();
        e.case("interpolant-eval", format!("c15 interp {req}"), move || {
            interpolant(&p3).eval(F::from_canonical_u64(x)).to_canonical_u64().to_string()
        });
    }
    for n_log in 0..8usize {
        for rate in 0..4usize {
            let z = ZeroPolyOnCoset::<F>::new(n_log, rate);
            for i in [0usize, 1, (1 << (n_log + rate)) - 1, r.below(1 << (n_log + rate)) as usize] {
                e.case("zero-poly-on-coset", format!("c15 zpoly {n_log} {rate} {i}"), || z.eval(i).to_canonical_u64().to_string());
            }
        }
    }
}
