//! C10: STARK lookups hold iff the looked-up values are present.
//! Generated lookup declarations (`Lookup { columns, table_column, frequencies_column,
//! filter_columns }`: 1…4 looking columns; single / linear-combination / next-row columns; constant,
//! column, product and complemented filters; constraint degree 2 and 3) with satisfying traces, and
//! single-value corruptions of the looking side, the table, the frequencies and the filters. Every
//! corrupted trace is classified by the multiset semantics of the declaration (implementation side
//! `Air::first_bad_lookup`, Lean `lookupsat`); traces where a lookup fails must not yield an accepted
//! proof, traces where all still hold must. Proof tampering (auxiliary cap / openings included)
//! is compared exactly with the Lean verifier model.
//! Cross-table lookups (module `ctl`): two- and three-table systems proved and verified with a
//! multi-table glue written against starky's public API; accepted iff the filtered looking rows and
//! the filtered looked rows form the same multiset (classified on both sides), single-value
//! corruptions on either side; on cheap configurations the verdicts (honest and tampered proofs) are
//! compared exactly with the Lean model of the multi-table verifier.
use std::sync::Arc;

use plonky2::field::types::Field;
use starky::config::StarkConfig;

use crate::c09::*;
use crate::dump::*;
use crate::stark_dsl::*;
use crate::util::*;

fn fe(x: u64) -> F { F::from_noncanonical_u64(x) }

pub fn lookupsat_request(air: &Air, rows: &[Vec<F>], pis: &[F]) -> String {
    sat_request(air, rows, pis).replacen("c09 sat", "c10 lookupsat", 1)
}
pub fn lookupsat_answer(v: Option<usize>) -> String {
    match v { None => "HOLDS".into(), Some(i) => format!("FAILS {i}") }
}

/// How the value of a looking column at row r is produced from the cell the simulation solves for.
#[derive(Clone, Debug)]
enum Looking {
    /// `single(c)`
    Single,
    /// `a·c + b·noise + k`
    Lc { a: u64, b: u64, k: u64 },
    /// `single_next_row(c)`: the value at row r is the cell of row r+1
    Next,
    /// `a·noise (this row) + b·c (next row) + k`
    LcNext { a: u64, b: u64, k: u64 },
}

#[derive(Clone, Debug)]
enum Filt {
    Always,
    /// constant multiplicity 2 on every row
    Twice,
    /// `single(fa)`
    Col,
    /// `1 − fa`
    NotCol,
    /// `fa · fb`
    Product,
}

/// layout: 0 = table base, 1 = frequencies, 2 = noise, 3 = fa, 4 = fb, 5.. = solved looking cells
const T: usize = 0;
const FQ: usize = 1;
const NOISE: usize = 2;
const FA: usize = 3;
const FB: usize = 4;
const L0: usize = 5;

pub struct GenLookup {
    pub air: Arc<Air>,
    looking: Vec<Looking>,
    filters: Vec<Filt>,
    /// table value = ta·t + tk; frequency column value = fs·f
    ta: u64,
    tk: u64,
    fs: u64,
}

fn nonzero_small(r: &mut Rng) -> u64 { match r.below(4) { 0 => 1, 1 => P - 1, _ => r.range(2, 1000) } }

/// a lookup-carrying AIR of shape (8, pis) with `k` ≤ 3 looking columns, or (6, pis) with k = 1
pub fn gen_lookup_air(r: &mut Rng, degree: usize, k: usize, shape: (usize, usize)) -> GenLookup {
    assert!(L0 + k <= shape.0);
    let looking: Vec<Looking> = (0..k).map(|_| match r.below(5) {
        0 => Looking::Lc { a: nonzero_small(r), b: small_any(r), k: small_any(r) },
        1 => Looking::Next,
        2 => Looking::LcNext { a: small_any(r), b: nonzero_small(r), k: small_any(r) },
        _ => Looking::Single,
    }).collect();
    let filters: Vec<Filt> = (0..k).map(|_| match r.below(7) { 0 => Filt::Twice, 1 | 2 => Filt::Col, 3 => Filt::NotCol, 4 => Filt::Product, _ => Filt::Always }).collect();
    let (ta, tk) = if r.coin() { (1, 0) } else { (nonzero_small(r), small_any(r)) };
    let fs = if r.below(3) == 0 { nonzero_small(r) } else { 1 };
    let columns: Vec<ColSpec> = looking.iter().enumerate().map(|(i, l)| {
        let c = L0 + i;
        match l {
            Looking::Single => ColSpec::single(c),
            Looking::Lc { a, b, k } => ColSpec { lc: vec![(c, *a), (NOISE, *b)], next: vec![], c: *k },
            Looking::Next => ColSpec::single_next(c),
            Looking::LcNext { a, b, k } => ColSpec { lc: vec![(NOISE, *a)], next: vec![(c, *b)], c: *k },
        }
    }).collect();
    let fspecs: Vec<FilterSpec> = filters.iter().map(|f| match f {
        Filt::Always => FilterSpec::always(),
        Filt::Twice => FilterSpec { products: vec![], constants: vec![ColSpec::constant(2)] },
        Filt::Col => FilterSpec { products: vec![], constants: vec![ColSpec::single(FA)] },
        Filt::NotCol => FilterSpec { products: vec![], constants: vec![ColSpec { lc: vec![(FA, P - 1)], next: vec![], c: 1 }] },
        Filt::Product => FilterSpec { products: vec![(ColSpec::single(FA), ColSpec::single(FB))], constants: vec![] },
    }).collect();
    let lookup = LookupSpec {
        columns,
        table: ColSpec { lc: vec![(T, ta)], next: vec![], c: tk },
        freq: ColSpec { lc: vec![(FQ, fs)], next: vec![], c: 0 },
        filters: fspecs,
    };
    // ordinary constraints next to the lookups: the filter columns are boolean (degree 2)
    let mut constraints = vec![];
    if degree >= 2 && r.coin() {
        for c in [FA, FB] { constraints.push((Kind::All, mul(loc(c), sub(loc(c), lit(1))))); }
    }
    let air = Air { cols: shape.0, pis: shape.1, degree, constraints, lookups: vec![lookup], requires_ctls: false };
    GenLookup { air: Arc::new(air), looking, filters, ta, tk, fs }
}

fn small_any(r: &mut Rng) -> u64 { match r.below(4) { 0 => 0, 1 => 1, 2 => P - 1, _ => r.below(1000) } }

impl GenLookup {
    fn filter_value(&self, i: usize, fa: F, fb: F) -> F {
        match self.filters[i] { Filt::Always => F::ONE, Filt::Twice => F::TWO, Filt::Col => fa, Filt::NotCol => F::ONE - fa, Filt::Product => fa * fb }
    }
    /// a trace on which the lookup holds: table values first, then every filtered looking value is
    /// drawn from the table and the cell behind it solved for; frequencies counted at the end
    pub fn simulate(&self, r: &mut Rng, n: usize) -> Vec<Vec<F>> {
        let cols = self.air.cols;
        let mut rows: Vec<Vec<F>> = (0..n).map(|_| (0..cols).map(|_| fe(r.below(50))).collect()).collect();
        // distinct table bases in the first m rows, the rest repeats row 0 (padding by duplicates)
        let m = r.range(1, n as u64) as usize;
        let base0 = r.below(1 << 30);
        for i in 0..n { rows[i][T] = if i < m { fe(base0 + 3 * i as u64) } else { fe(base0) }; }
        for row in rows.iter_mut() { row[FA] = fe(r.below(2)); row[FB] = fe(r.below(2)); row[FQ] = F::ZERO; }
        let table_val = |rows: &Vec<Vec<F>>, j: usize| fe(self.ta) * rows[j][T] + fe(self.tk);
        let mut counts = vec![F::ZERO; n];
        for i in 0..self.looking.len() {
            let c = L0 + i;
            for rr in 0..n {
                let w = self.filter_value(i, rows[rr][FA], rows[rr][FB]);
                // filtered-out rows look at something that is (almost surely) not in the table
                let target = if w == F::ZERO { fe(r.below(P)) } else { let j = r.below(m as u64) as usize; counts[j] += w; table_val(&rows, j) };
                let noise = rows[rr][NOISE];
                match &self.looking[i] {
                    Looking::Single => rows[rr][c] = target,
                    Looking::Lc { a, b, k } => rows[rr][c] = (target - fe(*b) * noise - fe(*k)) * fe(*a).inverse(),
                    Looking::Next => rows[(rr + 1) % n][c] = target,
                    Looking::LcNext { a, b, k } => rows[(rr + 1) % n][c] = (target - fe(*a) * noise - fe(*k)) * fe(*b).inverse(),
                }
            }
        }
        let inv = fe(self.fs).inverse();
        for j in 0..n { rows[j][FQ] = counts[j] * inv; }
        rows
    }
}

/// classify a (possibly corrupted) lookup trace with both semantics, run prover and verifiers
fn lookup_case(e: &mut Emitter, inst: &Instance, rows: &[Vec<F>], cls: &str, what: &str) {
    let bad = inst.air.first_bad_lookup(rows);
    e.case(&format!("lookupsat: {cls}"), lookupsat_request(&inst.air, rows, &inst.pis), || lookupsat_answer(bad));
    corrupted(e, "c10", inst, rows, &inst.pis, bad.is_none(), cls, what);
}

fn lookup_corruptions(e: &mut Emitter, r: &mut Rng, inst: &Instance, k: usize) {
    let n = inst.rows.len();
    let pick_row = |r: &mut Rng| r.below(n as u64) as usize;
    // looking side: a cell becomes a fresh value / another row's value
    for i in 0..k {
        let c = L0 + i;
        let mut rows = inst.rows.clone();
        let rr = pick_row(r);
        rows[rr][c] += fe(1 + r.below(1000));
        lookup_case(e, inst, &rows, "looking cell altered", &format!("looking cell ({rr},{c}) altered"));
        let mut rows = inst.rows.clone();
        let (r1, r2) = (pick_row(r), pick_row(r));
        if rows[r1][c] != rows[r2][c] {
            rows[r1][c] = rows[r2][c];
            lookup_case(e, inst, &rows, "looking cell := another row's", &format!("looking cell ({r1},{c}) := cell ({r2},{c})"));
        }
    }
    // table side
    for _ in 0..2 {
        let mut rows = inst.rows.clone();
        let rr = pick_row(r);
        rows[rr][T] += fe(1 + r.below(1000));
        lookup_case(e, inst, &rows, "table cell altered", &format!("table cell ({rr},{T}) altered"));
    }
    // frequencies: one more, one less, moved to another row
    let mut rows = inst.rows.clone();
    let rr = pick_row(r);
    rows[rr][FQ] += F::ONE;
    lookup_case(e, inst, &rows, "frequency + 1", &format!("frequency ({rr}) + 1"));
    let mut rows = inst.rows.clone();
    let rr = pick_row(r);
    rows[rr][FQ] -= F::ONE;
    lookup_case(e, inst, &rows, "frequency − 1", &format!("frequency ({rr}) − 1"));
    let (r1, r2) = (pick_row(r), pick_row(r));
    if r1 != r2 {
        let mut rows = inst.rows.clone();
        rows[r1][FQ] += F::ONE;
        rows[r2][FQ] -= F::ONE;
        lookup_case(e, inst, &rows, "one unit of frequency moved", &format!("frequency unit moved {r2}→{r1}"));
    }
    // filters: a row switched on / off (an extra or a missing looking value)
    for c in [FA, FB] {
        let mut rows = inst.rows.clone();
        let rr = pick_row(r);
        rows[rr][c] = F::ONE - rows[rr][c];
        lookup_case(e, inst, &rows, "filter cell flipped", &format!("filter cell ({rr},{c}) flipped"));
    }
    // noise feeds the linear-combination columns
    let mut rows = inst.rows.clone();
    let rr = pick_row(r);
    rows[rr][NOISE] += F::ONE;
    lookup_case(e, inst, &rows, "noise cell altered", &format!("noise cell ({rr},{NOISE}) altered"));
}

fn cheap_fast() -> StarkConfig {
    let mut c = StarkConfig::standard_fast_config();
    c.fri_config.num_query_rounds = 3;
    c.fri_config.proof_of_work_bits = 3;
    c.security_bits = 6;
    c
}

pub fn emit(e: &mut Emitter, seed: u64, thorough: bool) {
    let mut r = Rng::new(seed ^ 0x10);

    // ---- permutation_stark.rs as AIR data. The original declares `constraint_degree() = 0`, which
    // makes `quotient_degree_factor() = 0`: no quotient polynomial exists and the verifier's
    // identity loop has nothing to iterate over, so the lookup is never enforced.
    for degree in [0usize, 2, 3] {
        let air = Arc::new(permutation_air(degree));
        let n = 1usize << r.range(3, 5);
        let (rows, pis) = permutation_trace(n, fe(r.below(1 << 40)));
        let holds = air.first_bad_lookup(&rows);
        e.case("lookupsat: permutation trace", lookupsat_request(&air, &rows, &pis), || lookupsat_answer(holds));
        // a repaired library may refuse lookups without a quotient outright: that is a quiet outcome
        if degree == 0 && !matches!(try_prove(&air, &cheap_fast(), &rows, &pis, None), Proved::Ok(_)) {
            e.count("lookups with constraint_degree()=0 refused by the prover");
            continue;
        }
        let Some(inst) = honest(e, "c10", &air, &cheap_fast(), None, &rows, &pis, &format!("permutation STARK with constraint_degree()={degree}")) else { continue };
        // the permuted column gets a value that is not in the table
        let mut bad = inst.rows.clone();
        bad[n / 2][0] += fe(n as u64 + 7);
        let sem = air.first_bad_lookup(&bad);
        e.case("lookupsat: permutation broken", lookupsat_request(&air, &bad, &pis), || lookupsat_answer(sem));
        e.stage("proving a broken permutation");
        if let Proved::Ok(p) = try_prove(&air, &inst.config, &bad, &pis, None) {
            let v = verdict_air(&air, &inst.config, &p, None);
            e.case(&format!("verify broken permutation (D={degree})"), proof_request("c10 verify", &air, &inst.config, &None, &p), || v.clone());
            if v == "ACCEPT" && sem.is_some() {
                if degree == 0 {
                    finding(e, "F-C10-1", format!("a STARK declaring lookups with constraint_degree()=0 (as starky's own permutation_stark.rs does) gets NO quotient, so the lookup is not enforced: a trace whose looking value is absent from the table is proved and ACCEPTED (n={n})"));
                } else {
                    e.oracle_failures.push(format!("broken permutation ACCEPTED with constraint_degree()={degree}"));
                }
            }
        }
        if degree != 0 { tamper(e, &mut r, "c10", &inst, 1, true, 1); }
    }

    // ---- constraint_degree() = 1 with lookups: `num_helper_columns` divides by zero (loud refusal)
    {
        let air = Arc::new(permutation_air(1));
        let (rows, pis) = permutation_trace(8, F::ZERO);
        match try_prove(&air, &cheap_fast(), &rows, &pis, None) {
            Proved::Panic(m) if m.contains("divide by zero") || m.contains("division by zero") => e.count("inadmissible: lookups with constraint_degree()=1 (division by zero)"),
            Proved::Panic(m) => e.count(&format!("lookups with constraint_degree()=1: panic ({m})")),
            _ => e.oracle_failures.push("lookups with constraint_degree()=1 did not refuse".into()),
        }
    }

    // ---- generated lookup declarations, cheap configurations
    let n_inst = if thorough { 40 } else { 6 };
    let mut made = 0;
    let mut tries = 0;
    while made < n_inst && tries < 5 * n_inst {
        tries += 1;
        let degree = if r.coin() { 2 } else { 3 };
        let k = r.range(1, 3) as usize;
        let shape = if k == 1 && r.coin() { (6, *r.pick(&[0usize, 3])) } else { (8, *r.pick(&[0usize, 2])) };
        let g = gen_lookup_air(&mut r, degree, k, shape);
        if !low_degree_ok(&g.air) { e.oracle_failures.push("GENERATOR: lookup AIR fails the degree test".into()); continue; }
        let n = 1usize << r.range(2, 6);
        let config = gen_stark_config(&mut r, true, 1);
        let rows = g.simulate(&mut r, n);
        let pis: Vec<F> = (0..shape.1).map(|_| fe(r.below(P))).collect();
        let holds = g.air.first_bad_lookup(&rows);
        e.case("lookupsat: generated trace", lookupsat_request(&g.air, &rows, &pis), || lookupsat_answer(holds));
        if holds.is_some() { e.oracle_failures.push(format!("GENERATOR: simulated lookup trace does not satisfy its lookup: {:?}", g.air.lookups)); continue; }
        let what = format!("generated lookup AIR (seed {seed}, try {tries}) k={k} looking={:?} filters={:?} table={}·t+{} freq={}·f", g.looking, g.filters, g.ta, g.tk, g.fs);
        let Some(inst) = honest(e, "c10", &g.air, &config, None, &rows, &pis, &what) else { continue };
        made += 1;
        e.count(&format!("accepted lookup instance: D={degree} k={k}"));
        lookup_corruptions(e, &mut r, &inst, k);
        tamper(e, &mut r, "c10", &inst, 1, true, 1);
    }

    // ---- 4 looking columns need more than 8 trace columns in this layout: use the same cell for two
    // looking columns (single and next-row view of one column)
    {
        let mut g = gen_lookup_air(&mut r, 3, 3, (8, 0));
        let mut air = (*g.air).clone();
        air.lookups[0].columns.push(ColSpec::single(L0));
        air.lookups[0].filters.push(FilterSpec::always());
        g.air = Arc::new(air);
        // the fourth column repeats the values of looking column 0's cell: a satisfying trace needs
        // that cell's values in the table, which holds when column 0 is `Single` with filter Always
        if matches!(g.looking[0], Looking::Single) && matches!(g.filters[0], Filt::Always) {
            let n = 16;
            let mut rows = g.simulate(&mut r, n);
            // account for the extra looks in the frequencies
            let inv = fe(g.fs).inverse();
            for rr in 0..n {
                let v = rows[rr][L0];
                let j = (0..n).find(|&j| fe(g.ta) * rows[j][T] + fe(g.tk) == v).unwrap();
                rows[j][FQ] += inv;
            }
            let holds = g.air.first_bad_lookup(&rows);
            e.case("lookupsat: four looking columns", lookupsat_request(&g.air, &rows, &[]), || lookupsat_answer(holds));
            if let Some(inst) = honest(e, "c10", &g.air, &gen_stark_config(&mut r, true, 1), None, &rows, &[], "four looking columns (D=3)") {
                lookup_corruptions(e, &mut r, &inst, 3);
            }
        } else {
            e.count("four-looking-column case skipped (column 0 not plain)");
        }
    }

    // ---- table / frequencies columns with a next-row term: the prover's helper columns evaluate
    // them with `eval_table` (next row included), the constraint with `Column::eval` (next row ignored)
    for which in ["table", "frequencies"] {
        let g = gen_lookup_air(&mut r, 2, 1, (6, 0));
        let n = 16usize;
        let mut air = (*g.air).clone();
        let mut rows = g.simulate(&mut r, n);
        if which == "table" {
            // table value := ta·t + tk + 5·noise(next row); re-solve t so that the values stay the same
            air.lookups[0].table.next = vec![(NOISE, 5)];
            let inv = fe(g.ta).inverse();
            for rr in 0..n { let nx = rows[(rr + 1) % n][NOISE]; rows[rr][T] -= fe(5) * nx * inv; }
        } else {
            air.lookups[0].freq.next = vec![(NOISE, 5)];
            let inv = fe(g.fs).inverse();
            for rr in 0..n { let nx = rows[(rr + 1) % n][NOISE]; rows[rr][FQ] -= fe(5) * nx * inv; }
        }
        let air = Arc::new(air);
        let holds = air.first_bad_lookup(&rows);
        e.case("lookupsat: next-row term in table/frequencies", lookupsat_request(&air, &rows, &[]), || lookupsat_answer(holds));
        if holds.is_some() { e.oracle_failures.push("GENERATOR: next-row table/frequency trace broken".into()); continue; }
        let config = cheap_fast();
        e.stage(&format!("proving a lookup whose {which} column has a next-row term"));
        match try_prove(&air, &config, &rows, &[], None) {
            Proved::Ok(p) => {
                let v = verdict_air(&air, &config, &p, None);
                e.case(&format!("verify: next-row term in the {which} column"), proof_request("c10 verify", &air, &config, &None, &p), || v.clone());
                if v != "ACCEPT" {
                    finding(e, "F-C10-2", format!("a lookup whose {which} column has a next-row term (`Column::linear_combination_and_next_row_with_constant`) holds on the trace, `prove` succeeds, but the verifier rejects the honest proof ({v}): the constraint evaluates that column with `Column::eval`, which ignores the next-row part, while the helper columns are computed with `eval_table`"));
                }
            }
            Proved::Err(m) | Proved::Panic(m) => e.oracle_failures.push(format!("lookup with next-row {which} column: prove failed ({m})")),
        }
    }

    // ---- standard strength: corrupted lookups and tampered proofs are never accepted
    let n_std = if thorough { 3 } else { 1 };
    for i in 0..n_std {
        let degree = if r.coin() { 2 } else { 3 };
        let k = r.range(1, 3) as usize;
        let g = gen_lookup_air(&mut r, degree, k, (8, 0));
        let n = 1usize << r.range(4, 6);
        let config = if i == 0 { StarkConfig::standard_fast_config() } else { gen_stark_config(&mut r, false, 1) };
        let rows = g.simulate(&mut r, n);
        e.stage("proving a lookup instance at standard strength");
        let Proved::Ok(proof) = try_prove(&g.air, &config, &rows, &[], None) else { e.count("standard strength: lookup instance not provable (inadmissible configuration)"); continue };
        if verdict_air(&g.air, &config, &proof, None) != "ACCEPT" { e.oracle_failures.push("standard strength: honest lookup proof not accepted".into()); continue; }
        let inst = Instance { air: g.air.clone(), config, vp: None, rows, pis: vec![], proof, what: format!("standard-strength lookup instance {i} (seed {seed}) D={degree} k={k}") };
        tamper(e, &mut r, "c10", &inst, 0, false, if thorough { 5 } else { 37 });
        for c in [L0, T, FQ] {
            let mut rows = inst.rows.clone();
            let rr = r.below(n as u64) as usize;
            rows[rr][c] += fe(1 + r.below(1000));
            if inst.air.first_bad_lookup(&rows).is_none() { continue; }
            if let Proved::Ok(p) = try_prove(&inst.air, &inst.config, &rows, &[], None) {
                e.count("standard strength: proof of a broken lookup verified");
                if verdict_air(&inst.air, &inst.config, &p, None) == "ACCEPT" {
                    e.oracle_failures.push(format!("standard strength: broken lookup (cell ({rr},{c})) gave an ACCEPTED proof: {}", inst.what));
                }
            }
        }
    }
    // ---- cross-table lookups (implementation-side oracle)
    ctl::emit(e, &mut r, thorough);
}

// =============================================================================== cross-table lookups
// The multi-table glue (shared challenger over all trace caps, CTL challenges, one
// `prove_with_commitment` / `verify_stark_proof_with_challenges` per table,
// `verify_cross_table_lookups`) is written here with starky's public API, the way a user of the
// crate writes it. The Lean side classifies the traces (`c10 ctlsat`) and models the verifier
// (`c10 ctlverify`, `verifyMulti` of lean/P2/Model/Stark.lean).
pub mod ctl {
    use std::collections::BTreeMap;
    use std::sync::Arc;

    use hashbrown::HashMap;
    use plonky2::field::types::{Field, PrimeField64};
    use plonky2::fri::oracle::PolynomialBatch;
    use plonky2::hash::poseidon::PoseidonHash;
    use plonky2::iop::challenger::Challenger;
    use plonky2::util::timing::TimingTree;
    use starky::config::StarkConfig;
    use starky::cross_table_lookup::{get_ctl_data, verify_cross_table_lookups, CrossTableLookup, CtlCheckVars, TableWithColumns};
    use starky::lookup::get_grand_product_challenge_set;
    use starky::prover::prove_with_commitment;
    use starky::stark::Stark;
    use starky::verifier::verify_stark_proof_with_challenges;

    use crate::dump::*;
    use crate::stark_dsl::*;
    use crate::util::*;

    /// every table of the multi-table systems has this shape
    pub type Tab = DslStark<6, 0>;
    pub const COLS: usize = 6;

    #[derive(Clone, Debug)]
    pub struct Side { pub table: usize, pub columns: Vec<ColSpec>, pub filter: FilterSpec }
    #[derive(Clone, Debug)]
    pub struct CtlSpec { pub looking: Vec<Side>, pub looked: Side }

    impl Side {
        fn to_twc(&self) -> TableWithColumns<F> {
            TableWithColumns::new(self.table, self.columns.iter().map(|c| c.to_column()).collect(), self.filter.to_filter())
        }
        fn dump(&self, t: &mut Toks) {
            t.n(self.table);
            t.n(self.columns.len());
            for c in &self.columns { c.dump(t); }
            self.filter.dump(t);
        }
    }
    impl CtlSpec {
        pub fn to_ctl(&self) -> CrossTableLookup<F> {
            CrossTableLookup::new(self.looking.iter().map(|s| s.to_twc()).collect(), self.looked.to_twc())
        }
        /// multiset semantics: filtered rows of the looking tables (filter value = multiplicity)
        /// against the filtered rows of the looked table
        pub fn holds(&self, traces: &[Vec<Vec<F>>]) -> bool {
            let mut m: BTreeMap<Vec<u64>, F> = Default::default();
            let mut add = |s: &Side, sign: F| {
                let rows = &traces[s.table];
                for r in 0..rows.len() {
                    let key: Vec<u64> = s.columns.iter().map(|c| c.eval_row(rows, r).to_canonical_u64()).collect();
                    *m.entry(key).or_insert(F::ZERO) += sign * s.filter.eval_row(rows, r);
                }
            };
            for s in &self.looking { add(s, F::ONE); }
            add(&self.looked, F::NEG_ONE);
            m.values().all(|v| *v == F::ZERO)
        }
    }

    pub fn ctlsat_request(traces: &[Vec<Vec<F>>], ctls: &[CtlSpec]) -> String {
        let mut t = Toks::default();
        t.n(traces.len());
        for tr in traces { t.n(COLS); dump_trace(&mut t, tr); }
        t.n(ctls.len());
        for c in ctls { t.n(c.looking.len()); for s in &c.looking { s.dump(&mut t); } c.looked.dump(&mut t); }
        format!("c10 ctlsat {}", t.line())
    }

    fn table_air(degree: usize, constraints: Vec<(Kind, Expr)>) -> Arc<Air> {
        Arc::new(Air { cols: COLS, pis: 0, degree, constraints, lookups: vec![], requires_ctls: true })
    }

    pub type Proofs<const N: usize> = [SProof; N];

    /// prove all tables of a system
    pub fn prove_multi<const N: usize>(airs: &[Arc<Air>; N], traces: &[Vec<Vec<F>>; N], ctls: &[CrossTableLookup<F>], config: &StarkConfig) -> anyhow::Result<Proofs<N>> {
        let mut timing = TimingTree::default();
        let polys: [Vec<_>; N] = core::array::from_fn(|i| rows_to_polys(&traces[i]));
        let commits: Vec<PolynomialBatch<F, C, 2>> = polys.iter().map(|p| PolynomialBatch::from_values(p.clone(), config.fri_config.rate_bits, false, config.fri_config.cap_height, &mut timing, None)).collect();
        let mut challenger = Challenger::<F, PoseidonHash>::new();
        for c in &commits { challenger.observe_cap(&c.merkle_tree.cap); }
        let max_degree = airs.iter().map(|a| a.degree).max().unwrap();
        let (ctl_challenges, ctl_data) = get_ctl_data::<F, C, 2, N>(config, &polys, ctls, &mut challenger, max_degree);
        let mut out = vec![];
        for i in 0..N {
            let stark = Tab { air: airs[i].clone() };
            // `prove_with_commitment` assumes the configuration has been observed; the verifier's
            // `get_challenges` observes it per table
            let mut ch = challenger.clone();
            config.observe(&mut ch);
            out.push(prove_with_commitment(&stark, config, &polys[i], &commits[i], Some(&ctl_data[i]), Some(&ctl_challenges), &mut ch, &[], None, None, &mut timing)?);
        }
        Ok(out.try_into().map_err(|_| anyhow::anyhow!("length")).unwrap())
    }

    /// verify all tables and the cross-table sums
    pub fn verify_multi<const N: usize>(airs: &[Arc<Air>; N], proofs: &Proofs<N>, ctls: &[CrossTableLookup<F>], config: &StarkConfig) -> anyhow::Result<()> {
        let mut challenger = Challenger::<F, PoseidonHash>::new();
        for p in proofs.iter() { challenger.observe_cap(&p.proof.trace_cap); }
        let ctl_challenges = get_grand_product_challenge_set(&mut challenger, config.num_challenges);
        for i in 0..N {
            let stark = Tab { air: airs[i].clone() };
            let (total_helpers, _num_zs, helpers_by_ctl) = CrossTableLookup::num_ctl_helpers_zs_all(ctls, i, config.num_challenges, stark.constraint_degree());
            // the table's own lookup helper columns precede the CTL columns among the auxiliary polynomials
            let num_lookup_columns = stark.num_lookup_helper_columns(config);
            let ctl_vars = CtlCheckVars::from_proof::<C>(i, &proofs[i].proof, ctls, &ctl_challenges, num_lookup_columns, total_helpers, &helpers_by_ctl);
            let mut ch = challenger.clone();
            let challenges = proofs[i].proof.get_challenges(&stark, &proofs[i].public_inputs, &mut ch, Some(&ctl_challenges), Some(&ctl_vars), true, config, None);
            verify_stark_proof_with_challenges(&stark, &proofs[i].proof, &challenges, Some(&ctl_vars), &proofs[i].public_inputs, config)?;
        }
        let zs_first: [Vec<F>; N] = core::array::from_fn(|i| proofs[i].proof.openings.ctl_zs_first.clone().unwrap_or_default());
        verify_cross_table_lookups::<F, 2, N>(ctls, zs_first, &HashMap::new(), config)
    }

    /// verdict of the multi-table verifier, aligned with `verifyMulti` of lean/P2/Model/Stark.lean
    pub fn verdict_multi<const N: usize>(airs: &[Arc<Air>; N], proofs: &Proofs<N>, specs: &[CtlSpec], config: &StarkConfig) -> String {
        let ctls: Vec<CrossTableLookup<F>> = specs.iter().map(|s| s.to_ctl()).collect();
        match std::panic::catch_unwind(std::panic::AssertUnwindSafe(|| verify_multi(airs, proofs, &ctls, config))) {
            Err(_) => "PANIC".into(),
            Ok(Ok(())) => "ACCEPT".into(),
            Ok(Err(err)) => if format!("{err:#}").contains("Cross-table lookup") { "REJECT:ctl".into() } else { stark_verdict(Err(err)) },
        }
    }

    pub fn ctlverify_request<const N: usize>(airs: &[Arc<Air>; N], proofs: &[SProof], specs: &[CtlSpec], config: &StarkConfig) -> String {
        let mut t = Toks::default();
        t.n(N);
        for i in 0..N { airs[i].dump(&mut t); t.stark_proof_with_pis(&proofs[i]); }
        dump_config(&mut t, config);
        t.n(specs.len());
        for c in specs { t.n(c.looking.len()); for s in &c.looking { s.dump(&mut t); } c.looked.dump(&mut t); }
        format!("c10 ctlverify {}", t.line())
    }

    /// honest multi-table proofs and tampered ones against the Lean model (cheap configurations)
    fn exact_multi<const N: usize>(e: &mut Emitter, r: &mut Rng, airs: &[Arc<Air>; N], traces: &[Vec<Vec<F>>; N], specs: &[CtlSpec], config: &StarkConfig, what: &str) {
        use serde_json::Value;
        use crate::c03::{at, class_of, walk};
        let ctls: Vec<CrossTableLookup<F>> = specs.iter().map(|s| s.to_ctl()).collect();
        e.stage(&format!("proving (for the model comparison) {what}"));
        let Ok(Ok(proofs)) = std::panic::catch_unwind(std::panic::AssertUnwindSafe(|| prove_multi(airs, traces, &ctls, config))) else { e.count("ctl: multi-table proving failed in exact mode"); return; };
        let v = verdict_multi(airs, &proofs, specs, config);
        e.case("ctlverify: honest system", ctlverify_request(airs, &proofs[..], specs, config), || v.clone());
        if v != "ACCEPT" { e.oracle_failures.push(format!("honest multi-table proofs not accepted ({v}): {what}")); return; }
        let json = serde_json::to_value(proofs.to_vec()).unwrap();
        let (mut leaves, mut arrays) = (vec![], vec![]);
        walk(&json, &mut vec![], &mut leaves, &mut arrays);
        let check = |e: &mut Emitter, cls: String, j: Value| {
            let Ok(ps) = serde_json::from_value::<Vec<SProof>>(j) else { e.count("ctl: edit not deserialisable"); return; };
            let Ok(arr) = <Proofs<N>>::try_from(ps) else { e.count("ctl: surgery on the list of proofs itself"); return; };
            let v = verdict_multi(airs, &arr, specs, config);
            if v == "ACCEPT" { e.count("ctl cheap configuration: tampered system accepted (verdict compared with the model only)"); }
            if v == "PANIC" { e.count(&format!("PANIC (model agrees): {cls}")); }
            e.case(&cls, ctlverify_request(airs, &arr[..], specs, config), || v);
        };
        let mut by_class: std::collections::BTreeMap<String, Vec<Vec<String>>> = Default::default();
        for l in leaves { by_class.entry(class_of(&l)).or_default().push(l); }
        for (cls, ls) in &by_class {
            let path = r.pick(ls).clone();
            let mut j = json.clone();
            let cell = at(&mut j, &path);
            let old = cell.as_u64().unwrap();
            *cell = Value::from((old + 1 + r.below(P - 1)) % P);
            check(e, format!("ctl edit {cls}"), j);
        }
        let mut arr_by_class: std::collections::BTreeMap<String, Vec<Vec<String>>> = Default::default();
        for a in arrays { if !a.is_empty() { arr_by_class.entry(class_of(&a)).or_default().push(a); } }
        for (cls, als) in &arr_by_class {
            let surgery = r.below(3);
            let path = r.pick(als).clone();
            let mut j = json.clone();
            let Value::Array(xs) = at(&mut j, &path) else { continue };
            if xs.is_empty() { continue; }
            match surgery { 0 => { xs.pop(); } 1 => { xs.clear(); } _ => { let l = xs.last().unwrap().clone(); xs.push(l); } }
            check(e, format!("ctl surgery{surgery} {cls}"), j);
        }
        // options of one table: Some → None
        for field in [vec!["proof", "auxiliary_polys_cap"], vec!["proof", "quotient_polys_cap"], vec!["proof", "openings", "auxiliary_polys"], vec!["proof", "openings", "auxiliary_polys_next"], vec!["proof", "openings", "ctl_zs_first"], vec!["proof", "openings", "quotient_polys"]] {
            let mut j = json.clone();
            let t = r.below(N as u64) as usize;
            let mut cur = &mut j[t];
            for f in &field { cur = cur.get_mut(*f).unwrap(); }
            if cur.is_null() { continue; }
            *cur = Value::Null;
            check(e, format!("ctl option {} Some→None", field.join(".")), j);
        }
        // the proofs of two tables exchanged
        if N >= 2 {
            let mut j = json.clone();
            if let Value::Array(xs) = &mut j { xs.swap(0, 1); }
            check(e, "ctl two tables' proofs exchanged".into(), j);
        }
    }

    fn outcome<const N: usize>(airs: &[Arc<Air>; N], traces: &[Vec<Vec<F>>; N], specs: &[CtlSpec], config: &StarkConfig) -> String {
        let ctls: Vec<CrossTableLookup<F>> = specs.iter().map(|s| s.to_ctl()).collect();
        let r = std::panic::catch_unwind(std::panic::AssertUnwindSafe(|| {
            let proofs = match prove_multi(airs, traces, &ctls, config) { Ok(p) => p, Err(e) => return format!("PROVE-ERR {e:#}") };
            match verify_multi(airs, &proofs, &ctls, config) { Ok(()) => "ACCEPT".to_string(), Err(e) => format!("REJECT {e:#}") }
        }));
        r.unwrap_or_else(|p| format!("PANIC {}", p.downcast_ref::<String>().cloned().or_else(|| p.downcast_ref::<&str>().map(|s| s.to_string())).unwrap_or_default()))
    }

    fn fe(x: u64) -> F { F::from_noncanonical_u64(x) }

    /// Two or three tables. Table 0 and (if present) table 2 look pairs (a, b) — table 0 twice, with
    /// two different column pairs and filters — into table 1, whose filter column carries the
    /// multiplicity of each row.
    /// `verify_cross_table_lookups_circuit` against the native `verify_cross_table_lookups` on the same
    /// first-row openings: equal sums must be accepted by both, any other relation rejected by both —
    /// whatever values the circuit's other targets hold (the first virtual target of the circuit is
    /// given a random non-zero value: F-C10-5 was an `unwrap_or_default()` on an `Option<Target>` that
    /// silently added `VirtualTarget { index: 0 }` to the looking sum).
    fn ctl_circuit_vs_native(e: &mut Emitter, r: &mut Rng, thorough: bool) {
        use plonky2::iop::witness::{PartialWitness, WitnessWrite};
        use plonky2::plonk::circuit_builder::CircuitBuilder;
        use plonky2::plonk::circuit_data::CircuitConfig;
        use starky::cross_table_lookup::verify_cross_table_lookups_circuit;
        use starky::lookup::{Column, Filter};
        for rep in 0..(if thorough { 6 } else { 2 }) {
            let nch = 1 + (rep % 3);
            let mut config = StarkConfig::standard_fast_config();
            config.num_challenges = nch;
            let two_looking = rep % 2 == 1;
            let mk_ctls = || -> Vec<CrossTableLookup<F>> {
                let looking = |_: usize| TableWithColumns::new(0, Column::singles([0, 1]).collect(), Filter::new_simple(Column::single(2)));
                let mut l = vec![looking(0)];
                if two_looking { l.push(TableWithColumns::new(0, Column::singles([1, 0]).collect(), Filter::new_simple(Column::single(2)))); }
                vec![CrossTableLookup::new(l, TableWithColumns::new(1, Column::singles([0, 1]).collect(), Filter::new_simple(Column::single(2))))]
            };
            // one running sum per (table, challenge): two looking entries of one table share it
            let per_table0 = nch;
            e.stage("building a circuit around verify_cross_table_lookups_circuit");
            let built = std::panic::catch_unwind(std::panic::AssertUnwindSafe(|| {
                let mut b = CircuitBuilder::<F, 2>::new(CircuitConfig::standard_recursion_config());
                let t_first = b.add_virtual_target();
                let t0 = b.add_virtual_targets(per_table0);
                let t1 = b.add_virtual_targets(nch);
                verify_cross_table_lookups_circuit::<F, 2, 2>(&mut b, mk_ctls(), [t0.clone(), t1.clone()], &HashMap::new(), &config);
                (b.build::<C>(), t_first, t0, t1)
            }));
            let Ok((data, t_first, t0, t1)) = built else { e.oracle_failures.push("verify_cross_table_lookups_circuit could not be laid out".into()); continue; };
            for variant in 0..4 {
                let first = F::from_canonical_u64(1 + r.below(P - 1));
                let z0: Vec<F> = (0..per_table0).map(|_| F::from_canonical_u64(r.below(P))).collect();
                // looked opening per challenge: the sum of this challenge's looking openings (+ an offset)
                let offs = match variant { 0 => F::ZERO, 1 => first, 2 => F::ONE, _ => F::from_canonical_u64(r.below(P)) };
                let z1: Vec<F> = (0..nch).map(|c| {
                    let sum = z0[c];
                    sum + if variant == 3 && c > 0 { F::ZERO } else { offs }
                }).collect();
                let native = verify_cross_table_lookups::<F, 2, 2>(&mk_ctls(), [z0.clone(), z1.clone()], &HashMap::new(), &config).is_ok();
                let circ = std::panic::catch_unwind(std::panic::AssertUnwindSafe(|| -> anyhow::Result<()> {
                    let mut pw = PartialWitness::new();
                    pw.set_target(t_first, first)?;
                    for (t, v) in t0.iter().zip(&z0) { pw.set_target(*t, *v)?; }
                    for (t, v) in t1.iter().zip(&z1) { pw.set_target(*t, *v)?; }
                    let p = data.prove(pw)?;
                    data.verify(p)
                }));
                let circ = matches!(circ, Ok(Ok(())));
                e.count(&format!("ctl sums native vs circuit: variant {variant} native={native} circuit={circ}"));
                if native != circ {
                    e.oracle_failures.push(format!("verify_cross_table_lookups_circuit {} where the native verify_cross_table_lookups {} (challenges {nch}, looking entries {}, looked − Σlooking = {} for the first challenge, first virtual target of the circuit = {})",
                        if circ { "ACCEPTS" } else { "REJECTS" }, if native { "accepts" } else { "rejects" }, if two_looking { 2 } else { 1 }, offs.to_canonical_u64(), first.to_canonical_u64()));
                }
            }
        }
    }

    pub fn emit(e: &mut Emitter, r: &mut Rng, thorough: bool) {
        ctl_circuit_vs_native(e, r, thorough);
        let n_sys = if thorough { 13 } else { 4 };
        for sys in 0..n_sys {
            // The CTL terms the library adds include last-row constraints of degree 2 (`combine · Z − filter`
            // times the Lagrange selector): by the library's own degree rule they need
            // `constraint_degree() ≥ 3`. Nothing checks that; with 2 the honest proofs are silently
            // invalid (quotient too short). One probe per run records it, the systems use 3.
            let degree = if sys == 0 { 2 } else { 3 };
            let three = r.coin();
            let cheap = sys % 3 != 2;
            let config = {
                let mut c = gen_stark_config(r, cheap, 1);
                // every table must be at least as high as the cap
                c.fri_config.cap_height = c.fri_config.cap_height.min(2);
                c
            };
            let n0 = 1usize << r.range(3, 5);
            let n1 = 1usize << r.range(3, 6);
            let n2 = 1usize << r.range(3, 4);
            // looking sides: (cols 0,1 filtered by col 4), (cols 2, 3+next… kept simple: cols 2,3 filtered by col 5)
            let lin = r.coin();
            // tuples of three columns (0, 1, 3) in every second system: the challenge combination
            // `Σ tᵢ·βⁱ + γ` must weigh EVERY entry with its own power of β
            let wide = sys % 2 == 1;
            let data_cols: Vec<usize> = if wide { vec![0, 1, 3] } else { vec![0, 1] };
            let side_a = Side { table: 0, columns: data_cols.iter().map(|&c| ColSpec::single(c)).collect(), filter: FilterSpec { products: vec![], constants: vec![ColSpec::single(4)] } };
            let side_b = Side {
                table: 0,
                columns: if lin { vec![ColSpec { lc: vec![(2, 3), (3, 1)], next: vec![], c: 5 }, ColSpec::single_next(3)] } else { vec![ColSpec::single(2), ColSpec::single(3)] },
                filter: FilterSpec { products: vec![], constants: vec![ColSpec::single(5)] },
            };
            let side_c = Side { table: 2, columns: if wide { vec![ColSpec::single(1), ColSpec::single(0), ColSpec::single(3)] } else { vec![ColSpec::single(1), ColSpec::single(0)] }, filter: FilterSpec { products: vec![(ColSpec::single(4), ColSpec::single(5))], constants: vec![] } };
            let looked = Side { table: 1, columns: data_cols.iter().map(|&c| ColSpec::single(c)).collect(), filter: FilterSpec { products: vec![], constants: vec![ColSpec::single(2)] } };
            let mut looking = vec![side_a.clone()];
            if !wide && r.coin() { looking.push(side_b.clone()); }
            if three { looking.push(side_c.clone()); }
            let spec = CtlSpec { looking, looked };
            // traces: random cells, boolean filters; the looked table collects every filtered pair
            let mk = |r: &mut Rng, n: usize| -> Vec<Vec<F>> { (0..n).map(|_| vec![fe(r.below(20)), fe(r.below(20)), fe(r.below(20)), fe(r.below(20)), fe(r.below(2)), fe(r.below(2))]).collect() };
            let t0 = mk(r, n0);
            let t2 = mk(r, n2);
            let mut t1 = mk(r, n1);
            for row in t1.iter_mut() { row[2] = F::ZERO; }
            let mut traces: Vec<Vec<Vec<F>>> = vec![t0, t1, t2];
            let mut pairs: BTreeMap<Vec<u64>, F> = Default::default();
            for s in &spec.looking {
                let rows = &traces[s.table];
                for rr in 0..rows.len() {
                    let w = s.filter.eval_row(rows, rr);
                    if w != F::ZERO { *pairs.entry(s.columns.iter().map(|c| c.eval_row(rows, rr).to_canonical_u64()).collect()).or_insert(F::ZERO) += w; }
                }
            }
            if pairs.len() > n1 { e.count("ctl: looked table too short for the generated pairs (skipped)"); continue; }
            for (i, (t, w)) in pairs.iter().enumerate() { for (j, &c) in data_cols.iter().enumerate() { traces[1][i][c] = fe(t[j]); } traces[1][i][2] = *w; }
            let boolean = |c: usize| (Kind::All, mul(loc(c), sub(loc(c), lit(1))));
            let mut airs3: [Arc<Air>; 3] = [table_air(degree, vec![boolean(4), boolean(5)]), table_air(degree, vec![]), table_air(degree, vec![boolean(4)])];
            // every fourth system: table 0 also declares a column lookup of its own (column 0 looked up in
            // itself with frequency 1), so that lookup helper columns and CTL columns share the auxiliary polynomials
            let own_lookup = sys % 4 == 3 && degree == 3;
            if own_lookup {
                let mut a = (*airs3[0]).clone();
                a.lookups = vec![LookupSpec { columns: vec![ColSpec::single(0)], table: ColSpec::single(0), freq: ColSpec::constant(1), filters: vec![FilterSpec::always()] }];
                airs3[0] = Arc::new(a);
            }
            let what = format!("CTL system {sys}: D={degree} own lookup in table 0={own_lookup} tuple width={} tables={} looking sides={} linear/next columns={lin} rows=({n0},{n1},{n2})", data_cols.len(), if three { 3 } else { 2 }, spec.looking.len());
            let run = |traces: &Vec<Vec<Vec<F>>>, spec: &CtlSpec| -> String {
                if three {
                    outcome::<3>(&airs3, &[traces[0].clone(), traces[1].clone(), traces[2].clone()], std::slice::from_ref(spec), &config)
                } else {
                    outcome::<2>(&[airs3[0].clone(), airs3[1].clone()], &[traces[0].clone(), traces[1].clone()], std::slice::from_ref(spec), &config)
                }
            };
            let nt = if three { 3 } else { 2 };
            let holds = spec.holds(&traces[..nt]);
            e.case("ctlsat: generated system", ctlsat_request(&traces[..nt], std::slice::from_ref(&spec)), || if holds { "HOLDS".into() } else { "FAILS".to_string() });
            if !holds { e.oracle_failures.push(format!("GENERATOR: CTL does not hold on the generated traces: {what}")); continue; }
            e.stage(&format!("proving {what}"));
            let v = run(&traces, &spec);
            if degree == 2 {
                e.count(&format!("ctl: constraint_degree()=2 on tables with CTLs (under-declared degree) → {}", v.split(' ').next().unwrap_or("")));
                continue;
            }
            if v != "ACCEPT" {
                if v.starts_with("PANIC") && crate::c09::loud_refusal(&v).is_some() { e.count("ctl: inadmissible configuration"); } else { e.oracle_failures.push(format!("CTL holds but the system is not accepted ({v}): {what}")); }
                continue;
            }
            e.count(&format!("ctl: accepted system D={degree} tables={nt}"));
            if cheap {
                if three {
                    exact_multi::<3>(e, r, &airs3, &[traces[0].clone(), traces[1].clone(), traces[2].clone()], std::slice::from_ref(&spec), &config, &what);
                } else {
                    exact_multi::<2>(e, r, &[airs3[0].clone(), airs3[1].clone()], &[traces[0].clone(), traces[1].clone()], std::slice::from_ref(&spec), &config, &what);
                }
            }
            // single-value corruptions on either side
            let mut variants: Vec<(String, Vec<Vec<Vec<F>>>)> = vec![];
            let mut tr = traces.clone(); let rr = r.below(n0 as u64) as usize; tr[0][rr][0] += F::ONE; variants.push((format!("looking value (0,{rr},0) altered"), tr));
            let mut tr = traces.clone(); let rr = r.below(n0 as u64) as usize; tr[0][rr][4] = F::ONE - tr[0][rr][4]; variants.push((format!("looking filter (0,{rr}) flipped"), tr));
            let mut tr = traces.clone(); let rr = r.below(pairs.len().max(1) as u64) as usize; tr[1][rr][1] += F::ONE; variants.push((format!("looked value (1,{rr},1) altered"), tr));
            let mut tr = traces.clone(); let rr = r.below(pairs.len().max(1) as u64) as usize; tr[1][rr][2] += F::ONE; variants.push((format!("looked multiplicity (1,{rr}) + 1"), tr));
            let mut tr = traces.clone(); let rr = r.below(n1 as u64) as usize; tr[1][rr][3] += F::ONE; variants.push((format!("unrelated cell (1,{rr},3) altered"), tr));
            if three { let mut tr = traces.clone(); let rr = r.below(n2 as u64) as usize; tr[2][rr][1] += F::ONE; variants.push((format!("second looking table value (2,{rr},1) altered"), tr)); }
            if wide {
                // corruptions that keep the first entry and the SUM of the others: different tuples all the same
                if let Some(rr) = (0..n0).find(|&rr| traces[0][rr][4] == F::ONE && traces[0][rr][1] != traces[0][rr][3]) {
                    let mut tr = traces.clone(); tr[0][rr].swap(1, 3); variants.push((format!("looking tuple (0,{rr}): 2nd and 3rd entries exchanged"), tr));
                    let mut tr = traces.clone(); tr[0][rr][1] += F::ONE; tr[0][rr][3] -= F::ONE; variants.push((format!("looking tuple (0,{rr}): 2nd entry + 1, 3rd entry - 1"), tr));
                }
                if let Some(rr) = (0..pairs.len()).find(|&rr| traces[1][rr][1] != traces[1][rr][3]) {
                    let mut tr = traces.clone(); tr[1][rr].swap(1, 3); variants.push((format!("looked tuple (1,{rr}): 2nd and 3rd entries exchanged"), tr));
                }
            }
            for (name, tr) in variants {
                let holds = spec.holds(&tr[..nt]);
                e.case("ctlsat: corrupted system", ctlsat_request(&tr[..nt], std::slice::from_ref(&spec)), || if holds { "HOLDS".into() } else { "FAILS".to_string() });
                // the boolean constraints of the tables may be hit as well (filter flips keep them)
                let tables_ok = (0..nt).all(|i| airs3[i].first_violation(&tr[i], &[]).is_none());
                e.stage(&format!("proving a corrupted CTL system ({name}) of {what}"));
                let v = run(&tr, &spec);
                let class = if v == "ACCEPT" { "ACCEPT" } else if v.starts_with("REJECT") { "REJECT" } else if v.starts_with("PANIC") { "PANIC" } else { "PROVE-ERR" };
                e.count(&format!("ctl: {} after corruption → {class}", if holds && tables_ok { "still holds" } else { "broken" }));
                if (!holds || !tables_ok) && v == "ACCEPT" { e.oracle_failures.push(format!("CTL BROKEN ({name}) but the system is ACCEPTED: {what}")); }
                if holds && tables_ok && v != "ACCEPT" { e.oracle_failures.push(format!("CTL still holds after {name} but the system is not accepted ({v}): {what}")); }
            }
        }
    }
}
