//! Shared helpers: one SplitMix64 stream, request/answer writers, histogram.
use std::collections::BTreeMap;
use std::fs::File;
use std::io::{BufWriter, Write};
use std::panic::{catch_unwind, AssertUnwindSafe};
use std::path::Path;

#[derive(Clone)]
pub struct Rng(pub u64);
impl Rng {
    pub fn new(seed: u64) -> Self {
        Rng(seed ^ 0x9E3779B97F4A7C15)
    }
    pub fn next(&mut self) -> u64 {
        self.0 = self.0.wrapping_add(0x9E3779B97F4A7C15);
        let mut z = self.0;
        z = (z ^ (z >> 30)).wrapping_mul(0xBF58476D1CE4E5B9);
        z = (z ^ (z >> 27)).wrapping_mul(0x94D049BB133111EB);
        z ^ (z >> 31)
    }
    pub fn below(&mut self, n: u64) -> u64 {
        if n == 0 {
            0
        } else {
            self.next() % n
        }
    }
    pub fn range(&mut self, lo: u64, hi_incl: u64) -> u64 {
        lo + self.below(hi_incl - lo + 1)
    }
    pub fn pick<'a, T>(&mut self, xs: &'a [T]) -> &'a T {
        &xs[self.below(xs.len() as u64) as usize]
    }
    pub fn coin(&mut self) -> bool {
        self.next() & 1 == 1
    }
}

pub const P: u64 = 0xFFFF_FFFF_0000_0001;
pub const EPS: u64 = 0xFFFF_FFFF;

/// Boundary words of the 64-bit field representation.
pub fn boundary() -> Vec<u64> {
    vec![
        0, 1, 2, EPS - 1, EPS, EPS + 1, 1 << 32, 1 << 63, P - 2, P - 1, P, P + 1,
        u64::MAX - 1, u64::MAX, (1 << 63) - 1, (1 << 63) + 1, P / 2, P / 2 + 1,
        0xFFFF_FFFF_FFFF_0000, 0x0000_0000_FFFF_FFFE, 0xFFFF_FFFE_FFFF_FFFF,
    ]
}

/// A word drawn from a mixture: boundary, near-boundary, canonical random, any random.
pub fn word(r: &mut Rng) -> u64 {
    match r.below(8) {
        0 => *r.pick(&boundary()),
        1 => P.wrapping_add(r.below(EPS)), // non-canonical
        2 => r.below(1 << 32),
        3 => u64::MAX - r.below(1 << 20),
        4 => (r.next() & 0xFFFF_FFFF) << 32 | 0xFFFF_FFFF,
        _ => {
            if r.coin() {
                r.below(P)
            } else {
                r.next()
            }
        }
    }
}

const STAGE_WIDTH: usize = 4096;

pub struct Emitter {
    req: BufWriter<File>,
    ans: BufWriter<File>,
    pub hist: BTreeMap<String, u64>,
    pub n: u64,
    pub samples: Vec<String>,
    pub oracle_failures: Vec<String>,
    stage_file: File,
    stage_long: bool,
    pub extra_json: Option<serde_json::Value>,
}

impl Emitter {
    pub fn new(dir: &Path) -> Self {
        std::fs::create_dir_all(dir).unwrap();
        Emitter {
            req: BufWriter::new(File::create(dir.join("req.txt")).unwrap()),
            ans: BufWriter::new(File::create(dir.join("impl.txt")).unwrap()),
            hist: BTreeMap::new(),
            n: 0,
            samples: vec![],
            oracle_failures: vec![],
            stage_file: File::create(dir.join("stage.txt")).unwrap(),
            stage_long: false,
            extra_json: None,
        }
    }
    /// Note what the harness is about to do outside a `case` (building / proving a circuit …):
    /// if the process dies there, check.py reports this description instead of blaming a request.
    pub fn stage(&mut self, what: &str) {
        // one positional write into an open file (fixed-width record, space padded): no truncation,
        // no metadata traffic — a per-case create/truncate costs a block-layer wait under I/O load
        use std::os::unix::fs::FileExt;
        let mut rec = what.as_bytes().to_vec();
        if self.stage_long {
            let _ = self.stage_file.set_len(0);
        }
        self.stage_long = rec.len() > STAGE_WIDTH;
        if rec.len() < STAGE_WIDTH {
            rec.resize(STAGE_WIDTH, b' ');
        }
        let _ = self.stage_file.write_all_at(&rec, 0);
    }
    /// Record one case: the request line and the implementation's answer (PANIC if it unwinds).
    pub fn case<Fun: FnOnce() -> String>(&mut self, class: &str, req: String, f: Fun) {
        // the request is on disk before the real code runs: if the process dies (segfault, abort,
        // allocation failure) the last line of req.txt names the case that killed it
        writeln!(self.req, "{}", req).unwrap();
        self.req.flush().unwrap();
        self.stage("case");
        let ans = match catch_unwind(AssertUnwindSafe(f)) {
            Ok(s) => s,
            Err(_) => "PANIC".to_string(),
        };
        debug_assert!(!req.contains('\n') && !ans.contains('\n'));
        writeln!(self.ans, "{}", ans).unwrap();
        self.stage("between cases");
        *self.hist.entry(class.to_string()).or_insert(0) += 1;
        if self.samples.len() < 12 && (self.n % 97 == 0) {
            self.samples.push(format!("{} => {}", req, ans));
        }
        self.n += 1;
    }
    pub fn count(&mut self, class: &str) {
        *self.hist.entry(class.to_string()).or_insert(0) += 1;
    }
    pub fn finish(mut self, dir: &Path, mut extra: serde_json::Value) {
        extra["oracle_failures"] = serde_json::json!(self.oracle_failures);
        self.req.flush().unwrap();
        self.ans.flush().unwrap();
        let meta = serde_json::json!({
            "requests": self.n,
            "histogram": self.hist,
            "samples": self.samples,
            "extra": extra,
        });
        std::fs::write(dir.join("meta.json"), serde_json::to_string_pretty(&meta).unwrap()).unwrap();
    }
}

pub fn join<T: std::fmt::Display>(xs: impl IntoIterator<Item = T>) -> String {
    xs.into_iter().map(|x| x.to_string()).collect::<Vec<_>>().join(" ")
}

pub fn quiet_panics() {
    std::panic::set_hook(Box::new(|_| {}));
}
