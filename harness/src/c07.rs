//! C07: every value a gate computes is pinned by that gate's constraints.
//!
//! For every built-in gate and a sweep of its parameters this module runs the REAL evaluators
//! (`eval_unfiltered` over the extension field, `eval_unfiltered_base_batch` with batch sizes 1, 2
//! and 33, and for a subset `eval_unfiltered_circuit` through a built circuit) and the gate's own
//! witness generators, and emits
//!   c07 meta <checked> <gate>                                  -> num_constraints degree num_wires num_constants
//!   c07 eval <field> <gate> <nc> consts… <nw> wires… pih(4)    -> constraint values
//!   c07 gen  <gate> <nc> consts… <nw> wires…                   -> the row after the generators ran, " W ", the columns they wrote
//! (`<gate>` = `dump_gate` encoding, field 1 = base field, 2 = extension field with two naturals per
//! value).  The property's own oracles are checked here, on the implementation side, and every
//! violation is appended to `Emitter::oracle_failures` (-> meta.json extra.oracle_failures) AND made
//! visible in the answer text:
//!   (i)   a row filled in by the generators makes every constraint zero;
//!   (ii)  replacing one generator-written value by v+1 / 0 / a random value makes some constraint
//!         non-zero (the perturbed rows are also sent as `eval` requests);
//!   (iii) every evaluator returns exactly `num_constraints()` values, and all evaluators agree;
//!   (iv)  the constraints have degree at most `degree()` (the `test_low_degree` experiment).
//! Contracts of the gadgets feeding the gates are respected when rows are generated: exponentiation
//! power bits are boolean, random-access indices are < 2^bits, base-sum inputs are < base^limbs,
//! the Poseidon swap flag is boolean, the coset-interpolation shift is non-zero.
use std::panic::{catch_unwind, AssertUnwindSafe};
use std::sync::Arc;

use plonky2::field::extension::FieldExtension;
use plonky2::field::goldilocks_field::GoldilocksField as F;
use plonky2::field::interpolation::barycentric_weights;
use plonky2::field::polynomial::{PolynomialCoeffs, PolynomialValues};
use plonky2::field::types::{Field, PrimeField64};
use plonky2::gates::arithmetic_base::ArithmeticGate;
use plonky2::gates::arithmetic_extension::ArithmeticExtensionGate;
use plonky2::gates::base_sum::BaseSumGate;
use plonky2::gates::constant::ConstantGate;
use plonky2::gates::coset_interpolation::CosetInterpolationGate;
use plonky2::gates::exponentiation::ExponentiationGate;
use plonky2::gates::gate::{Gate, GateRef};
use plonky2::gates::lookup::LookupGate;
use plonky2::gates::lookup_table::LookupTableGate;
use plonky2::gates::multiplication_extension::MulExtensionGate;
use plonky2::gates::noop::NoopGate;
use plonky2::gates::poseidon::PoseidonGate;
use plonky2::gates::poseidon_mds::PoseidonMdsGate;
use plonky2::gates::public_input::PublicInputGate;
use plonky2::gates::random_access::RandomAccessGate;
use plonky2::gates::reducing::ReducingGate;
use plonky2::gates::reducing_extension::ReducingExtensionGate;
use plonky2::hash::hash_types::{HashOut, HashOutTarget};
use plonky2::iop::ext_target::ExtensionTarget;
use plonky2::iop::generator::{generate_partial_witness, GeneratedValues};
use plonky2::iop::target::Target;
use plonky2::iop::wire::Wire;
use plonky2::iop::witness::{PartialWitness, PartitionWitness, Witness, WitnessWrite};
use plonky2::plonk::circuit_builder::CircuitBuilder;
use plonky2::plonk::circuit_data::{CircuitConfig, CircuitData};
use plonky2::plonk::config::PoseidonGoldilocksConfig;
use plonky2::plonk::vars::{EvaluationTargets, EvaluationVars, EvaluationVarsBaseBatch};
use plonky2::util::{log2_ceil, transpose};

use crate::dump::{dump_gate, FE};
use crate::util::*;

type C = PoseidonGoldilocksConfig;
const D: usize = 2;
type G = GateRef<F, D>;

const NAMES: [&str; 16] = [
    "arithmetic", "arithmeticExt", "mulExt", "baseSum", "constant", "cosetInterpolation", "exponentiation",
    "lookup", "lookupTable", "noop", "poseidon", "poseidonMds", "publicInput", "randomAccess", "reducing",
    "reducingExt",
];

// ------------------------------------------------------------------------------------------------
// values

fn f(x: u64) -> F {
    F::from_canonical_u64(x % P)
}
/// a field element from a mixture of boundary and random values
fn fe(r: &mut Rng) -> F {
    f(match r.below(10) {
        0 => 0,
        1 => 1,
        2 => P - 1,
        3 => 2,
        4 => r.below(1 << 16),
        _ => r.below(P),
    })
}
fn rnd(r: &mut Rng) -> F {
    f(r.below(P))
}
fn embed(xs: &[F]) -> Vec<FE> {
    xs.iter().map(|&x| <FE as FieldExtension<D>>::from_basefield_array([x, F::ZERO])).collect()
}
/// a genuinely two-dimensional extension element (second coordinate non-zero most of the time)
fn fe2(r: &mut Rng) -> FE {
    let a = fe(r);
    let b = if r.below(6) == 0 { fe(r) } else { rnd(r) };
    <FE as FieldExtension<D>>::from_basefield_array([a, b])
}
fn can(xs: &[F]) -> String {
    join(xs.iter().map(|x| x.to_canonical_u64()))
}
fn can2(xs: &[FE]) -> String {
    join(xs.iter().flat_map(|x| x.0).map(|x: F| x.to_canonical_u64()))
}
fn is_zero(xs: &[F]) -> bool {
    xs.iter().all(|x| x.is_zero())
}

/// true when this binary was built with arithmetic overflow checks
fn overflow_checked() -> bool {
    catch_unwind(|| {
        let z: usize = std::hint::black_box(0);
        std::hint::black_box(z - 1)
    })
    .is_err()
}

// ------------------------------------------------------------------------------------------------
// evaluators

fn eval_ext(g: &G, consts: &[FE], wires: &[FE], pih: &HashOut<F>) -> Vec<FE> {
    g.0.eval_unfiltered(EvaluationVars { local_constants: consts, local_wires: wires, public_inputs_hash: pih })
}

/// `eval_unfiltered_base_batch` on a batch of (constants, wires) points; per point its constraint list.
fn eval_base_batch(g: &G, rows: &[(&[F], &[F])], pih: &HashOut<F>) -> Vec<Vec<F>> {
    let bs = rows.len();
    let nc = rows[0].0.len();
    let nw = rows[0].1.len();
    // wire-major layout: value of wire w at point p is at w * bs + p
    let mut fc = Vec::with_capacity(nc * bs);
    for c in 0..nc {
        for row in rows {
            fc.push(row.0[c]);
        }
    }
    let mut fw = Vec::with_capacity(nw * bs);
    for w in 0..nw {
        for row in rows {
            fw.push(row.1[w]);
        }
    }
    let out = g.0.eval_unfiltered_base_batch(EvaluationVarsBaseBatch::new(bs, &fc, &fw, pih));
    // constraint j of point p is at j * bs + p
    let ncons = out.len() / bs;
    (0..bs).map(|p| (0..ncons).map(|j| out[j * bs + p]).collect()).collect()
}

fn eval_base(g: &G, consts: &[F], wires: &[F], pih: &HashOut<F>) -> Vec<F> {
    eval_base_batch(g, &[(consts, wires)], pih).pop().unwrap()
}

/// A circuit whose virtual targets are a gate's constants / wires / public-input hash and in which
/// `eval_unfiltered_circuit` has been laid out (as `gate_testing::test_eval_fns` does); the in-circuit
/// constraint values are read back from the generated witness.
struct CircuitEval {
    data: CircuitData<F, C, D>,
    consts_t: Vec<ExtensionTarget<D>>,
    wires_t: Vec<ExtensionTarget<D>>,
    pih_t: HashOutTarget,
    evals_t: Vec<ExtensionTarget<D>>,
}

impl CircuitEval {
    fn build(g: &G, config: CircuitConfig) -> Self {
        let mut builder = CircuitBuilder::<F, D>::new(config);
        let wires_t = builder.add_virtual_extension_targets(g.0.num_wires());
        let consts_t = builder.add_virtual_extension_targets(g.0.num_constants());
        let pih_t = builder.add_virtual_hash();
        let evals_t = g.0.eval_unfiltered_circuit(
            &mut builder,
            EvaluationTargets { local_constants: &consts_t, local_wires: &wires_t, public_inputs_hash: &pih_t },
        );
        let data = builder.build::<C>();
        CircuitEval { data, consts_t, wires_t, pih_t, evals_t }
    }
    fn run(&self, consts: &[FE], wires: &[FE], pih: &HashOut<F>) -> Result<Vec<FE>, String> {
        let mut pw = PartialWitness::new();
        pw.set_extension_targets(&self.wires_t, wires).map_err(|e| e.to_string())?;
        pw.set_extension_targets(&self.consts_t, consts).map_err(|e| e.to_string())?;
        pw.set_hash_target(self.pih_t, *pih).map_err(|e| e.to_string())?;
        let wit = generate_partial_witness(pw, &self.data.prover_only, &self.data.common).map_err(|e| e.to_string())?;
        Ok(self.evals_t.iter().map(|&t| wit.get_extension_target(t)).collect())
    }
}

// ------------------------------------------------------------------------------------------------
// witness generation

struct GenRow {
    wires: Vec<F>,
    /// columns whose value was produced by a generator
    written: Vec<bool>,
}

/// Run the gate's own generators (`gate.generators(0, consts)`) on a one-row witness whose input
/// columns are `inputs`, with the scheduling loop of `generate_partial_witness`.
fn run_generators(g: &G, consts: &[F], inputs: &[(usize, F)], nw: usize) -> Result<GenRow, String> {
    let n = nw.max(1);
    let map: Vec<usize> = (0..n).collect();
    let mut wit = PartitionWitness::new(n, 1, &map);
    for &(c, v) in inputs {
        wit.set_target(Target::wire(0, c), v).map_err(|e| format!("input conflict: {e}"))?;
    }
    let gens = g.0.generators(0, consts);
    let mut done = vec![false; gens.len()];
    let mut written = vec![false; nw];
    loop {
        let mut progress = false;
        for (i, gen) in gens.iter().enumerate() {
            if done[i] {
                continue;
            }
            let mut buf = GeneratedValues::with_capacity(0);
            let finished = gen.0.run(&wit, &mut buf);
            for (t, v) in buf.target_values {
                match t {
                    Target::Wire(Wire { row: 0, column }) if column < nw => written[column] = true,
                    _ => return Err(format!("generator {} wrote outside its row: {:?}", gen.0.id(), t)),
                }
                wit.set_target(t, v).map_err(|e| format!("generator {} conflict: {e}", gen.0.id()))?;
            }
            if finished {
                done[i] = true;
                progress = true;
            }
        }
        if !progress {
            break;
        }
    }
    if done.iter().any(|d| !d) {
        return Err(format!("{} generators weren't run", done.iter().filter(|d| !**d).count()));
    }
    let wires = (0..nw).map(|c| wit.try_get_wire(Wire { row: 0, column: c }).unwrap_or(F::ZERO)).collect();
    Ok(GenRow { wires, written })
}

/// The same row through the real pipeline: `builder.add_gate`, `build`, `generate_partial_witness`.
fn run_generators_in_circuit<GT: Gate<F, D>>(gate: GT, consts: &[F], inputs: &[(usize, F)], nw: usize) -> Result<Vec<F>, String> {
    let mut builder = CircuitBuilder::<F, D>::new(CircuitConfig::standard_recursion_config());
    let row = builder.add_gate(gate, consts.to_vec());
    let data = builder.build::<C>();
    let mut pw = PartialWitness::new();
    for &(c, v) in inputs {
        pw.set_target(Target::wire(row, c), v).map_err(|e| e.to_string())?;
    }
    let wit = generate_partial_witness(pw, &data.prover_only, &data.common).map_err(|e| e.to_string())?;
    Ok((0..nw).map(|c| wit.try_get_wire(Wire { row, column: c }).unwrap_or(F::ZERO)).collect())
}

/// Input columns of a gate row (the columns its generators depend on, plus the routed-constant
/// columns that the builder's constant generators would fill), with values that respect the
/// contracts listed in the module comment.  `None`: the gate has no row-local generators to test.
fn gen_inputs(enc: &[u64], consts: &[F], pih: &HashOut<F>, r: &mut Rng) -> Option<Vec<(usize, F)>> {
    let tag = enc[0];
    let p = &enc[2..];
    let mut v: Vec<(usize, F)> = vec![];
    let mut put = |c: usize, x: F| v.push((c, x));
    match tag {
        0 => {
            for i in 0..p[0] as usize {
                for k in 0..3 {
                    put(4 * i + k, fe(r));
                }
            }
        }
        1 => {
            for i in 0..p[0] as usize {
                for k in 0..6 {
                    put(8 * i + k, fe(r));
                }
            }
        }
        2 => {
            for i in 0..p[0] as usize {
                for k in 0..4 {
                    put(6 * i + k, fe(r));
                }
            }
        }
        3 => {
            // sum < base^limbs (and canonical)
            let (base, limbs) = (p[0] as u128, p[1] as u32);
            let bound = base.pow(limbs).min(P as u128) as u64;
            let x = match r.below(6) {
                0 => 0,
                1 => bound - 1,
                2 => 1 % bound,
                _ => r.below(bound),
            };
            put(0, f(x));
        }
        4 => {
            for i in 0..p[0] as usize {
                put(i, consts[i]);
            }
        }
        5 => {
            let n = 1usize << p[0];
            let shift = loop {
                let s = fe(r);
                if !s.is_zero() {
                    break s;
                }
            };
            put(0, shift);
            for c in 1..1 + 2 * n + 2 {
                put(c, fe(r));
            }
        }
        6 => {
            let n = p[0] as usize;
            put(0, fe(r));
            let all = r.below(8);
            for i in 0..n {
                let bit = match all {
                    0 => 0,
                    1 => 1,
                    _ => r.below(2),
                };
                put(1 + i, f(bit));
            }
        }
        7 | 8 | 9 => return None,
        10 => {
            for i in 0..12 {
                put(i, fe(r));
            }
            put(24, f(r.below(2)));
        }
        11 => {
            for i in 0..24 {
                put(i, fe(r));
            }
        }
        12 => {
            for i in 0..4 {
                put(i, pih.elements[i]);
            }
        }
        13 => {
            let (bits, copies, extra) = (p[0] as usize, p[1] as usize, p[2] as usize);
            let vs = 1usize << bits;
            for copy in 0..copies {
                let idx = match r.below(4) {
                    0 => 0,
                    1 => vs as u64 - 1,
                    _ => r.below(vs as u64),
                };
                put((2 + vs) * copy, f(idx));
                for i in 0..vs {
                    put((2 + vs) * copy + 2 + i, fe(r));
                }
            }
            for i in 0..extra {
                put((2 + vs) * copies + i, consts[i]);
            }
        }
        14 => {
            for c in 2..6 + p[0] as usize {
                put(c, fe(r));
            }
        }
        15 => {
            for c in 2..6 + 2 * p[0] as usize {
                put(c, fe(r));
            }
        }
        _ => return None,
    }
    Some(v)
}

// ------------------------------------------------------------------------------------------------
// degree

/// `gate_testing::test_low_degree`: evaluate the gate on random witness polynomials of degree < 32
/// over an LDE domain and measure the degree of every constraint polynomial.
fn low_degree_violation(g: &G, r: &mut Rng) -> Option<String> {
    const WITNESS_SIZE: usize = 1 << 5;
    let rate_bits = log2_ceil(g.0.degree() + 1);
    let n = WITNESS_SIZE << rate_bits;
    let mut matrix = |cols: usize| -> Vec<Vec<FE>> {
        let polys: Vec<Vec<FE>> = (0..cols)
            .map(|_| {
                let coeffs: Vec<FE> = (0..WITNESS_SIZE).map(|_| <FE as FieldExtension<D>>::from_basefield_array([rnd(r), rnd(r)])).collect();
                PolynomialCoeffs::new(coeffs).lde(rate_bits).fft().values
            })
            .collect();
        if polys.is_empty() {
            vec![vec![]; n]
        } else {
            transpose(&polys)
        }
    };
    let wires = matrix(g.0.num_wires());
    let consts = matrix(g.0.num_constants());
    let pih = HashOut { elements: [rnd(r), rnd(r), rnd(r), rnd(r)] };
    let evals: Vec<Vec<FE>> = wires.iter().zip(consts.iter()).map(|(w, c)| eval_ext(g, c, w, &pih)).collect();
    if evals.iter().any(|e| e.len() != g.0.num_constraints()) {
        return Some(format!("eval_unfiltered returned {} values, num_constraints() = {}", evals[0].len(), g.0.num_constraints()));
    }
    let degrees: Vec<usize> = transpose(&evals).into_iter().map(|v| PolynomialValues::new(v).degree()).collect();
    let bound = (WITNESS_SIZE - 1) * g.0.degree();
    match degrees.iter().position(|&d| d > bound) {
        Some(j) => Some(format!("constraint {j} has degree {} > {} * degree() = {bound}", degrees[j], WITNESS_SIZE - 1)),
        None => None,
    }
}

// ------------------------------------------------------------------------------------------------
// one gate

struct Tier {
    /// random (not generated) rows per gate
    random_rows: usize,
    /// generator-filled rows per gate
    gen_rows: usize,
    /// generator-written columns whose perturbations are sent to the model, per generated row
    pert_cols: usize,
    /// all three replacement values (v+1, 0, random) per chosen column, or one of them
    pert_all_values: bool,
}

struct Ctx<'a> {
    e: &'a mut Emitter,
    r: Rng,
    tier: Tier,
    checked: bool,
}

fn head(enc: &[u64]) -> String {
    join(enc.iter())
}
fn req_eval1(enc: &[u64], consts: &[F], wires: &[F], pih: &HashOut<F>) -> String {
    format!("c07 eval 1 {} {} {} {} {} {}", head(enc), consts.len(), can(consts), wires.len(), can(wires), can(&pih.elements))
        .split_whitespace()
        .collect::<Vec<_>>()
        .join(" ")
}
fn req_eval2(enc: &[u64], consts: &[FE], wires: &[FE], pih: &HashOut<F>) -> String {
    format!("c07 eval 2 {} {} {} {} {} {}", head(enc), consts.len(), can2(consts), wires.len(), can2(wires), can(&pih.elements))
        .split_whitespace()
        .collect::<Vec<_>>()
        .join(" ")
}
fn req_gen(enc: &[u64], consts: &[F], wires: &[F]) -> String {
    format!("c07 gen {} {} {} {} {}", head(enc), consts.len(), can(consts), wires.len(), can(wires))
        .split_whitespace()
        .collect::<Vec<_>>()
        .join(" ")
}

impl Ctx<'_> {
    fn fail(&mut self, what: &str, replay: &str) {
        self.e.oracle_failures.push(format!("{what}: {replay}"));
    }

    /// Base-field request on one row: the answer is the batch-of-1 evaluator's output; the extension
    /// evaluator on the embedded row and the declared constraint count must agree with it.
    fn eval1(&mut self, g: &G, enc: &[u64], class: &str, consts: &[F], wires: &[F], pih: &HashOut<F>) -> Option<Vec<F>> {
        let req = req_eval1(enc, consts, wires, pih);
        let mut out: Option<Vec<F>> = None;
        let mut notes: Vec<String> = vec![];
        self.e.case(class, req.clone(), || {
            let base = eval_base(g, consts, wires, pih);
            let ext = eval_ext(g, &embed(consts), &embed(wires), pih);
            let mut ans = can(&base);
            if base.len() != g.0.num_constraints() || ext.len() != g.0.num_constraints() {
                notes.push(format!("constraint count base {} ext {} declared {}", base.len(), ext.len(), g.0.num_constraints()));
                ans.push_str(" COUNT-MISMATCH");
            }
            if ext != embed(&base) {
                notes.push("extension evaluator on the embedded row differs from the base evaluator".into());
                ans.push_str(&format!(" EXT-EMBED-MISMATCH {}", can2(&ext)));
            }
            out = Some(base);
            ans
        });
        for n in notes {
            self.fail(&n, &req);
        }
        out
    }

    /// Extension-field request on a genuinely non-base row.
    fn eval2(&mut self, g: &G, enc: &[u64], class: &str, consts: &[FE], wires: &[FE], pih: &HashOut<F>) {
        let req = req_eval2(enc, consts, wires, pih);
        let mut note = None;
        self.e.case(class, req.clone(), || {
            let ext = eval_ext(g, consts, wires, pih);
            let mut ans = can2(&ext);
            if ext.len() != g.0.num_constraints() {
                note = Some(format!("constraint count ext {} declared {}", ext.len(), g.0.num_constraints()));
                ans.push_str(" COUNT-MISMATCH");
            }
            ans
        });
        if let Some(n) = note {
            self.fail(&n, &req);
        }
    }
}

/// Everything for one gate instance.  `make` creates the gate as a concrete type (needed by
/// `builder.add_gate`); `in_circuit_gen` = the first generated row is also produced by the real
/// witness pipeline (`add_gate`, `build`, `generate_partial_witness`) and must be the same row;
/// `circuit` = also lay out `eval_unfiltered_circuit` in a circuit with this configuration and
/// compare its outputs.
fn run_gate<GT: Gate<F, D>>(cx: &mut Ctx, make: &dyn Fn() -> GT, in_circuit_gen: bool, circuit: Option<CircuitConfig>) {
    let g: G = GateRef::new(make());
    let enc = dump_gate(&g);
    let name = NAMES[enc[0] as usize];
    cx.e.count(&format!("{name}/gates"));

    // ---- declared shape
    let mut shape: Option<(usize, usize, usize, usize)> = None;
    cx.e.case(&format!("{name}/meta"), format!("c07 meta {} {}", cx.checked as u64, head(&enc)), || {
        let s = (g.0.num_constraints(), g.0.degree(), g.0.num_wires(), g.0.num_constants());
        shape = Some(s);
        format!("{} {} {} {}", s.0, s.1, s.2, s.3)
    });
    let Some((_ncons, _deg, nw, nc)) = shape else { return };

    let pih = HashOut { elements: [fe(&mut cx.r), rnd(&mut cx.r), rnd(&mut cx.r), rnd(&mut cx.r)] };
    // rows kept for the batch evaluations
    let mut rows: Vec<(Vec<F>, Vec<F>)> = vec![];

    // ---- random and boundary rows
    for k in 0..cx.tier.random_rows {
        let pick = |r: &mut Rng| match k {
            0 => rnd(r),
            1 => fe(r),
            2 => F::ZERO,
            3 => F::NEG_ONE,
            4 => F::ONE,
            _ => {
                if r.coin() {
                    rnd(r)
                } else {
                    fe(r)
                }
            }
        };
        let consts: Vec<F> = (0..nc).map(|_| pick(&mut cx.r)).collect();
        let wires: Vec<F> = (0..nw).map(|_| pick(&mut cx.r)).collect();
        cx.eval1(&g, &enc, &format!("{name}/eval1-random"), &consts, &wires, &pih);
        let consts2: Vec<FE> = (0..nc).map(|_| fe2(&mut cx.r)).collect();
        let wires2: Vec<FE> = (0..nw).map(|_| fe2(&mut cx.r)).collect();
        cx.eval2(&g, &enc, &format!("{name}/eval2-random"), &consts2, &wires2, &pih);
        rows.push((consts, wires));
    }

    // ---- generator-filled rows, oracles (i) and (ii)
    let mut generated: Vec<(Vec<F>, Vec<F>)> = vec![];
    for k in 0..cx.tier.gen_rows {
        let consts: Vec<F> = (0..nc).map(|_| fe(&mut cx.r)).collect();
        let Some(inputs) = gen_inputs(&enc, &consts, &pih, &mut cx.r) else { break };
        let mut blank = vec![F::ZERO; nw];
        for &(c, v) in &inputs {
            blank[c] = v;
        }
        let req = req_gen(&enc, &consts, &blank);
        let mut res: Option<Result<GenRow, String>> = None;
        cx.e.case(&format!("{name}/gen"), req.clone(), || {
            let rr = run_generators(&g, &consts, &inputs, nw);
            let ans = match &rr {
                Ok(row) => format!("{} W {}", can(&row.wires), join((0..nw).filter(|&c| row.written[c]))).trim_end().to_string(),
                Err(m) => format!("GENERATOR-ERROR {m}"),
            };
            res = Some(rr);
            ans
        });
        let row = match res {
            Some(Ok(row)) => row,
            Some(Err(m)) => {
                cx.fail(&format!("generators failed ({m})"), &req);
                continue;
            }
            None => {
                cx.fail("generators panicked", &req);
                continue;
            }
        };
        // an input column must not be overwritten with something else (set_target would have failed),
        // and the same row must come out of the real witness pipeline
        // (a gate of degree above max_quotient_degree_factor = 8 cannot be put in a standard circuit)
        if in_circuit_gen && k == 0 && g.0.degree() <= 8 {
            match catch_unwind(AssertUnwindSafe(|| run_generators_in_circuit(make(), &consts, &inputs, nw))) {
                Ok(Ok(w)) if w == row.wires => cx.e.count(&format!("{name}/gen-in-circuit-agrees")),
                Ok(Ok(_)) => cx.fail("generate_partial_witness on a built circuit gives a different row", &req),
                Ok(Err(m)) => cx.fail(&format!("generate_partial_witness failed ({m})"), &req),
                Err(_) => cx.fail("building the one-gate circuit panicked", &req),
            }
        }
        // (i) the generated row satisfies every constraint, for every evaluator
        let req_row = req_eval1(&enc, &consts, &row.wires, &pih);
        match cx.eval1(&g, &enc, &format!("{name}/eval1-generated"), &consts, &row.wires, &pih) {
            Some(vals) if is_zero(&vals) => {}
            Some(_) => cx.fail("(i) generated row violates a constraint", &req_row),
            None => cx.fail("(i) evaluator panicked on a generated row", &req_row),
        }
        // (ii) every generator-written value is pinned
        let cols: Vec<usize> = (0..nw).filter(|&c| row.written[c]).collect();
        let mut send: Vec<usize> = vec![];
        if !cols.is_empty() {
            for _ in 0..cx.tier.pert_cols.min(cols.len()) {
                send.push(*cx.r.pick(&cols));
            }
        }
        for &c in &cols {
            let v = row.wires[c];
            let mut cands = vec![v + F::ONE, F::ZERO, rnd(&mut cx.r)];
            cands.retain(|x| *x != v);
            cands.dedup();
            let which = cx.r.below(3) as usize;
            for (ci, &nv) in cands.iter().enumerate() {
                let mut w = row.wires.clone();
                w[c] = nv;
                let emit = send.contains(&c) && (cx.tier.pert_all_values || ci == which % cands.len());
                let vals = if emit {
                    cx.eval1(&g, &enc, &format!("{name}/eval1-perturbed"), &consts, &w, &pih)
                } else {
                    catch_unwind(AssertUnwindSafe(|| eval_base(&g, &consts, &w, &pih))).ok()
                };
                cx.e.count(&format!("{name}/perturbations-checked"));
                match vals {
                    Some(vals) if !is_zero(&vals) => {}
                    _ => {
                        let rq = req_eval1(&enc, &consts, &w, &pih);
                        cx.fail(&format!("(ii) replacing generator-written wire {c} ({} -> {}) is not detected", v.to_canonical_u64(), nv.to_canonical_u64()), &rq);
                    }
                }
            }
        }
        generated.push((consts.clone(), row.wires.clone()));
        rows.push((consts, row.wires));
    }

    // ---- batches of 2 and 33 against the single evaluations
    if !rows.is_empty() {
        for &bs in &[2usize, 33] {
            let batch: Vec<(Vec<F>, Vec<F>)> = (0..bs)
                .map(|i| {
                    if i < rows.len() || cx.r.coin() {
                        rows[i % rows.len()].clone()
                    } else {
                        ((0..nc).map(|_| rnd(&mut cx.r)).collect(), (0..nw).map(|_| fe(&mut cx.r)).collect())
                    }
                })
                .collect();
            let point = cx.r.below(bs as u64) as usize;
            let req = req_eval1(&enc, &batch[point].0, &batch[point].1, &pih);
            let mut bad = false;
            cx.e.case(&format!("{name}/eval1-batch{bs}"), req.clone(), || {
                let views: Vec<(&[F], &[F])> = batch.iter().map(|(c, w)| (&c[..], &w[..])).collect();
                let out = eval_base_batch(&g, &views, &pih);
                let singles: Vec<Vec<F>> = batch.iter().map(|(c, w)| eval_base(&g, c, w, &pih)).collect();
                let mut ans = can(&out[point]);
                if out != singles {
                    bad = true;
                    ans.push_str(" BATCH-MISMATCH");
                }
                ans
            });
            if bad {
                cx.fail(&format!("(iii) batch of {bs} differs from single evaluations"), &req);
            }
        }
    }

    // ---- the in-circuit evaluator
    if let Some(config) = circuit {
        match catch_unwind(AssertUnwindSafe(|| CircuitEval::build(&g, config))) {
            Err(_) => cx.fail("building the eval_unfiltered_circuit circuit panicked", &format!("c07 meta {} {}", cx.checked as u64, head(&enc))),
            Ok(ce) => {
                let mut points: Vec<(Vec<FE>, Vec<FE>)> = vec![];
                points.push(((0..nc).map(|_| fe2(&mut cx.r)).collect(), (0..nw).map(|_| fe2(&mut cx.r)).collect()));
                if let Some((c, w)) = generated.first() {
                    points.push((embed(c), embed(w)));
                }
                for (consts, wires) in points {
                    let req = req_eval2(&enc, &consts, &wires, &pih);
                    let mut note = None;
                    cx.e.case(&format!("{name}/eval2-circuit"), req.clone(), || match ce.run(&consts, &wires, &pih) {
                        Err(m) => {
                            note = Some(format!("witness generation of the evaluation circuit failed ({m})"));
                            format!("CIRCUIT-ERROR {m}")
                        }
                        Ok(vals) => {
                            let native = eval_ext(&g, &consts, &wires, &pih);
                            let mut ans = can2(&vals);
                            if vals != native {
                                note = Some("(iii) eval_unfiltered_circuit differs from eval_unfiltered".into());
                                ans.push_str(" CIRCUIT-MISMATCH");
                            }
                            ans
                        }
                    });
                    if let Some(n) = note {
                        cx.fail(&n, &req);
                    }
                }
            }
        }
    }

    // ---- (iv) declared degree
    let mut r2 = cx.r.clone();
    match catch_unwind(AssertUnwindSafe(|| low_degree_violation(&g, &mut r2))) {
        Ok(None) => cx.e.count(&format!("{name}/low-degree-ok")),
        Ok(Some(m)) => cx.fail(&format!("(iv) {m}"), &format!("c07 meta {} {}", cx.checked as u64, head(&enc))),
        Err(_) => cx.fail("(iv) low-degree experiment panicked", &format!("c07 meta {} {}", cx.checked as u64, head(&enc))),
    }
    cx.r.next();
}

// ------------------------------------------------------------------------------------------------
// the sweep

/// `CosetInterpolationGate::with_max_degree` (crate-private): same degree computation, the weights
/// of the public constructor.
fn coset_gate(bits: usize, max_degree: usize) -> CosetInterpolationGate<F, D> {
    let n_points = 1usize << bits;
    let n_intermediates = (n_points - 2) / (max_degree - 1);
    let degree = (n_points - 2) / (n_intermediates + 1) + 2;
    let points: Vec<(F, F)> = F::two_adic_subgroup(bits).into_iter().map(|x| (x, F::ZERO)).collect();
    let mut g = CosetInterpolationGate::<F, D>::default();
    g.subgroup_bits = bits;
    g.degree = degree;
    g.barycentric_weights = barycentric_weights(&points);
    g
}

fn base_sum_sweep<const B: usize>(cx: &mut Ctx, max_limbs: usize, circuit_at: usize) {
    for n in 1..=max_limbs {
        let circuit = (n == circuit_at).then(CircuitConfig::standard_recursion_config);
        run_gate(cx, &|| BaseSumGate::<B>::new(n), n == circuit_at, circuit);
    }
}

pub fn emit(e: &mut Emitter, seed: u64, thorough: bool) {
    let tier = if thorough {
        Tier { random_rows: 6, gen_rows: 6, pert_cols: 6, pert_all_values: true }
    } else {
        Tier { random_rows: 2, gen_rows: 2, pert_cols: 3, pert_all_values: false }
    };
    let mut cx = Ctx { e, r: Rng::new(seed ^ 0xC07), tier, checked: overflow_checked() };
    let std_cfg = CircuitConfig::standard_recursion_config;
    let config = std_cfg();
    // which parameter of each sweep also goes through built circuits (varies with the seed)
    let mut pick = |lo: usize, hi: usize| cx.r.range(lo as u64, hi as u64) as usize;
    let (c_arith, c_arith_ext, c_mul_ext) = (pick(1, 20), pick(1, 10), pick(1, 13));
    let (c_const, c_exp, c_ra) = (pick(1, 2), pick(1, 66), pick(1, 6));
    let (c_red, c_red_ext) = (pick(1, 40), pick(1, 32));
    let (c_coset_bits, c_coset_deg) = (pick(1, 4), pick(2, 8));
    let c_bs = [pick(1, 63), pick(1, 40), pick(1, 31), pick(1, 15)];
    let all_circuits = thorough;

    for n in 1..=20usize {
        let c = (all_circuits && n % 5 == 0 || n == c_arith).then(std_cfg);
        run_gate(&mut cx, &|| ArithmeticGate { num_ops: n }, c.is_some(), c);
    }
    for n in 1..=10usize {
        let c = (all_circuits && n % 4 == 0 || n == c_arith_ext).then(std_cfg);
        run_gate(&mut cx, &|| ArithmeticExtensionGate::<D> { num_ops: n }, c.is_some(), c);
    }
    for n in 1..=13usize {
        let c = (all_circuits && n % 4 == 0 || n == c_mul_ext).then(std_cfg);
        run_gate(&mut cx, &|| MulExtensionGate::<D> { num_ops: n }, c.is_some(), c);
    }
    // base sums: limbs 1 ..= log_floor(p − 1, B), the maximum `new_from_config` would choose
    // (so that base^limbs fits the field and a u64)
    base_sum_sweep::<2>(&mut cx, 63, c_bs[0]);
    base_sum_sweep::<3>(&mut cx, 40, c_bs[1]);
    base_sum_sweep::<4>(&mut cx, 31, c_bs[2]);
    base_sum_sweep::<16>(&mut cx, 15, c_bs[3]);
    for n in 1..=4usize {
        // the standard configuration has two constant columns
        let c = (n == c_const).then(std_cfg);
        run_gate(&mut cx, &|| ConstantGate::new(n), false, c);
    }
    let mut seen: Vec<(usize, usize)> = vec![];
    for bits in 1..=4usize {
        for d in 2..=8usize {
            let probe = coset_gate(bits, d);
            let circuit_here = bits == c_coset_bits && d == c_coset_deg;
            if seen.contains(&(bits, probe.degree)) && !circuit_here {
                continue;
            }
            seen.push((bits, probe.degree));
            let c = (circuit_here || all_circuits && d == 8).then(std_cfg);
            run_gate(&mut cx, &|| coset_gate(bits, d), c.is_some(), c);
        }
    }
    let max_pow = ExponentiationGate::<F, D>::new_from_config(&config).num_power_bits;
    for n in 1..=max_pow.min(66) {
        let c = (n == c_exp.min(max_pow)).then(std_cfg);
        run_gate(&mut cx, &|| ExponentiationGate::<F, D>::new(n), c.is_some(), c);
    }
    // random access: the standard configuration and a wider one (more copies / extra constants)
    let wide = CircuitConfig { num_wires: 170, num_routed_wires: 120, num_constants: 4, ..std_cfg() };
    for bits in 0..=6usize {
        let c = (bits == c_ra).then(std_cfg);
        run_gate(&mut cx, &|| RandomAccessGate::<F, D>::new_from_config(&config, bits), false, c);
        if thorough || bits % 2 == 1 {
            run_gate(&mut cx, &|| RandomAccessGate::<F, D>::new_from_config(&wide, bits), false, None);
        }
    }
    let max_red = ReducingGate::<D>::max_coeffs_len(config.num_wires, config.num_routed_wires).min(40);
    for n in 1..=max_red {
        let c = (n == c_red.min(max_red)).then(std_cfg);
        run_gate(&mut cx, &|| ReducingGate::<D>::new(n), c.is_some(), c);
    }
    let max_red_ext = ReducingExtensionGate::<D>::max_coeffs_len(config.num_wires, config.num_routed_wires).min(40);
    for n in 1..=max_red_ext {
        let c = (n == c_red_ext.min(max_red_ext)).then(std_cfg);
        run_gate(&mut cx, &|| ReducingExtensionGate::<D>::new(n), c.is_some(), c);
    }
    // the Poseidon gates get more rows: they are single-parameter
    let reps = if thorough { 6 } else { 2 };
    for i in 0..reps {
        run_gate(&mut cx, &|| PoseidonGate::<F, D>::new(), i == 0, (i == 0).then(std_cfg));
        run_gate(&mut cx, &|| PoseidonMdsGate::<F, D>::new(), i == 0, (i == 0).then(std_cfg));
    }
    {
        // too few routed wires for PoseidonMdsGate (< 48): the circuit evaluator takes its other branch
        // (`mds_partial_layer_init_circuit` etc. laid out with arithmetic gates)
        for rw in if thorough { vec![28usize, 30, 37, 47] } else { vec![[28usize, 37, 47][(seed % 3) as usize]] } {
            let narrow = CircuitConfig { num_routed_wires: rw, ..std_cfg() };
            run_gate(&mut cx, &|| PoseidonGate::<F, D>::new(), false, Some(narrow));
        }
    }
    run_gate(&mut cx, &|| PublicInputGate, false, Some(std_cfg()));
    run_gate(&mut cx, &|| NoopGate, false, Some(std_cfg()));
    let lut: Arc<Vec<(u16, u16)>> = Arc::new((0..37u16).map(|i| (i, i.wrapping_mul(7) ^ 3)).collect());
    run_gate(&mut cx, &|| LookupGate::new_from_table(&config, lut.clone()), false, Some(std_cfg()));
    run_gate(&mut cx, &|| LookupTableGate::new_from_table(&config, lut.clone(), 0), false, Some(std_cfg()));

    // every failure is also visible on stderr when running by hand
    if std::env::var("P2H_LOUD").is_ok() {
        for m in &cx.e.oracle_failures {
            eprintln!("ORACLE FAILURE {m}");
        }
    }
}
