//! C08: table lookups. Table sets (1–4 tables, sizes from one entry to several table rows' worth,
//! duplicate outputs, an input present in one table and absent in another), lookup multisets per
//! table (exact multiples of the slot count, one over, heavy repetition, all entries unused but
//! one). Positive: proves, verifies, outputs (public inputs) equal the table's values — also per the
//! Lean evalProg — and the Lean verifier accepts. Negative: a looked-up output changed alone, the
//! output replaced by another table's value for the same input, a looked-up input moved outside the
//! table (C02's certain-to-violate corruptions restricted to lookup variables).
use plonky2::field::types::PrimeField64;
use plonky2::plonk::circuit_data::CircuitConfig;

use crate::c02::run_corruptions;
use crate::c04::request;
use crate::dump::*;
use crate::progs::*;
use crate::util::*;

pub fn lookup_prog(r: &mut Rng, n_tables: usize, counts: &[usize], slots: usize) -> Prog {
    let mut tables: Vec<Vec<(u16, u16)>> = vec![];
    let shared_input = r.below(1 << 16) as u16;
    for t in 0..n_tables {
        // sizes: 1 entry … more than one LookupTableGate row (slots_lut = routed/3)
        let len = *r.pick(&[1usize, 2, 3, slots / 2, (2 * slots) / 3, (2 * slots) / 3 + 1, 2 * slots, 60]);
        let len = len.max(1);
        let mut tb: Vec<(u16, u16)> = vec![(shared_input, (1000 + t) as u16)]; // same input, different output per table
        while tb.len() < len {
            let i = r.below(1 << 16) as u16;
            if tb.iter().all(|p| p.0 != i) {
                tb.push((i, if r.below(3) == 0 { 7 } else { r.below(1 << 16) as u16 })); // duplicate outputs
            }
        }
        tables.push(tb);
    }
    let mut ops = vec![];
    for (t, &cnt) in counts.iter().enumerate().take(n_tables) {
        let style = r.below(3);
        for k in 0..cnt {
            let ent = match style {
                0 => tables[t][0],                                            // every entry unused but one
                1 => tables[t][k % tables[t].len()],                          // round robin
                _ => *r.pick(&tables[t]),                                     // random with repetition
            };
            ops.push(Op::Input(ent.0 as u64));
            ops.push(Op::Lookup(t, ops.len() - 1));
            if k < 3 || k + 1 == cnt { ops.push(Op::Public(ops.len() - 1)); }
        }
    }
    Prog { ops, tables, skip_connect: false }
}

/// An ADVERSARIAL prover (hook `plonky2::plonk::prover::verif_hooks::SLDC_COMPENSATE`, compiled only
/// with the cargo feature `verif_hooks`): for a witness in which one looked-up (input, output) pair is
/// NOT in its table, the Sum/LDC running sum is started from the value that makes it end at zero.
/// The property demands that no accepted proof can be produced; the honest prover on the same witness
/// is the control (it must be rejected).
fn adversarial_lookup(e: &mut Emitter, r: &mut Rng, prog: &Prog, config: &CircuitConfig, what: &str) {
    use std::sync::atomic::Ordering;
    use plonky2::iop::generator::generate_partial_witness;
    use plonky2::iop::witness::PartitionWitness;
    use plonky2::plonk::prover::{prove_with_partition_witness, verif_hooks::SLDC_COMPENSATE};
    use plonky2::util::timing::TimingTree;
    use plonky2::field::types::{Field, PrimeField64};
    let built = std::panic::catch_unwind(std::panic::AssertUnwindSafe(|| prog.build_with_targets(config.clone())));
    let Ok((data, pw, targets)) = built else { return };
    let Ok(Ok(wit)) = std::panic::catch_unwind(std::panic::AssertUnwindSafe(|| generate_partial_witness(pw, &data.prover_only, &data.common))) else { return };
    let (nw, deg) = (wit.num_wires, wit.degree);
    let rep = data.prover_only.representative_map.clone();
    let idx = |t: plonky2::iop::target::Target| t.index(nw, deg);
    let lookups: Vec<usize> = (0..prog.ops.len()).filter(|&k| matches!(prog.ops[k], Op::Lookup(..))).collect();
    if lookups.is_empty() { return; }
    for _ in 0..2 {
        let k = *r.pick(&lookups);
        let Op::Lookup(tb, inp) = &prog.ops[k] else { continue };
        let x = wit.values[rep[idx(targets[*inp])]].map(|v| v.to_canonical_u64()).unwrap_or(0);
        let old = wit.values[rep[idx(targets[k])]].unwrap_or(F::ZERO);
        // a wrong output: the value another table holds for this input, or just another 16-bit value
        let other = prog.tables.iter().enumerate().filter(|(t2, _)| t2 != tb).filter_map(|(_, t)| t.iter().find(|p| p.0 as u64 == x)).next();
        let mut newv = match other { Some(p) if r.coin() => F::from_canonical_u64(p.1 as u64), _ => F::from_canonical_u64(r.below(1 << 16)) };
        if prog.tables[*tb].iter().any(|p| p.0 as u64 == x && F::from_canonical_u64(p.1 as u64) == newv) { newv += F::ONE; }
        if prog.tables[*tb].iter().any(|p| p.0 as u64 == x && F::from_canonical_u64(p.1 as u64) == newv) { continue; }
        let mut vals = wit.values.clone();
        vals[rep[idx(targets[k])]] = Some(newv);
        let desc = format!("looked-up pair ({x}, {}) replaced by ({x}, {}) which is not in table {tb}; {what}", old.to_canonical_u64(), newv.to_canonical_u64());
        let mut verdicts = vec![];
        for adversarial in [false, true] {
            SLDC_COMPENSATE.store(adversarial, Ordering::SeqCst);
            let w = PartitionWitness { values: vals.clone(), representative_map: &rep, num_wires: nw, degree: deg };
            let mut timing = TimingTree::default();
            e.stage(&format!("impl: proving a wrong lookup pair, adversarial accumulator offset = {adversarial}: {desc}"));
            let res = std::panic::catch_unwind(std::panic::AssertUnwindSafe(|| prove_with_partition_witness(&data.prover_only, &data.common, w, &mut timing)));
            SLDC_COMPENSATE.store(false, Ordering::SeqCst);
            let v = match res { Ok(Ok(p)) => {
                let v = crate::c03::verdict(&data, &p);
                if data.common.degree_bits() <= 9 && data.common.config.security_bits < 50 {
                    let v2 = v.clone();
                    e.case("wrong lookup pair judged by the Lean verifier", request("c08 verify", &data, &p), || v2);
                }
                v }
                Ok(Err(_)) => "PROVE-ERR".into(), Err(_) => "PROVE-PANIC".into() };
            e.count(&format!("wrong lookup pair, adversarial offset {adversarial}: {}", v.split(':').next().unwrap()));
            verdicts.push(v);
        }
        if verdicts[0] == "ACCEPT" && data.common.config.security_bits >= 80 { e.oracle_failures.push(format!("ACCEPTED proof (honest prover) for a wrong lookup pair: {desc}")); }
        if verdicts[1] == "ACCEPT" {
            e.oracle_failures.push(format!("F-C08-1 (lookup argument: the initial value of the Sum/LDC accumulator is not pinned): a prover that offsets the accumulator gets a proof ACCEPTED for a wrong lookup pair (honest prover on the same witness: {}); num_lookup_polys {}, security_bits {}: {desc}",
                verdicts[0], data.common.num_lookup_polys, data.common.config.security_bits));
        }
    }
}

pub fn emit(e: &mut Emitter, seed: u64, thorough: bool) {
    let mut r = Rng::new(seed ^ 0x08);
    let n_cases = if thorough { 40 } else { 8 };
    for i in 0..n_cases {
        let mut config = CircuitConfig::standard_recursion_config();
        let cheap = i % 4 != 0;
        if cheap { config.security_bits = 8; config.fri_config.num_query_rounds = 3; config.fri_config.proof_of_work_bits = 2; }
        if i % 3 == 1 { config.num_routed_wires = 50; }
        if i % 5 == 2 { config.num_challenges = 3; }
        let slots_lu = config.num_routed_wires / 2;
        let n_tables = r.range(1, 4) as usize;
        // lookup counts: exact multiples of the LookupGate slot count, one over, one under, small
        let counts: Vec<usize> = (0..n_tables).map(|t| match (i + t) % 6 {
            0 => slots_lu, 1 => 2 * slots_lu, 2 => slots_lu + 1, 3 => slots_lu - 1, 4 => 1, _ => r.range(1, 3 * slots_lu as u64) as usize,
        }).collect();
        let prog = lookup_prog(&mut r, n_tables, &counts, config.num_routed_wires / 3);
        let (_, expected) = prog.eval();
        let exp2 = expected.clone();
        e.case("evalProg", format!("c08 prog {}", join(prog.encode().iter())), || join(exp2.iter().map(|x| x.to_canonical_u64())));
        let what = format!("lookup circuit: {n_tables} tables of sizes {:?}, lookup counts {:?}, routed wires {}", prog.tables.iter().map(|t| t.len()).collect::<Vec<_>>(), counts, config.num_routed_wires);
        e.stage(&format!("impl: building+proving {what}"));
        let built = std::panic::catch_unwind(std::panic::AssertUnwindSafe(|| prog.build(config.clone())));
        let Ok((data, pw)) = built else { e.oracle_failures.push(format!("build panicked for a well-formed {what}")); continue; };
        match std::panic::catch_unwind(std::panic::AssertUnwindSafe(|| data.prove(pw))) {
            Ok(Ok(proof)) => {
                if proof.public_inputs != expected { e.oracle_failures.push(format!("lookup outputs differ from the table's values; {what}")); }
                match data.verify(proof.clone()) {
                    Ok(()) => {}
                    Err(er) => e.oracle_failures.push(format!("HONEST lookup proof rejected: {er:#}; {what}")),
                }
                if cheap && data.common.degree_bits() <= 9 {
                    e.case("lean-verifier-accepts", request("c08 verify", &data, &proof), || "ACCEPT".to_string());
                }
            }
            Ok(Err(er)) => e.oracle_failures.push(format!("prove failed although every looked-up input is in its table: {er:#}; {what}")),
            Err(_) => e.oracle_failures.push(format!("prove panicked although every looked-up input is in its table; {what}")),
        }
        e.count(&format!("tables={n_tables} counts mod slots = {:?}", counts.iter().map(|c| c % slots_lu).collect::<Vec<_>>()));
        // negative: corruptions of lookup outputs / inputs (standard strength every 4th case)
        run_corruptions(e, &mut r, &prog, &config, if thorough { 6 } else { 4 }, "c08", &|op| matches!(op, Op::Lookup(..)));
        adversarial_lookup(e, &mut r, &prog, &config, &what);
    }
}
