//! C06: the in-circuit verifier accepts exactly what the native verifier accepts. For inner
//! circuits × inner proofs (valid, tampered in every element class, false statements from corrupted
//! witnesses, bad grinding, foreign verifier data) the outer circuit's verdict — assignment through
//! the library's own routines, witness generation, proving, verifying the outer proof — is compared
//! with the native verdict and with the Lean verifier model's verdict on the inner proof.
use plonky2::field::types::{Field, PrimeField64};
use plonky2::iop::generator::generate_partial_witness;
use plonky2::iop::witness::{PartialWitness, PartitionWitness, WitnessWrite};
use plonky2::plonk::circuit_builder::CircuitBuilder;
use plonky2::plonk::circuit_data::{CircuitConfig, CircuitData, VerifierOnlyCircuitData};
use plonky2::plonk::proof::{ProofWithPublicInputs, ProofWithPublicInputsTarget};
use plonky2::plonk::circuit_data::VerifierCircuitTarget;
use plonky2::plonk::prover::prove_with_partition_witness;
use plonky2::util::timing::TimingTree;
use serde_json::Value;

use crate::c03::{at, build_and_prove, class_of, verdict, walk};
use crate::c04::request;
use crate::dump::*;
use crate::progs::*;
use crate::util::*;

type Pwpi = ProofWithPublicInputs<F, C, 2>;

pub struct Outer {
    pub data: CircuitData<F, C, 2>,
    pub pt: ProofWithPublicInputsTarget<2>,
    pub vdt: VerifierCircuitTarget,
}

pub fn build_outer(inner: &CircuitData<F, C, 2>, outer_config: CircuitConfig) -> Outer {
    let mut b = CircuitBuilder::<F, 2>::new(outer_config);
    let pt = b.add_virtual_proof_with_pis(&inner.common);
    let vdt = b.add_virtual_verifier_data(inner.common.config.fri_config.cap_height);
    b.verify_proof::<C>(&pt, &vdt, &inner.common);
    b.register_public_inputs(&pt.public_inputs);
    Outer { data: b.build::<C>(), pt, vdt }
}

/// The outer circuit's verdict on (proof, verifier data): "ACCEPT" iff the derived assignment is
/// provable and the outer proof verifies and re-exposes the inner public inputs.
pub fn outer_verdict(o: &Outer, p: &Pwpi, vd: &VerifierOnlyCircuitData<C, 2>) -> String {
    let r = std::panic::catch_unwind(std::panic::AssertUnwindSafe(|| -> anyhow::Result<String> {
        let mut pw = PartialWitness::new();
        pw.set_proof_with_pis_target(&o.pt, p)?;
        pw.set_verifier_data_target(&o.vdt, vd)?;
        let proof = o.data.prove(pw)?;
        if proof.public_inputs != p.public_inputs { return Ok("ACCEPT-BUT-PIS-DIFFER".into()); }
        o.data.verify(proof)?;
        Ok("ACCEPT".into())
    }));
    match r {
        Ok(Ok(s)) => s,
        Ok(Err(_)) => "REJECT".into(),
        Err(_) => "REJECT".into(), // assignment routines index by the target's shape: a misshapen proof cannot be assigned
    }
}

fn coarse(v: &str) -> String {
    if v == "ACCEPT" { "ACCEPT".into() } else { "REJECT".into() }
}

pub fn emit(e: &mut Emitter, seed: u64, thorough: bool) {
    let mut r = Rng::new(seed ^ 0x06);
    let n_inner = if thorough { 10 } else { 3 };
    let per_class = if thorough { 3 } else { 1 };
    let mut made = 0;
    let mut tries = 0;
    while made < n_inner && tries < 6 * n_inner {
        tries += 1;
        let features = r.below(16);
        let nops = r.range(10, 120) as usize;
        let prog = gen_prog(&mut r, nops, features);
        // inner configurations: cheap (few queries ⇒ small outer circuit), with lookups / zk / arities per feature bits
        let mut config = gen_config(&mut r, true);
        config.fri_config.num_query_rounds = r.range(2, 4) as usize;
        if made % 3 == 2 { config.zero_knowledge = false; }
        // the first inner circuit has ONE query round and real grinding, so that a proof with weak
        // grinding and everything else valid can be constructed (see "weak grinding" below)
        if made == 0 { config.fri_config.num_query_rounds = 1; config.fri_config.proof_of_work_bits = r.range(6, 16) as u32; }
        e.stage(&format!("building+proving an inner circuit ({} ops, config {:?})", prog.ops.len(), config));
        let built = std::panic::catch_unwind(std::panic::AssertUnwindSafe(|| prog.build_with_targets(config.clone())));
        let Ok((inner, pw, targets)) = built else { e.count("inadmissible inner config"); continue; };
        let Ok(Ok(proof)) = std::panic::catch_unwind(std::panic::AssertUnwindSafe(|| inner.prove(pw.clone()))) else { e.oracle_failures.push("inner prove failed".into()); continue; };
        e.stage("building the outer (recursive verifier) circuit");
        let Ok(outer) = std::panic::catch_unwind(std::panic::AssertUnwindSafe(|| build_outer(&inner, CircuitConfig::standard_recursion_config()))) else {
            e.count("outer circuit could not be built for this inner config"); continue;
        };
        made += 1;
        e.count(&format!("inner: lookups={} zk={} degree_bits={} fri_layers={} | outer degree_bits={}", inner.common.num_lookup_polys != 0, inner.common.config.zero_knowledge,
            inner.common.degree_bits(), inner.common.fri_params.reduction_arity_bits.len(), outer.data.common.degree_bits()));
        let mut judge = |e: &mut Emitter, what: &str, p: &Pwpi, data_for_native: &CircuitData<F, C, 2>| {
            e.stage(&format!("impl: native + in-circuit verification of an inner proof variant: {what}"));
            let native = verdict(data_for_native, p);
            let outer_v = outer_verdict(&outer, p, &data_for_native.verifier_only);
            if coarse(&native) != coarse(&outer_v) {
                // a SURPLUS final-polynomial coefficient is not part of the known finding: `set_fri_proof_target`
                // refuses a final polynomial longer than its targets, so the circuit verdict there is REJECT
                let surplus_final = what.starts_with("surgery1") && what.ends_with("final_poly.coeffs");
                if what.starts_with("surgery") && native == "REJECT:shape" && outer_v == "ACCEPT" && !surplus_final {
                    // the assignment routines zip over the targets: surplus elements are dropped, a short
                    // final polynomial is zero-padded (same routines as F-C11-1)
                    e.oracle_failures.push(format!("F-C06-1 (mis-shaped inner proof assigned by dropping or padding elements): in-circuit verifier says ACCEPT, native verifier says REJECT:shape: {what}"));
                } else {
                    e.oracle_failures.push(format!("in-circuit verifier says {outer_v}, native verifier says {native}: {what}"));
                }
            }
            if outer_v == "ACCEPT-BUT-PIS-DIFFER" { e.oracle_failures.push(format!("outer proof does not re-expose the inner public inputs: {what}")); }
            e.count(&format!("variant class: {} -> native {} / outer {}", what.split(':').next().unwrap(), coarse(&native), coarse(&outer_v)));
            // three-way: the Lean verifier on the inner proof
            let nv = native.clone();
            e.case("inner verdict (native = in-circuit = Lean)", request("c06 verify", data_for_native, p), || nv.clone());
        };
        judge(e, "honest", &proof, &inner);
        // tampering: a few elements per class of the proof's serde tree
        let json = serde_json::to_value(&proof).unwrap();
        let (mut leaves, mut arrays) = (vec![], vec![]);
        walk(&json, &mut vec![], &mut leaves, &mut arrays);
        let mut by_class: std::collections::BTreeMap<String, Vec<Vec<String>>> = Default::default();
        for l in leaves { by_class.entry(class_of(&l)).or_default().push(l); }
        for (cls, ls) in &by_class {
            for _ in 0..per_class {
                let path = r.pick(ls).clone();
                let mut j = json.clone();
                let cell = at(&mut j, &path);
                let old = cell.as_u64().unwrap();
                *cell = Value::from((old + 1 + r.below(P - 1)) % P);
                let Ok(p2) = serde_json::from_value::<Pwpi>(j) else { continue };
                judge(e, &format!("tampered: {cls}"), &p2, &inner);
            }
        }
        // list surgery on every class of array (C03's surgery classes): drop last / duplicate last
        {
            let mut arr_by_class: std::collections::BTreeMap<String, Vec<Vec<String>>> = Default::default();
            let (mut l2, mut a2) = (vec![], vec![]);
            walk(&json, &mut vec![], &mut l2, &mut a2);
            for a in a2 { arr_by_class.entry(crate::c03::class_of_arr(&a)).or_default().push(a); }
            for (cls, als) in &arr_by_class {
                for surgery in 0..2 {
                    if !thorough && r.below(2) == 0 { continue; }
                    let path = r.pick(als).clone();
                    let mut j = json.clone();
                    let Value::Array(xs) = at(&mut j, &path) else { continue };
                    if xs.is_empty() { continue; }
                    if surgery == 0 { xs.pop(); } else { let l = xs.last().unwrap().clone(); xs.push(l); }
                    let Ok(p2) = serde_json::from_value::<Pwpi>(j) else { continue };
                    judge(e, &format!("surgery{surgery}: {cls}"), &p2, &inner);
                }
            }
        }
        // a surplus final-polynomial coefficient, for every inner proof (the assignment refuses it)
        {
            let mut p2 = proof.clone();
            let l = *p2.proof.opening_proof.final_poly.coeffs.last().unwrap();
            p2.proof.opening_proof.final_poly.coeffs.push(l);
            judge(e, "surgery1: proof.opening_proof.final_poly.coeffs", &p2, &inner);
        }
        // wrong number of public inputs (surplus / missing), proof itself untouched
        let mut p2 = proof.clone();
        p2.public_inputs.push(F::from_canonical_u64(r.below(P)));
        judge(e, "public inputs: one surplus element", &p2, &inner);
        if !proof.public_inputs.is_empty() {
            let mut p2 = proof.clone();
            p2.public_inputs.pop();
            judge(e, "public inputs: last element missing", &p2, &inner);
        }
        // bad grinding
        let mut p2 = proof.clone();
        p2.proof.opening_proof.pow_witness += F::ONE;
        judge(e, "bad grinding: pow witness changed", &p2, &inner);
        // weak grinding, everything else valid: with one query round, search a pow_witness whose response
        // has k leading zeros, 1 <= k < proof_of_work_bits (and, separately, k = 0), and whose re-derived
        // query index is the one the honest proof answers — the only failing check is then the grinding
        if inner.common.config.fri_config.num_query_rounds == 1 && inner.common.config.fri_config.proof_of_work_bits >= 2 {
            let pih = proof.get_public_inputs_hash();
            let dg = &inner.verifier_only.circuit_digest;
            let idx0 = proof.get_challenges(pih, dg, &inner.common).unwrap().fri_challenges.fri_query_indices;
            let pow_bits = inner.common.config.fri_config.proof_of_work_bits;
            let (mut some_zeros, mut no_zero) = (None, None);
            e.stage("searching weakly ground pow witnesses for the one-query inner proof");
            for w in 0..(1u64 << 17) {
                if some_zeros.is_some() && no_zero.is_some() { break; }
                let mut p2 = proof.clone();
                p2.proof.opening_proof.pow_witness = F::from_canonical_u64(w);
                let ch = p2.get_challenges(pih, dg, &inner.common).unwrap().fri_challenges;
                if ch.fri_query_indices != idx0 { continue; }
                let lz = ch.fri_pow_response.to_canonical_u64().leading_zeros();
                if lz >= 1 && lz < pow_bits && some_zeros.is_none() { some_zeros = Some(p2); }
                else if lz == 0 && no_zero.is_none() { no_zero = Some(p2); }
            }
            match some_zeros { Some(p2) => judge(e, "weak grinding: 1 <= leading zeros < pow_bits, all else valid", &p2, &inner), None => e.count("weak grinding: no witness found (some zeros)") }
            match no_zero { Some(p2) => judge(e, "weak grinding: no leading zero, all else valid", &p2, &inner), None => e.count("weak grinding: no witness found (no zero)") }
        }
        // false statement: a proof the real prover emits for a witness violating a gate
        if let Ok(Ok(wit)) = std::panic::catch_unwind(std::panic::AssertUnwindSafe(|| generate_partial_witness(pw.clone(), &inner.prover_only, &inner.common))) {
            for _ in 0..(2 * per_class) {
                let k = r.below(targets.len() as u64) as usize;
                let plonky2::iop::target::Target::Wire(w) = targets[k] else { continue };
                if w.column >= inner.common.config.num_routed_wires || matches!(prog.ops[k], Op::Input(_) | Op::Const(_) | Op::Public(_) | Op::RangeCheck(..)) { continue; }
                let ti = targets[k].index(wit.num_wires, wit.degree);
                let mut rep2 = inner.prover_only.representative_map.clone();
                let mut vals = wit.values.clone();
                rep2[ti] = ti;
                vals[ti] = Some(vals[inner.prover_only.representative_map[ti]].unwrap_or(F::ZERO) + F::ONE);
                let wbad = PartitionWitness { values: vals, representative_map: &rep2, num_wires: wit.num_wires, degree: wit.degree };
                let mut timing = TimingTree::default();
                if let Ok(Ok(pbad)) = std::panic::catch_unwind(std::panic::AssertUnwindSafe(|| prove_with_partition_witness(&inner.prover_only, &inner.common, wbad, &mut timing))) {
                    judge(e, "false statement: proof for a violated gate", &pbad, &inner);
                }
            }
        }
        // foreign verifier data (same shape, different circuit)
        let mut prog2 = prog.clone();
        prog2.ops.push(Op::Const(99991 + made as u64));
        prog2.ops.push(Op::Public(prog2.ops.len() - 1));
        // the public-input count differs; use a circuit with one more constant but the same public inputs instead
        prog2.ops.pop();
        if let Some((inner2, _)) = build_and_prove(&prog2, &config) {
            if inner2.common == inner.common {
                let mixed = CircuitData { prover_only: inner2.prover_only, verifier_only: inner2.verifier_only, common: inner.common.clone() };
                judge(e, "foreign verifier data", &proof, &mixed);
            }
        }
    }
}
