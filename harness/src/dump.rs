//! Flat numeric dumps of structured values, mirrored by lean/P2/Drv/Parse.lean.
use plonky2::field::extension::quadratic::QuadraticExtension;
pub use plonky2::field::goldilocks_field::GoldilocksField as F;
use plonky2::field::types::PrimeField64;
use plonky2::fri::proof::{FriChallenges, FriProof, FriQueryRound};
use plonky2::fri::reduction_strategies::FriReductionStrategy;
use plonky2::fri::structure::{FriInstanceInfo, FriOpenings};
use plonky2::fri::FriParams;
use plonky2::hash::hash_types::HashOut;
use plonky2::hash::merkle_tree::MerkleCap;
use plonky2::hash::poseidon::PoseidonHash;

pub type FE = QuadraticExtension<F>;
pub type H = PoseidonHash;

#[derive(Default)]
pub struct Toks(pub Vec<u64>);

impl Toks {
    pub fn n(&mut self, x: usize) {
        self.0.push(x as u64)
    }
    pub fn b(&mut self, x: bool) {
        self.0.push(x as u64)
    }
    pub fn f(&mut self, x: F) {
        self.0.push(x.to_canonical_u64())
    }
    pub fn e(&mut self, x: FE) {
        self.f(x.0[0]);
        self.f(x.0[1]);
    }
    pub fn digest(&mut self, h: &HashOut<F>) {
        for x in h.elements {
            self.f(x)
        }
    }
    pub fn digests(&mut self, hs: &[HashOut<F>]) {
        self.n(hs.len());
        for h in hs {
            self.digest(h)
        }
    }
    pub fn cap(&mut self, c: &MerkleCap<F, H>) {
        self.digests(&c.0)
    }
    pub fn fs(&mut self, xs: &[F]) {
        self.n(xs.len());
        for &x in xs {
            self.f(x)
        }
    }
    pub fn es(&mut self, xs: &[FE]) {
        self.n(xs.len());
        for &x in xs {
            self.e(x)
        }
    }
    pub fn ns(&mut self, xs: &[usize]) {
        self.n(xs.len());
        for &x in xs {
            self.n(x)
        }
    }
    pub fn strategy(&mut self, s: &FriReductionStrategy) {
        match s {
            FriReductionStrategy::Fixed(v) => {
                self.n(0);
                self.ns(v)
            }
            FriReductionStrategy::ConstantArityBits(a, f) => {
                self.n(1);
                self.ns(&[*a, *f])
            }
            FriReductionStrategy::MinSize(m) => {
                self.n(2);
                self.ns(&[m.unwrap_or(0)])
            }
        }
    }
    pub fn fri_params(&mut self, p: &FriParams) {
        self.n(p.config.rate_bits);
        self.n(p.config.cap_height);
        self.n(p.config.proof_of_work_bits as usize);
        self.strategy(&p.config.reduction_strategy);
        self.n(p.config.num_query_rounds);
        self.b(p.hiding);
        self.n(p.degree_bits);
        self.ns(&p.reduction_arity_bits);
    }
    pub fn instance(&mut self, i: &FriInstanceInfo<F, 2>) {
        self.n(i.oracles.len());
        for o in &i.oracles {
            self.n(o.num_polys);
            self.b(o.blinding);
        }
        self.n(i.batches.len());
        for b in &i.batches {
            self.e(b.point);
            self.n(b.polynomials.len());
            for p in &b.polynomials {
                self.n(p.oracle_index);
                self.n(p.polynomial_index);
            }
        }
    }
    pub fn openings(&mut self, o: &FriOpenings<F, 2>) {
        self.n(o.batches.len());
        for b in &o.batches {
            self.es(&b.values)
        }
    }
    pub fn challenges(&mut self, c: &FriChallenges<F, 2>) {
        self.e(c.fri_alpha);
        self.es(&c.fri_betas);
        self.f(c.fri_pow_response);
        self.ns(&c.fri_query_indices);
    }
    pub fn query_round(&mut self, q: &FriQueryRound<F, H, 2>) {
        self.n(q.initial_trees_proof.evals_proofs.len());
        for (leaf, mp) in &q.initial_trees_proof.evals_proofs {
            self.fs(leaf);
            self.digests(&mp.siblings);
        }
        self.n(q.steps.len());
        for s in &q.steps {
            self.es(&s.evals);
            self.digests(&s.merkle_proof.siblings);
        }
    }
    pub fn fri_proof(&mut self, p: &FriProof<F, H, 2>) {
        self.n(p.commit_phase_merkle_caps.len());
        for c in &p.commit_phase_merkle_caps {
            self.cap(c)
        }
        self.n(p.query_round_proofs.len());
        for q in &p.query_round_proofs {
            self.query_round(q)
        }
        self.es(&p.final_poly.coeffs);
        self.f(p.pow_witness);
    }
    pub fn line(&self) -> String {
        crate::util::join(self.0.iter())
    }
}

/// Map a verifier result to the model's verdict classes.
pub fn fri_verdict(res: anyhow::Result<()>) -> String {
    match res {
        Ok(()) => "ACCEPT".into(),
        Err(e) => {
            let m = format!("{e:#}");
            let stage = if m.contains("Invalid proof of work") {
                "pow"
            } else if m.contains("Number of query rounds") {
                "num-queries"
            } else if m.contains("Invalid Merkle proof") {
                "merkle"
            } else if m.contains("Final polynomial evaluation") {
                "final"
            } else if m.contains("old_eval") {
                "consistency"
            } else {
                "shape"
            };
            format!("REJECT:{stage}")
        }
    }
}

// ---------------------------------------------------------------- PLONK-level dumps
use plonky2::gates::gate::GateRef;
use plonky2::plonk::circuit_data::{CommonCircuitData, VerifierOnlyCircuitData};
use plonky2::plonk::config::PoseidonGoldilocksConfig;
use plonky2::plonk::proof::{OpeningSet, Proof, ProofWithPublicInputs};

pub type C = PoseidonGoldilocksConfig;

fn id_number(id: &str, key: &str) -> Option<u64> {
    let at = id.find(key)? + key.len();
    let digits: String = id[at..].chars().skip_while(|c| *c == ' ').take_while(|c| c.is_ascii_digit()).collect();
    digits.parse().ok()
}

/// Flat descriptor of any built-in gate (any gate that can appear in `CommonCircuitData.gates`).
/// Panics on a gate type it does not know.
pub fn dump_gate(g: &plonky2::gates::gate::GateRef<F, 2>) -> Vec<u64> {
    use plonky2::gates::arithmetic_base::ArithmeticGate;
    use plonky2::gates::arithmetic_extension::ArithmeticExtensionGate;
    use plonky2::gates::constant::ConstantGate;
    use plonky2::gates::coset_interpolation::CosetInterpolationGate;
    use plonky2::gates::exponentiation::ExponentiationGate;
    use plonky2::gates::lookup::LookupGate;
    use plonky2::gates::lookup_table::LookupTableGate;
    use plonky2::gates::multiplication_extension::MulExtensionGate;
    use plonky2::gates::noop::NoopGate;
    use plonky2::gates::poseidon::PoseidonGate;
    use plonky2::gates::poseidon_mds::PoseidonMdsGate;
    use plonky2::gates::public_input::PublicInputGate;
    use plonky2::gates::random_access::RandomAccessGate;
    use plonky2::gates::reducing::ReducingGate;
    use plonky2::gates::reducing_extension::ReducingExtensionGate;

    let any = g.0.as_any();
    let id = g.0.id();
    if let Some(x) = any.downcast_ref::<ArithmeticGate>() {
        return vec![0, 1, x.num_ops as u64];
    }
    if let Some(x) = any.downcast_ref::<ArithmeticExtensionGate<2>>() {
        return vec![1, 1, x.num_ops as u64];
    }
    if let Some(x) = any.downcast_ref::<MulExtensionGate<2>>() {
        return vec![2, 1, x.num_ops as u64];
    }
    if id.starts_with("BaseSumGate") {
        // `BaseSumGate<B>` is generic in the base: read both parameters off the id
        // (`BaseSumGate { num_limbs: N } + Base: B`).
        let limbs = id_number(&id, "num_limbs:").expect("BaseSumGate id: num_limbs");
        let base = id_number(&id, "Base:").expect("BaseSumGate id: base");
        return vec![3, 2, base, limbs];
    }
    if any.downcast_ref::<ConstantGate>().is_some() {
        // the field is crate-private; `num_constants()` returns it
        return vec![4, 1, g.0.num_constants() as u64];
    }
    if let Some(x) = any.downcast_ref::<CosetInterpolationGate<F, 2>>() {
        let mut v = vec![5, 2 + x.barycentric_weights.len() as u64, x.subgroup_bits as u64, x.degree as u64];
        v.extend(x.barycentric_weights.iter().map(|w| w.to_canonical_u64()));
        return v;
    }
    if let Some(x) = any.downcast_ref::<ExponentiationGate<F, 2>>() {
        return vec![6, 1, x.num_power_bits as u64];
    }
    if let Some(x) = any.downcast_ref::<LookupGate>() {
        return vec![7, 1, x.num_slots as u64];
    }
    if let Some(x) = any.downcast_ref::<LookupTableGate>() {
        return vec![8, 1, x.num_slots as u64];
    }
    if any.downcast_ref::<NoopGate>().is_some() {
        return vec![9, 0];
    }
    if any.downcast_ref::<PoseidonGate<F, 2>>().is_some() {
        return vec![10, 0];
    }
    if any.downcast_ref::<PoseidonMdsGate<F, 2>>().is_some() {
        return vec![11, 0];
    }
    if any.downcast_ref::<PublicInputGate>().is_some() {
        return vec![12, 0];
    }
    if let Some(x) = any.downcast_ref::<RandomAccessGate<F, 2>>() {
        return vec![13, 3, x.bits as u64, x.num_copies as u64, x.num_extra_constants as u64];
    }
    if let Some(x) = any.downcast_ref::<ReducingGate<2>>() {
        return vec![14, 1, x.num_coeffs as u64];
    }
    if let Some(x) = any.downcast_ref::<ReducingExtensionGate<2>>() {
        return vec![15, 1, x.num_coeffs as u64];
    }
    panic!("dump_gate: unknown gate type {id}");
}

impl Toks {
    pub fn common(&mut self, c: &CommonCircuitData<F, 2>) {
        let cfg = &c.config;
        self.n(cfg.num_wires);
        self.n(cfg.num_routed_wires);
        self.n(cfg.num_constants);
        self.n(cfg.security_bits);
        self.n(cfg.num_challenges);
        self.b(cfg.zero_knowledge);
        self.n(cfg.max_quotient_degree_factor);
        self.fri_params(&c.fri_params);
        self.n(c.gates.len());
        for g in &c.gates {
            self.0.extend(dump_gate(g));
        }
        // selectors_info has crate-private fields; it is serde-serialisable
        let v = serde_json::to_value(&c.selectors_info).unwrap();
        let idx: Vec<usize> = v["selector_indices"].as_array().unwrap().iter().map(|x| x.as_u64().unwrap() as usize).collect();
        self.ns(&idx);
        let groups = v["groups"].as_array().unwrap();
        self.n(groups.len());
        for g in groups {
            self.n(g["start"].as_u64().unwrap() as usize);
            self.n(g["end"].as_u64().unwrap() as usize);
        }
        self.n(c.quotient_degree_factor);
        self.n(c.num_gate_constraints);
        self.n(c.num_constants);
        self.n(c.num_public_inputs);
        self.fs(&c.k_is);
        self.n(c.num_partial_products);
        self.n(c.num_lookup_polys);
        self.n(c.num_lookup_selectors);
        self.n(c.luts.len());
        for l in &c.luts {
            self.n(l.len());
            for &(a, b) in l.iter() {
                self.n(a as usize);
                self.n(b as usize);
            }
        }
    }
    pub fn verifier_only(&mut self, v: &VerifierOnlyCircuitData<C, 2>) {
        self.cap(&v.constants_sigmas_cap);
        self.digest(&v.circuit_digest);
    }
    pub fn opening_set(&mut self, o: &OpeningSet<F, 2>) {
        self.es(&o.constants);
        self.es(&o.plonk_sigmas);
        self.es(&o.wires);
        self.es(&o.plonk_zs);
        self.es(&o.plonk_zs_next);
        self.es(&o.partial_products);
        self.es(&o.quotient_polys);
        self.es(&o.lookup_zs);
        self.es(&o.lookup_zs_next);
    }
    pub fn proof(&mut self, p: &Proof<F, C, 2>) {
        self.cap(&p.wires_cap);
        self.cap(&p.plonk_zs_partial_products_cap);
        self.cap(&p.quotient_polys_cap);
        self.opening_set(&p.openings);
        self.fri_proof(&p.opening_proof);
    }
    pub fn proof_with_pis(&mut self, p: &ProofWithPublicInputs<F, C, 2>) {
        self.proof(&p.proof);
        self.fs(&p.public_inputs);
    }
}

/// Verdict classes of the PLONK verifier, aligned with the model's stages.
pub fn plonk_verdict(res: anyhow::Result<()>) -> String {
    match res {
        Ok(()) => "ACCEPT".into(),
        Err(e) => {
            let m = format!("{e:#}");
            let stage = if m.contains("Invalid proof of work") {
                "pow"
            } else if m.contains("Number of query rounds") {
                "num-queries"
            } else if m.contains("Invalid Merkle proof") {
                "merkle"
            } else if m.contains("Final polynomial evaluation") {
                "final"
            } else if m.contains("old_eval") {
                "consistency"
            } else if m.contains("Number of public inputs") {
                "shape-pis"
            } else if m.contains("vanishing_polys_zeta") {
                "identity"
            } else {
                "shape"
            };
            format!("REJECT:{stage}")
        }
    }
}

// ---------------------------------------------------------------- compressed proofs (C17)
use plonky2::fri::proof::CompressedFriProof;
use plonky2::plonk::proof::CompressedProofWithPublicInputs;

impl Toks {
    /// `CompressedFriProof`: the maps are dumped as `count (key value)*` in increasing key order
    /// (mirrored by `pCompressedFriProof` of lean/P2/Drv/C17.lean).
    pub fn compressed_fri_proof(&mut self, p: &CompressedFriProof<F, H, 2>) {
        self.n(p.commit_phase_merkle_caps.len());
        for c in &p.commit_phase_merkle_caps {
            self.cap(c)
        }
        let r = &p.query_round_proofs;
        self.ns(&r.indices);
        let mut keys: Vec<usize> = r.initial_trees_proofs.keys().copied().collect();
        keys.sort();
        self.n(keys.len());
        for k in keys {
            self.n(k);
            let t = &r.initial_trees_proofs[&k].evals_proofs;
            self.n(t.len());
            for (leaf, mp) in t {
                self.fs(leaf);
                self.digests(&mp.siblings);
            }
        }
        self.n(r.steps.len());
        for m in &r.steps {
            let mut ks: Vec<usize> = m.keys().copied().collect();
            ks.sort();
            self.n(ks.len());
            for k in ks {
                self.n(k);
                self.es(&m[&k].evals);
                self.digests(&m[&k].merkle_proof.siblings);
            }
        }
        self.es(&p.final_poly.coeffs);
        self.f(p.pow_witness);
    }
    pub fn compressed_proof_with_pis(&mut self, p: &CompressedProofWithPublicInputs<F, C, 2>) {
        self.cap(&p.proof.wires_cap);
        self.cap(&p.proof.plonk_zs_partial_products_cap);
        self.cap(&p.proof.quotient_polys_cap);
        self.opening_set(&p.proof.openings);
        self.compressed_fri_proof(&p.proof.opening_proof);
        self.fs(&p.public_inputs);
    }
}

// ---------------------------------------------------------------- STARK proofs (C09 / C10)
use starky::proof::{StarkOpeningSet, StarkProof, StarkProofWithPublicInputs};

impl Toks {
    /// `Option<MerkleCap>`: presence flag, then the cap
    pub fn opt_cap(&mut self, c: &Option<MerkleCap<F, H>>) {
        match c {
            None => self.n(0),
            Some(c) => { self.n(1); self.cap(c) }
        }
    }
    pub fn opt_es(&mut self, xs: &Option<Vec<FE>>) {
        match xs {
            None => self.n(0),
            Some(v) => { self.n(1); self.es(v) }
        }
    }
    pub fn opt_fs(&mut self, xs: &Option<Vec<F>>) {
        match xs {
            None => self.n(0),
            Some(v) => { self.n(1); self.fs(v) }
        }
    }
    /// mirrored by `pStarkOpeningSet` of lean/P2/Drv/Stark.lean
    pub fn stark_opening_set(&mut self, o: &StarkOpeningSet<F, 2>) {
        self.es(&o.local_values);
        self.es(&o.next_values);
        self.opt_es(&o.auxiliary_polys);
        self.opt_es(&o.auxiliary_polys_next);
        self.opt_fs(&o.ctl_zs_first);
        self.opt_es(&o.quotient_polys);
    }
    pub fn stark_proof(&mut self, p: &StarkProof<F, C, 2>) {
        self.cap(&p.trace_cap);
        self.opt_cap(&p.auxiliary_polys_cap);
        self.opt_cap(&p.quotient_polys_cap);
        self.stark_opening_set(&p.openings);
        self.fri_proof(&p.opening_proof);
    }
    pub fn stark_proof_with_pis(&mut self, p: &StarkProofWithPublicInputs<F, C, 2>) {
        self.stark_proof(&p.proof);
        self.fs(&p.public_inputs);
    }
}
