//! Flat numeric dumps of structured values, mirrored by lean/P2/Drv/Parse.lean.
use plonky2::field::extension::quadratic::QuadraticExtension;
use plonky2::field::goldilocks_field::GoldilocksField as F;
use plonky2::field::types::PrimeField64;
use plonky2::fri::proof::{FriChallenges, FriProof, FriQueryRound};
use plonky2::fri::reduction_strategies::FriReductionStrategy;
use plonky2::fri::structure::{FriInstanceInfo, FriOpenings};
use plonky2::fri::FriParams;
use plonky2::hash::hash_types::HashOut;
use plonky2::hash::merkle_tree::MerkleCap;
use plonky2::hash::poseidon::PoseidonHash;

pub type FE = QuadraticExtension<F>;
pub type H = PoseidonHash;

#[derive(Default)]
pub struct Toks(pub Vec<u64>);

impl Toks {
    pub fn n(&mut self, x: usize) {
        self.0.push(x as u64)
    }
    pub fn b(&mut self, x: bool) {
        self.0.push(x as u64)
    }
    pub fn f(&mut self, x: F) {
        self.0.push(x.to_canonical_u64())
    }
    pub fn e(&mut self, x: FE) {
        self.f(x.0[0]);
        self.f(x.0[1]);
    }
    pub fn digest(&mut self, h: &HashOut<F>) {
        for x in h.elements {
            self.f(x)
        }
    }
    pub fn digests(&mut self, hs: &[HashOut<F>]) {
        self.n(hs.len());
        for h in hs {
            self.digest(h)
        }
    }
    pub fn cap(&mut self, c: &MerkleCap<F, H>) {
        self.digests(&c.0)
    }
    pub fn fs(&mut self, xs: &[F]) {
        self.n(xs.len());
        for &x in xs {
            self.f(x)
        }
    }
    pub fn es(&mut self, xs: &[FE]) {
        self.n(xs.len());
        for &x in xs {
            self.e(x)
        }
    }
    pub fn ns(&mut self, xs: &[usize]) {
        self.n(xs.len());
        for &x in xs {
            self.n(x)
        }
    }
    pub fn strategy(&mut self, s: &FriReductionStrategy) {
        match s {
            FriReductionStrategy::Fixed(v) => {
                self.n(0);
                self.ns(v)
            }
            FriReductionStrategy::ConstantArityBits(a, f) => {
                self.n(1);
                self.ns(&[*a, *f])
            }
            FriReductionStrategy::MinSize(m) => {
                self.n(2);
                self.ns(&[m.unwrap_or(0)])
            }
        }
    }
    pub fn fri_params(&mut self, p: &FriParams) {
        self.n(p.config.rate_bits);
        self.n(p.config.cap_height);
        self.n(p.config.proof_of_work_bits as usize);
        self.strategy(&p.config.reduction_strategy);
        self.n(p.config.num_query_rounds);
        self.b(p.hiding);
        self.n(p.degree_bits);
        self.ns(&p.reduction_arity_bits);
    }
    pub fn instance(&mut self, i: &FriInstanceInfo<F, 2>) {
        self.n(i.oracles.len());
        for o in &i.oracles {
            self.n(o.num_polys);
            self.b(o.blinding);
        }
        self.n(i.batches.len());
        for b in &i.batches {
            self.e(b.point);
            self.n(b.polynomials.len());
            for p in &b.polynomials {
                self.n(p.oracle_index);
                self.n(p.polynomial_index);
            }
        }
    }
    pub fn openings(&mut self, o: &FriOpenings<F, 2>) {
        self.n(o.batches.len());
        for b in &o.batches {
            self.es(&b.values)
        }
    }
    pub fn challenges(&mut self, c: &FriChallenges<F, 2>) {
        self.e(c.fri_alpha);
        self.es(&c.fri_betas);
        self.f(c.fri_pow_response);
        self.ns(&c.fri_query_indices);
    }
    pub fn query_round(&mut self, q: &FriQueryRound<F, H, 2>) {
        self.n(q.initial_trees_proof.evals_proofs.len());
        for (leaf, mp) in &q.initial_trees_proof.evals_proofs {
            self.fs(leaf);
            self.digests(&mp.siblings);
        }
        self.n(q.steps.len());
        for s in &q.steps {
            self.es(&s.evals);
            self.digests(&s.merkle_proof.siblings);
        }
    }
    pub fn fri_proof(&mut self, p: &FriProof<F, H, 2>) {
        self.n(p.commit_phase_merkle_caps.len());
        for c in &p.commit_phase_merkle_caps {
            self.cap(c)
        }
        self.n(p.query_round_proofs.len());
        for q in &p.query_round_proofs {
            self.query_round(q)
        }
        self.es(&p.final_poly.coeffs);
        self.f(p.pow_witness);
    }
    pub fn line(&self) -> String {
        crate::util::join(self.0.iter())
    }
}

/// Map a verifier result to the model's verdict classes.
pub fn fri_verdict(res: anyhow::Result<()>) -> String {
    match res {
        Ok(()) => "ACCEPT".into(),
        Err(e) => {
            let m = format!("{e:#}");
            let stage = if m.contains("Invalid proof of work") {
                "pow"
            } else if m.contains("Number of query rounds") {
                "num-queries"
            } else if m.contains("Invalid Merkle proof") {
                "merkle"
            } else if m.contains("Final polynomial evaluation") {
                "final"
            } else if m.contains("old_eval") {
                "consistency"
            } else {
                "shape"
            };
            format!("REJECT:{stage}")
        }
    }
}
