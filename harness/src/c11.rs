//! C11: the in-circuit STARK verifier agrees with the native STARK verifier.
//! For (AIR, trace, `StarkConfig`) instances — fibonacci, generated AIRs of declared degree 1, 2
//! and 3 (degree 3 has `quotient_degree_factor() = 2`), lookup AIRs of degree 3 — an outer circuit
//! embedding `verify_stark_proof_circuit` is built ONCE per (AIR, config, mode, circuit degree) and
//! reused for every proof variant:
//!  * FIXED mode (`min_degree_bits_to_support = None`): circuits for degree_bits k and k+1 of the
//!    same (AIR, config); the pairs (2,3), (3,4), (5,6), (7,8) cover exact powers of two (4, 8)
//!    and non-powers;
//!  * VARIABLE mode (`Some(m)`): one circuit for the maximum degree_bits M, proofs of every length
//!    in m..=M made with `verifier_circuit_fri_params = config.fri_params(M)`.
//! Per inner proof variant three verdicts: native `verify_stark_proof`; circuit (assignment through
//! `set_stark_proof_with_pis_target`, witness generation, proving, verifying the outer proof —
//! ACCEPT iff all succeed); the Lean STARK verifier model (`c11 verify …` request). An oracle
//! failure is recorded whenever native and circuit disagree on ACCEPT / not-ACCEPT.
//! Variants: honest; single-element tampering per class of the proof's serde tree; wrong, surplus
//! and missing public inputs; bad and weak grinding (everything else valid); proofs the real prover
//! emits for VIOLATING traces; a wrong `pis_degree_bits` handed to the assignment routine; a proof
//! of 2^k rows presented to the fixed circuit for 2^(k±1); proofs made without padding presented to
//! the variable-degree circuit; lengths just outside the supported range.
use std::collections::BTreeMap;
use std::panic::{catch_unwind, AssertUnwindSafe};
use std::sync::Arc;
use std::time::Instant;

use plonky2::field::types::{Field, PrimeField64};
use plonky2::fri::reduction_strategies::FriReductionStrategy;
use plonky2::fri::{FriConfig, FriParams};
use plonky2::hash::poseidon::PoseidonHash;
use plonky2::iop::challenger::Challenger;
use plonky2::iop::target::Target;
use plonky2::iop::witness::PartialWitness;
use plonky2::plonk::circuit_builder::CircuitBuilder;
use plonky2::plonk::circuit_data::{CircuitConfig, CircuitData};
use serde_json::Value;
use starky::config::StarkConfig;
use starky::proof::StarkProofWithPublicInputsTarget;
use starky::recursive_verifier::{add_virtual_stark_proof_with_pis, set_stark_proof_with_pis_target, verify_stark_proof_circuit};

use crate::c03::{at, class_of, class_of_arr, walk};
use crate::c09::{finding, honest, try_prove, Instance, Proved};
use crate::c10::gen_lookup_air;
use crate::dump::*;
use crate::stark_dsl::*;
use crate::util::*;

fn fe(x: u64) -> F { F::from_noncanonical_u64(x) }

// ------------------------------------------------------------------------------- the outer circuit

pub struct Outer {
    pub data: CircuitData<F, C, 2>,
    pub pt: StarkProofWithPublicInputsTarget<2>,
    pub zero: Target,
    /// the degree_bits the circuit was sized for (the maximum in variable mode)
    pub degree_bits: usize,
    pub min: Option<usize>,
    pub desc: String,
}

/// `add_virtual_stark_proof_with_pis` + `verify_stark_proof_circuit`, exactly as the library's tests
pub fn build_outer(air: &Arc<Air>, config: &StarkConfig, degree_bits: usize, min: Option<usize>) -> Outer {
    with_stark!(air, s => {
        let mut b = CircuitBuilder::<F, 2>::new(CircuitConfig::standard_recursion_config());
        let zero = b.zero();
        let pt = add_virtual_stark_proof_with_pis(&mut b, &s, config, degree_bits, 0, 0);
        verify_stark_proof_circuit::<F, C, _, 2>(&mut b, s, pt.clone(), config, min);
        let data = b.build::<C>();
        let desc = match min {
            None => format!("FIXED circuit for degree_bits={degree_bits} (outer 2^{})", data.common.degree_bits()),
            Some(m) => format!("VARIABLE circuit for degree_bits {m}..={degree_bits} (outer 2^{})", data.common.degree_bits()),
        };
        Outer { data, pt, zero, degree_bits, min, desc }
    })
}

/// The circuit's verdict: "ACCEPT" iff assignment, witness generation, proving and verification of
/// the outer proof all succeed; the second component says where a rejection happened.
pub fn circuit_verdict(o: &Outer, p: &SProof, pis_degree_bits: usize) -> (String, &'static str) {
    let stage = std::cell::Cell::new("assign");
    let r = catch_unwind(AssertUnwindSafe(|| -> anyhow::Result<()> {
        let mut pw = PartialWitness::new();
        set_stark_proof_with_pis_target(&mut pw, &o.pt, p, pis_degree_bits, o.zero)?;
        stage.set("witness/prove");
        let proof = o.data.prove(pw)?;
        stage.set("outer verify");
        o.data.verify(proof)?;
        Ok(())
    }));
    match r {
        Ok(Ok(())) => ("ACCEPT".into(), "accept"),
        Ok(Err(_)) => ("REJECT".into(), match stage.get() { "assign" => "assign: Err", "witness/prove" => "witness/prove: Err", _ => "outer verify: Err" }),
        Err(_) => ("REJECT".into(), match stage.get() { "assign" => "assign: panic", "witness/prove" => "witness/prove: panic", _ => "outer verify: panic" }),
    }
}

fn coarse(v: &str) -> &'static str { if v == "ACCEPT" { "ACCEPT" } else { "REJECT" } }

/// (pow response, query indices) of a proof's transcript
fn fri_ch(air: &Arc<Air>, config: &StarkConfig, proof: &SProof, vp: Option<FriParams>) -> (u64, Vec<usize>) {
    let mut ch = Challenger::<F, PoseidonHash>::new();
    let c = with_stark!(air, s => proof.get_challenges(&s, &mut ch, None, None, false, config, vp));
    (c.fri_challenges.fri_pow_response.to_canonical_u64(), c.fri_challenges.fri_query_indices)
}

// ------------------------------------------------------------------------------- AIR sources

#[derive(Clone, Copy, Debug, PartialEq)]
pub enum AirKind { Fib, Gen(usize), Perm, Lookup(usize) }

pub struct AirSrc {
    pub air: Arc<Air>,
    pub name: String,
    /// a satisfying trace of the given length with its public inputs
    pub sim: Box<dyn Fn(&mut Rng, usize) -> (Vec<Vec<F>>, Vec<F>)>,
}

pub fn make_air(e: &mut Emitter, r: &mut Rng, kind: AirKind) -> AirSrc {
    match kind {
        AirKind::Fib => AirSrc {
            air: Arc::new(fibonacci_air()), name: "fibonacci".into(),
            sim: Box::new(|r, n| fibonacci_trace(n, fe(r.below(P)), fe(r.below(P)))),
        },
        AirKind::Perm => AirSrc {
            air: Arc::new(permutation_air(3)), name: "permutation(D=3)".into(),
            sim: Box::new(|r, n| permutation_trace(n, fe(r.below(1 << 40)))),
        },
        AirKind::Lookup(d) => {
            let k = r.range(1, 3) as usize;
            let shape = if k == 1 && r.coin() { (6, *r.pick(&[0usize, 3])) } else { (8, *r.pick(&[0usize, 2])) };
            let g = gen_lookup_air(r, d, k, shape);
            if !low_degree_ok(&g.air) { e.oracle_failures.push("GENERATOR: lookup AIR fails the degree test".into()); }
            let air = g.air.clone();
            AirSrc {
                air, name: format!("generated lookup AIR (k={k}, shape {shape:?}, D={d})"),
                sim: Box::new(move |r, n| { let rows = g.simulate(r, n); let pis = (0..shape.1).map(|_| fe(r.below(P))).collect(); (rows, pis) }),
            }
        }
        AirKind::Gen(d) => {
            // an AIR with at least one evolving column whose constraints reach the declared degree
            // (a declared degree 3 with an actual quotient in both chunks)
            let mut tries = 0;
            loop {
                tries += 1;
                let shape = *r.pick(SHAPES);
                let g = gen_air(r, shape, d);
                let has_state = g.rules.iter().any(|x| matches!(x, ColRule::State { .. }));
                let reach = g.air.constraints.iter().map(|(_, x)| x.degree()).max().unwrap_or(0);
                let ok = !g.air.constraints.is_empty() && g.air.needed_degree() <= d && (tries > 60 || ((d == 1 || has_state) && (d < 3 || reach >= 2)));
                if !ok { continue; }
                if !low_degree_ok(&g.air) { e.oracle_failures.push(format!("GENERATOR: AIR of declared degree {d} fails the degree test: {:?}", g.air.constraints)); continue; }
                let air = g.air.clone();
                return AirSrc {
                    air, name: format!("generated AIR (shape {shape:?}, D={d}, {} constraints, max expr degree {reach})", g.air.constraints.len()),
                    sim: Box::new(move |r, n| g.simulate(r, n)),
                };
            }
        }
    }
}

// ------------------------------------------------------------------------------- configurations

fn mk_config(rate: usize, cap: usize, pow: u32, strategy: FriReductionStrategy, q: usize, nch: usize) -> StarkConfig {
    StarkConfig::new(rate * q + pow as usize, nch, FriConfig { rate_bits: rate, cap_height: cap, proof_of_work_bits: pow, reduction_strategy: strategy, num_query_rounds: q })
}

fn describe(config: &StarkConfig) -> String {
    let f = &config.fri_config;
    format!("nch={} rate={} cap={} pow={} {:?} q={}", config.num_challenges, f.rate_bits, f.cap_height, f.proof_of_work_bits, f.reduction_strategy, f.num_query_rounds)
}

/// what `prove` asserts about the reduction schedule (and what the circuit builder needs), for
/// every trace length in `ks`
fn admissible(config: &StarkConfig, ks: &[usize]) -> bool {
    let (rate, cap) = (config.fri_config.rate_bits, config.fri_config.cap_height);
    ks.iter().all(|&k| {
        let Ok(p) = catch_unwind(AssertUnwindSafe(|| config.fri_params(k))) else { return false };
        let t: usize = p.reduction_arity_bits.iter().sum();
        cap <= k + rate && t <= k && t + cap <= k + rate && p.reduction_arity_bits.iter().all(|&a| (1..=4).contains(&a))
    })
}

fn gen_fixed_config(r: &mut Rng, ks: &[usize], one_query: bool) -> StarkConfig {
    let kmin = *ks.iter().min().unwrap();
    for _ in 0..200 {
        let rate = if r.below(6) == 0 { 3 } else { r.range(1, 2) as usize };
        let strategy = match r.below(6) {
            0 => FriReductionStrategy::Fixed((0..r.range(0, 2)).map(|_| r.range(1, 2) as usize).collect()),
            1 => FriReductionStrategy::MinSize(Some(r.range(1, 3) as usize)),
            _ => FriReductionStrategy::ConstantArityBits(r.range(1, 3) as usize, r.range(0, 3) as usize),
        };
        let cap = r.range(0, 3.min(kmin + rate) as u64) as usize;
        let (q, pow) = if one_query { (1, r.range(5, 9) as u32) } else { (r.range(1, 2) as usize, r.range(0, 4) as u32) };
        let c = mk_config(rate, cap, pow, strategy, q, r.range(1, 2) as usize);
        if admissible(&c, ks) { return c; }
    }
    mk_config(1, 0, 3, FriReductionStrategy::ConstantArityBits(1, 0), if one_query { 1 } else { 2 }, 2)
}

/// A configuration under which ONE circuit for max degree_bits M verifies proofs of every length
/// in m..=M. `prove` asserts that the circuit's final polynomial has `2^(f+1)` coefficients for
/// `ConstantArityBits(a, f)`, i.e. `fri_params(M)` must stop at degree f+1 — which the strategy
/// does only through its cap-height condition: f+1+rate−a < cap. Shorter proofs must not end with
/// a longer final polynomial: cap ≤ f+2+rate−a. Hence cap = f+2+rate−a, M = f+1+k·a, and
/// `verify_fri_proof_with_multiple_degree_bits` asserts rate+m > cap, i.e. m ≥ f+3−a.
fn gen_var_config(r: &mut Rng, max_m: usize, want: &[usize], m_floor: usize, max_span: usize, one_query: bool) -> (StarkConfig, usize, usize) {
    loop {
        let a = r.range(1, 4) as usize;
        let rate = r.range(1, 2) as usize;
        let f = if a == 4 { r.range(3, 5) as usize } else { r.range(0, 2) as usize };
        if f + 2 + rate < a { continue; }
        let cap = f + 2 + rate - a;
        if cap > 4 { continue; }
        let ms: Vec<usize> = (1..12).map(|k| f + 1 + k * a).filter(|&m| m <= max_m && (want.is_empty() || want.contains(&m))).collect();
        if ms.is_empty() { continue; }
        let big = *r.pick(&ms);
        let lo = (f + 3).saturating_sub(a).max(m_floor).max(1);
        if lo >= big { continue; }
        let m = lo.max(big.saturating_sub(max_span));
        let (q, pow) = if one_query { (1, r.range(5, 9) as u32) } else { (r.range(1, 2) as usize, r.range(0, 4) as u32) };
        let c = mk_config(rate, cap, pow, FriReductionStrategy::ConstantArityBits(a, f), q, r.range(1, 2) as usize);
        let ks: Vec<usize> = (m..=big).collect();
        if !admissible(&c, &ks) { continue; }
        let p = c.fri_params(big);
        if big - p.reduction_arity_bits.iter().sum::<usize>() != f + 1 { continue; }
        // no shorter proof ends with a longer final polynomial
        if ks.iter().any(|&k| k - c.fri_params(k).reduction_arity_bits.iter().sum::<usize>() > f + 1) { continue; }
        return (c, big, m);
    }
}

// ------------------------------------------------------------------------------- judging variants

fn class_name(what: &str) -> &str { what.split(':').next().unwrap() }

/// three verdicts on one inner proof variant
fn judge(e: &mut Emitter, o: &Outer, inst: &Instance, what: &str, p: &SProof) {
    e.stage(&format!("impl: native + in-circuit verification of a STARK proof variant ({what}) of {} in the {}", inst.what, o.desc));
    let native = verdict_air(&inst.air, &inst.config, p, inst.vp.clone());
    // the value an honest caller hands to the assignment routine: the proof's own degree
    let db = catch_unwind(AssertUnwindSafe(|| p.proof.recover_degree_bits(&inst.config))).unwrap_or(o.degree_bits);
    let (circ, stage) = circuit_verdict(o, p, db);
    if coarse(&native) != circ {
        let msg = format!("in-circuit STARK verifier says {circ} ({stage}), native verifier says {native}: variant `{what}` of {} presented to the {}", inst.what, o.desc);
        // FIXED mode: a SURPLUS final-polynomial coefficient is not part of F-C11-1 — `set_fri_proof_target`
        // refuses a final polynomial longer than its targets. (Variable mode: a shorter proof's final
        // polynomial extended by a ZERO coefficient — the duplicate of a zero leading coefficient — is
        // the same padded polynomial and is accepted: that is F-C11-1; a non-zero one is rejected by the
        // tail bound.)
        let surplus_final = o.min.is_none() && what.starts_with("shape duplicate-last") && what.contains("final_poly.coeffs");
        if what.starts_with("shape") && circ == "ACCEPT" && !surplus_final {
            // F-C11-1: the assignment routines do not validate the proof's shape — (a) surplus
            // elements are dropped, (b) the opening lists are flattened before they are assigned,
            // (c) lists shorter than their targets are padded with zeros, in fixed mode too
            let tag = if what.starts_with("shape boundary") || what.starts_with("shape auxiliary openings merged") { "F-C11-1b (opening lists flattened by the assignment)" }
                else if what.starts_with("shape drop-last") { "F-C11-1c (short list zero-padded by the assignment)" }
                else { "F-C11-1a (surplus proof elements dropped by the assignment)" };
            finding(e, tag, msg);
        } else {
            e.oracle_failures.push(msg);
        }
    }
    e.count(&format!("variant {}: native {} / circuit {}", class_name(what), coarse(&native), circ));
    e.count(&format!("circuit outcome at {stage}"));
    if native == "ACCEPT" && !what.starts_with("unpadded") { e.count(&format!("altered proof accepted by all three verifiers: {what} of {}", inst.what)); }
    let nv = native.clone();
    e.case("inner verdict (native = in-circuit = Lean)", proof_request("c11 verify", &inst.air, &inst.config, &inst.vp, p), || nv);
}

fn jget<'a>(v: &'a mut Value, path: &[&str]) -> &'a mut Value {
    let mut cur = v;
    for p in path { cur = cur.get_mut(*p).unwrap(); }
    cur
}

/// Malformed proofs: list surgery on every class of array, sections of the opening set shifted
/// against each other, `Option` fields toggled, surplus FRI query steps. The native verifier
/// validates the shape; the circuit side has only the assignment routines to do so.
fn shape_variants(e: &mut Emitter, r: &mut Rng, o: &Outer, inst: &Instance, full: bool) {
    let json = serde_json::to_value(&inst.proof).unwrap();
    let go = |e: &mut Emitter, what: String, j: Value| {
        match serde_json::from_value::<SProof>(j) {
            Ok(p2) => judge(e, o, inst, &what, &p2),
            Err(_) => e.count("shape edit not deserialisable (fixed-size digest)"),
        }
    };
    // list surgery: drop the last element / duplicate it
    let (mut leaves, mut arrays) = (vec![], vec![]);
    walk(&json, &mut vec![], &mut leaves, &mut arrays);
    let mut arr_by_class: BTreeMap<String, Vec<Vec<String>>> = Default::default();
    for a in arrays { arr_by_class.entry(class_of_arr(&a)).or_default().push(a); }
    let light_classes: Vec<String> = { let ks: Vec<&String> = arr_by_class.keys().collect(); (0..4).map(|_| (*r.pick(&ks)).clone()).collect() };
    for (cls, als) in &arr_by_class {
        if !full && !light_classes.contains(cls) { continue; }
        let surgeries: Vec<usize> = if full { vec![0, 1] } else { vec![r.below(2) as usize] };
        for sg in surgeries {
            let path = if r.coin() { als[0].clone() } else { r.pick(als).clone() };
            let mut j = json.clone();
            let Value::Array(xs) = at(&mut j, &path) else { continue };
            if xs.is_empty() { continue; }
            if sg == 0 { xs.pop(); } else { let l = xs.last().unwrap().clone(); xs.push(l); }
            go(e, format!("shape {} {cls}: {}", if sg == 0 { "drop-last" } else { "duplicate-last" }, path.join("/")), j);
        }
    }
    // sections of the opening set shifted against each other (the flattened lists stay the same)
    let op = &json["proof"]["openings"];
    let has_aux = !op["auxiliary_polys"].is_null();
    let has_q = !op["quotient_polys"].is_null();
    let mut shifts: Vec<(&str, &str)> = vec![];
    if has_aux { shifts.push(("local_values", "auxiliary_polys")); shifts.push(("next_values", "auxiliary_polys_next")); }
    if has_aux && has_q { shifts.push(("auxiliary_polys", "quotient_polys")); }
    if !has_aux && has_q { shifts.push(("local_values", "quotient_polys")); }
    if !full && !shifts.is_empty() { shifts = vec![*r.pick(&shifts)]; }
    for (from, to) in shifts {
        // last element of `from` becomes the first of `to`, and the other way round
        for dir in 0..2 {
            if !full && dir != (r.below(2) as usize) { continue; }
            let mut j = json.clone();
            let ops = jget(&mut j, &["proof", "openings"]);
            let (a, b) = (ops[from].as_array().unwrap().clone(), ops[to].as_array().unwrap().clone());
            if a.is_empty() || b.is_empty() { continue; }
            let (a2, b2) = if dir == 0 { (a[..a.len() - 1].to_vec(), [vec![a[a.len() - 1].clone()], b].concat()) } else { ([a, vec![b[0].clone()]].concat(), b[1..].to_vec()) };
            ops[from] = Value::Array(a2);
            ops[to] = Value::Array(b2);
            go(e, format!("shape boundary between openings moved: {from} / {to}, direction {dir}"), j);
        }
    }
    if has_aux && has_q {
        // the auxiliary openings presented as part of the quotient openings
        let mut j = json.clone();
        let ops = jget(&mut j, &["proof", "openings"]);
        let merged = [ops["auxiliary_polys"].as_array().unwrap().clone(), ops["quotient_polys"].as_array().unwrap().clone()].concat();
        ops["auxiliary_polys"] = Value::Null;
        ops["quotient_polys"] = Value::Array(merged);
        go(e, "shape auxiliary openings merged into the quotient openings: auxiliary_polys = None".into(), j);
    }
    // Option fields toggled
    const OPTION_PATHS: &[&[&str]] = &[
        &["proof", "auxiliary_polys_cap"], &["proof", "quotient_polys_cap"], &["proof", "openings", "auxiliary_polys"],
        &["proof", "openings", "auxiliary_polys_next"], &["proof", "openings", "ctl_zs_first"], &["proof", "openings", "quotient_polys"],
    ];
    let light_opt = [r.below(OPTION_PATHS.len() as u64) as usize, r.below(OPTION_PATHS.len() as u64) as usize];
    for (pi, path) in OPTION_PATHS.iter().enumerate() {
        if !full && !light_opt.contains(&pi) { continue; }
        let last = path[path.len() - 1];
        let donor = if last.ends_with("_cap") { json["proof"]["trace_cap"].clone() } else if last == "ctl_zs_first" { json["public_inputs"].clone() } else { json["proof"]["openings"]["local_values"].clone() };
        let mut j = json.clone();
        let cell = jget(&mut j, path);
        let vs: Vec<(&str, Value)> = if cell.is_null() { vec![("None→Some(empty)", Value::Array(vec![])), ("None→Some(copy)", donor)] } else { vec![("Some→None", Value::Null)] };
        for (name, val) in vs {
            let mut j2 = j.clone();
            *jget(&mut j2, path) = val;
            go(e, format!("shape option {} {name}", path.join(".")), j2);
        }
    }
    // a surplus FRI query step in every round (a copy of the last one)
    let mut j = json.clone();
    let mut any = false;
    if let Value::Array(rounds) = jget(&mut j, &["proof", "opening_proof", "query_round_proofs"]) {
        for q in rounds.iter_mut() {
            if let Value::Array(steps) = &mut q["steps"] { if let Some(l) = steps.last().cloned() { steps.push(l); any = true; } }
        }
    }
    if any { go(e, "shape surplus FRI query step in every round".into(), j); }
}

/// a presentation that has no native counterpart (the native verifier has no degree parameter):
/// the circuit must reject
fn expect_reject(e: &mut Emitter, o: &Outer, inst: &Instance, what: &str, p: &SProof, pis_degree_bits: usize) {
    e.stage(&format!("impl: in-circuit verification of a STARK proof presentation that must be rejected ({what}) of {} in the {}", inst.what, o.desc));
    let (circ, stage) = circuit_verdict(o, p, pis_degree_bits);
    // A trace whose constraint polynomials vanish identically (e.g. all-constant columns) has a zero
    // quotient: `vanishing(ζ) = Z_H(ζ)·t(ζ)` is then `0 = Z_H(ζ)·0` whatever degree Z_H is computed for,
    // so a wrong degree parameter cannot be noticed by the quotient check. Such acceptances are
    // legitimate (a false alarm met in the thorough tier); they are counted, not reported.
    // (An earlier version of this check exempted such instances in FIXED mode as "legitimate". They
    // are not: `degree_bits` is a witness of the outer circuit, and in fixed mode nothing tied it to the
    // degree the circuit was built for — F-C11-2, repaired in /repo. The assertion is strict again.)
    let degenerate = p.proof.openings.quotient_polys.as_ref().map_or(true, |q| q.iter().all(|x| *x == <FE as Field>::ZERO));
    if circ == "ACCEPT" {
        let tag = if what.starts_with("wrong pis_degree_bits (fixed)") { "F-C11-2 (fixed-degree circuit does not pin its degree_bits witness): " } else { "" };
        e.oracle_failures.push(format!("{tag}in-circuit STARK verifier ACCEPTS `{what}` (pis_degree_bits={pis_degree_bits}, zero quotient: {degenerate}) of {} presented to the {}", inst.what, o.desc));
    }
    e.count(&format!("variant {}: expected REJECT / circuit {}", class_name(what), circ));
    e.count(&format!("circuit outcome at {stage}"));
}

fn violates(air: &Air, rows: &[Vec<F>], pis: &[F]) -> bool {
    air.first_violation(rows, pis).is_some() || air.first_bad_lookup(rows).is_some()
}

/// every variant of one accepted instance against one circuit. `full`: all tamper classes, the
/// grinding search, several violating traces; otherwise a light selection.
fn variants(e: &mut Emitter, r: &mut Rng, o: &Outer, inst: &Instance, per_class: usize, full: bool) {
    let (air, config, vp) = (&inst.air, &inst.config, &inst.vp);
    let d = inst.rows.len().trailing_zeros() as usize;
    let mode = if o.min.is_some() { "variable" } else { "fixed" };

    // honest (the native and Lean verdicts were recorded by `honest`)
    e.stage(&format!("impl: in-circuit verification of the honest proof of {} in the {}", inst.what, o.desc));
    let (circ, stage) = circuit_verdict(o, &inst.proof, d);
    if circ != "ACCEPT" {
        e.oracle_failures.push(format!("in-circuit STARK verifier says {circ} ({stage}), native verifier says ACCEPT: HONEST proof of {} presented to the {}", inst.what, o.desc));
    }
    e.count(&format!("variant honest ({mode}, degree_bits {} circuit's): native ACCEPT / circuit {circ}", if d == o.degree_bits { "=" } else { "<" }));
    e.count(&format!("circuit outcome at {stage}"));

    // wrong degree (a): a wrong `pis_degree_bits` handed to the assignment routine
    for wrong in [d.wrapping_sub(1), d + 1] {
        if wrong == usize::MAX { continue; }
        expect_reject(e, o, inst, &format!("wrong pis_degree_bits ({mode}): {wrong} instead of {d}"), &inst.proof, wrong);
    }

    // tampering: elements of every class of the proof's serde tree
    let json = serde_json::to_value(&inst.proof).unwrap();
    let (mut leaves, mut arrays) = (vec![], vec![]);
    walk(&json, &mut vec![], &mut leaves, &mut arrays);
    let mut by_class: BTreeMap<String, Vec<Vec<String>>> = Default::default();
    for l in leaves { by_class.entry(class_of(&l)).or_default().push(l); }
    let classes: Vec<&String> = by_class.keys().collect();
    let chosen: Vec<&String> = if full { classes.clone() } else { (0..3).map(|_| *r.pick(&classes)).collect() };
    for cls in chosen {
        let ls = &by_class[cls];
        for _ in 0..(if full { per_class } else { 1 }) {
            let path = r.pick(ls).clone();
            let mut j = json.clone();
            let cell = at(&mut j, &path);
            // the serialised word may be a non-canonical representative (P for 0)
            let old = cell.as_u64().unwrap() % P;
            let newv = match r.below(3) { 0 => (old + 1) % P, 1 => if old == 0 { 1 } else { 0 }, _ => (old + 1 + r.below(P - 1)) % P };
            *cell = Value::from(newv);
            let Ok(p2) = serde_json::from_value::<SProof>(j) else { e.count("edit-not-deserialisable"); continue };
            judge(e, o, inst, &format!("tampered {cls}: element {} changed {old}→{newv}", path.join("/")), &p2);
        }
    }

    // public inputs: wrong value, surplus, missing (the proof itself untouched)
    let npis = inst.pis.len();
    for k in 0..npis.min(if full { 3 } else { 1 }) {
        let mut p2 = inst.proof.clone();
        p2.public_inputs[k] += F::from_canonical_u64(1 + r.below(P - 1));
        judge(e, o, inst, &format!("wrong public input: position {k}"), &p2);
    }
    if full {
        let mut p2 = inst.proof.clone();
        p2.public_inputs.push(fe(r.below(P)));
        judge(e, o, inst, "public inputs, one surplus element", &p2);
        if npis > 0 {
            let mut p2 = inst.proof.clone();
            p2.public_inputs.pop();
            judge(e, o, inst, "public inputs, last element missing", &p2);
        }
    }

    // grinding
    let mut p2 = inst.proof.clone();
    p2.proof.opening_proof.pow_witness += F::ONE;
    judge(e, o, inst, "bad grinding: pow witness changed", &p2);
    let pow_bits = config.fri_config.proof_of_work_bits;
    if full && config.fri_config.num_query_rounds == 1 && pow_bits >= 2 {
        // weak grinding, everything else valid: a pow witness whose response has k leading zeros,
        // 1 ≤ k < pow_bits (and, separately, k = 0) and whose re-derived query index is the one the
        // honest proof answers — the only failing check is then the grinding
        e.stage(&format!("impl: searching weakly ground pow witnesses for the one-query proof of {}", inst.what));
        let found = catch_unwind(AssertUnwindSafe(|| {
            let idx0 = fri_ch(air, config, &inst.proof, vp.clone()).1;
            let (mut some_zeros, mut no_zero) = (None, None);
            for w in 0..(1u64 << 16) {
                if some_zeros.is_some() && no_zero.is_some() { break; }
                let mut p2 = inst.proof.clone();
                p2.proof.opening_proof.pow_witness = F::from_canonical_u64(w);
                let (resp, idx) = fri_ch(air, config, &p2, vp.clone());
                if idx != idx0 { continue; }
                let lz = resp.leading_zeros();
                if lz >= 1 && lz < pow_bits && some_zeros.is_none() { some_zeros = Some(p2); }
                else if lz == 0 && no_zero.is_none() { no_zero = Some(p2); }
            }
            (some_zeros, no_zero)
        }));
        match found {
            Ok((a, b)) => {
                match a { Some(p2) => judge(e, o, inst, "weak grinding, 1 ≤ leading zeros < pow_bits, all else valid", &p2), None => e.count("weak grinding: no witness found (some zeros)") }
                match b { Some(p2) => judge(e, o, inst, "weak grinding, no leading zero, all else valid", &p2), None => e.count("weak grinding: no witness found (no zero)") }
            }
            Err(_) => e.oracle_failures.push(format!("get_challenges panicked on an honest proof with another pow witness: {}", inst.what)),
        }
    }

    // proofs the real prover emits for VIOLATING traces (the release build has no constraint check)
    let mut made = 0;
    for _ in 0..12 {
        if made >= if full { 2 } else { 1 } { break; }
        let mut rows = inst.rows.clone();
        let mut pis = inst.pis.clone();
        let what = if npis > 0 && r.below(4) == 0 {
            let k = r.below(npis as u64) as usize;
            pis[k] += F::from_canonical_u64(1 + r.below(P - 1));
            format!("public input {k} altered before proving")
        } else {
            let (row, c) = (r.below(rows.len() as u64) as usize, r.below(air.cols as u64) as usize);
            rows[row][c] += if r.coin() { F::ONE } else { F::from_canonical_u64(1 + r.below(P - 1)) };
            format!("cell ({row},{c}) altered before proving")
        };
        if !violates(air, &rows, &pis) { continue; }
        e.stage(&format!("impl: proving a violating trace ({what}) of {}", inst.what));
        match try_prove(air, config, &rows, &pis, vp.clone()) {
            Proved::Ok(p2) => { made += 1; judge(e, o, inst, &format!("violating trace proved by the real prover: {what}"), &p2); }
            _ => e.count("violating trace: the prover refused"),
        }
    }

    // malformed proofs
    shape_variants(e, r, o, inst, full);

    // variable mode: the same trace proved WITHOUT the padded transcript
    if full && o.min.is_some() {
        e.stage(&format!("impl: proving without padding: {}", inst.what));
        if let Proved::Ok(p2) = try_prove(air, config, &inst.rows, &inst.pis, None) {
            judge(e, o, inst, &format!("unpadded proof in variable mode: degree_bits {d} {} circuit's", if d == o.degree_bits { "=" } else { "<" }), &p2);
        }
    }
}

// ------------------------------------------------------------------------------- groups

fn record_circuit(e: &mut Emitter, log: &mut Vec<Value>, o: &Outer, air: &AirSrc, config: &StarkConfig, ms: u128) {
    e.count(&format!("circuit built: {} D={} qdf={} lookups={} degree_bits={}{}", if o.min.is_some() { "variable" } else { "fixed" }, air.air.degree,
        if air.air.degree == 0 { 0 } else { 1.max(air.air.degree - 1) }, !air.air.lookups.is_empty(), o.degree_bits, o.min.map(|m| format!(" min={m}")).unwrap_or_default()));
    log.push(serde_json::json!({ "air": air.name, "config": describe(config), "circuit": o.desc, "build_ms": ms as u64 }));
}

fn try_build(e: &mut Emitter, air: &AirSrc, config: &StarkConfig, k: usize, min: Option<usize>, log: &mut Vec<Value>) -> Option<Outer> {
    e.stage(&format!("impl: building the outer circuit verifying {} [{}] at degree_bits={k}, min_degree_bits_to_support={min:?}", air.name, describe(config)));
    let t = Instant::now();
    match catch_unwind(AssertUnwindSafe(|| build_outer(&air.air, config, k, min))) {
        Ok(o) => { record_circuit(e, log, &o, air, config, t.elapsed().as_millis()); Some(o) }
        Err(p) => {
            let msg = p.downcast_ref::<String>().cloned().or_else(|| p.downcast_ref::<&str>().map(|s| s.to_string())).unwrap_or_default();
            let short: String = msg.chars().take(90).collect();
            e.count(&format!("outer circuit could not be built ({short})"));
            None
        }
    }
}

/// FIXED mode: circuits for k and k+1 of one (AIR, config); every variant against the circuit of
/// the proof's own length, the honest proofs cross-presented to the other circuit.
fn fixed_group(e: &mut Emitter, r: &mut Rng, kind: AirKind, k: usize, one_query: bool, per_class: usize, thorough: bool, log: &mut Vec<Value>) {
    let src = make_air(e, r, kind);
    let ks = [k, k + 1];
    let config = gen_fixed_config(r, &ks, one_query);
    let mut built: Vec<(Outer, Instance)> = vec![];
    for (i, &kk) in ks.iter().enumerate() {
        let (rows, pis) = (src.sim)(r, 1 << kk);
        let Some(inst) = honest(e, "c11", &src.air, &config, None, &rows, &pis, &format!("{} (fixed mode)", src.name)) else { continue };
        let Some(o) = try_build(e, &src, &config, kk, None, log) else { continue };
        // the power-of-two member of the pair gets the full treatment
        let full = thorough || kk.is_power_of_two() || (i == 0 && !(kk + 1).is_power_of_two());
        variants(e, r, &o, &inst, per_class, full);
        built.push((o, inst));
    }
    // an all-zero Fibonacci trace (zero quotient): the quotient identity cannot notice a wrong degree,
    // so only a constraint tying the `degree_bits` witness to the circuit's degree can reject it
    if matches!(kind, AirKind::Fib) {
        let kk = ks[0];
        let (rows, pis) = fibonacci_trace(1 << kk, F::ZERO, F::ZERO);
        if let Some(inst) = honest(e, "c11", &src.air, &config, None, &rows, &pis, "fibonacci, all-zero trace (fixed mode)") {
            if let Some((o, _)) = built.iter().find(|(o, _)| o.degree_bits == kk) {
                for wrong in [kk - 1, kk + 1] {
                    if wrong == 0 { continue; }
                    expect_reject(e, o, &inst, &format!("wrong pis_degree_bits (fixed): {wrong} instead of {kk}"), &inst.proof, wrong);
                }
            }
        }
    }
    // wrong degree (b): a proof of 2^k rows presented to the circuit for 2^(k±1)
    if built.len() == 2 {
        for (pi, ci) in [(0, 1), (1, 0)] {
            let (o, inst) = (&built[ci].0, &built[pi].1);
            let d = inst.rows.len().trailing_zeros() as usize;
            let which = if pi == 0 { "shorter" } else { "longer" };
            expect_reject(e, o, inst, &format!("proof of a {which} trace in a fixed circuit: pis_degree_bits = the proof's"), &inst.proof, d);
            expect_reject(e, o, inst, &format!("proof of a {which} trace in a fixed circuit: pis_degree_bits = the circuit's"), &inst.proof, o.degree_bits);
        }
    }
}

/// VARIABLE mode: one circuit for M with `min_degree_bits_to_support = m`, proofs of every length.
fn var_group(e: &mut Emitter, r: &mut Rng, kind: AirKind, want: &[usize], max_m: usize, max_span: usize, one_query: bool, per_class: usize, thorough: bool, log: &mut Vec<Value>) {
    let src = make_air(e, r, kind);
    let floor = if src.air.lookups.is_empty() { 1 } else { 2 };
    let (config, big, m) = gen_var_config(r, max_m, want, floor, max_span, one_query);
    let vp = Some(config.fri_params(big));
    let Some(o) = try_build(e, &src, &config, big, Some(m), log) else { return };
    let extra_full = r.range(m as u64, big as u64 - 1) as usize;
    for d in m..=big {
        let (rows, pis) = (src.sim)(r, 1 << d);
        let Some(inst) = honest(e, "c11", &src.air, &config, vp.clone(), &rows, &pis, &format!("{} (variable mode {m}..={big})", src.name)) else { continue };
        e.count(&format!("variable mode: proof length M-{}", big - d));
        variants(e, r, &o, &inst, per_class, thorough || d == big || d == extra_full);
    }
    // a SINGLETON range (min = max): the random accesses that tie `degree_bits` to the proof's shape
    // select from one element and constrain nothing (F-C11-4); only an explicit bound rejects a wrong
    // degree. An all-zero Fibonacci trace has a zero quotient, so the quotient check cannot notice it.
    if matches!(kind, AirKind::Fib) {
        if let Some(o1) = try_build(e, &src, &config, big, Some(big), log) {
            let (rows, pis) = fibonacci_trace(1 << big, F::ZERO, F::ZERO);
            if let Some(inst) = honest(e, "c11", &src.air, &config, vp.clone(), &rows, &pis, &format!("fibonacci, all-zero trace (variable mode {big}..={big})")) {
                let (circ, _) = circuit_verdict(&o1, &inst.proof, big);
                if circ != "ACCEPT" { e.oracle_failures.push(format!("singleton variable-degree circuit rejects an honest proof of its own length: {}", inst.what)); }
                for wrong in [big - 1, big + 1] {
                    if wrong == 0 { continue; }
                    expect_reject(e, &o1, &inst, &format!("wrong pis_degree_bits (variable, min = max): {wrong} instead of {big}"), &inst.proof, wrong);
                }
            }
        }
    }
    // just outside the supported range. Below the minimum the proof is valid natively; the circuit
    // does not claim to support it (counted, not judged). Above the maximum it cannot be assigned.
    if m >= 2 && admissible(&config, &[m - 1]) {
        let (rows, pis) = (src.sim)(r, 1 << (m - 1));
        if let Some(inst) = honest(e, "c11", &src.air, &config, vp.clone(), &rows, &pis, &format!("{} (variable mode {m}..={big}, BELOW the minimum)", src.name)) {
            e.stage(&format!("impl: in-circuit verification of a proof below the supported minimum: {}", inst.what));
            let (circ, stage) = circuit_verdict(&o, &inst.proof, m - 1);
            e.count(&format!("variant below the supported minimum (unsupported, not judged): native ACCEPT / circuit {circ}"));
            e.count(&format!("circuit outcome at {stage}"));
        }
    }
    if big + 1 <= 11 && admissible(&config, &[big + 1]) {
        let (rows, pis) = (src.sim)(r, 1 << (big + 1));
        e.stage(&format!("impl: proving {} at 2^{} rows (above the circuit's maximum)", src.name, big + 1));
        if let Proved::Ok(p) = try_prove(&src.air, &config, &rows, &pis, None) {
            let inst = Instance { air: src.air.clone(), config: config.clone(), vp: vp.clone(), rows, pis, proof: p, what: format!("{} n=2^{} [{}] ABOVE the maximum of variable mode {m}..={big}", src.name, big + 1, describe(&config)) };
            expect_reject(e, &o, &inst, "proof above the supported maximum: pis_degree_bits = the proof's", &inst.proof, big + 1);
            expect_reject(e, &o, &inst, "proof above the supported maximum: pis_degree_bits = the circuit's", &inst.proof, big);
        }
    }
}

/// F-C11-3: in variable mode the circuit's final polynomial is sized for the LARGEST degree. For a
/// shorter proof whose last FRI layer lives on N_last = 2^(d − active arities + rate) points with
/// N_last < circuit length, add `a·(X^N_last − c)` to the final polynomial (c = shift^(2^(d+rate)),
/// the value of x^N_last on that layer): every evaluation on the layer is unchanged, the proof is
/// natively mis-shaped (final polynomial too long → REJECT), and with one query round the pow
/// witness is re-ground so that the transcript (which absorbs the final polynomial) reproduces the
/// honest query index with a valid grinding response. A circuit that does not bound the final
/// polynomial by the ACTUAL degree accepts it.
fn tail_group(e: &mut Emitter, r: &mut Rng, log: &mut Vec<Value>) {
    use plonky2::field::extension::{Extendable, FieldExtension};
    type FE = <F as Extendable<2>>::Extension;
    let src = make_air(e, r, AirKind::Fib);
    let (rate, pow_bits) = (1usize, 5u32);
    let config = mk_config(rate, 2, pow_bits, FriReductionStrategy::ConstantArityBits(4, 3), 1, 2);
    let (big, m) = (8usize, 5usize);
    if !admissible(&config, &[5, 6, 7, 8]) { e.count("final-polynomial tail group: configuration inadmissible"); return; }
    let vp = Some(config.fri_params(big));
    let lc = 1usize << (big - config.fri_params(big).reduction_arity_bits.iter().sum::<usize>());
    let Some(o) = try_build(e, &src, &config, big, Some(m), log) else { return };
    for d in m..big {
        let active: usize = config.fri_params(d).reduction_arity_bits.iter().sum();
        let nlast = 1usize << (d - active + rate);
        if nlast >= lc { continue; }
        let (rows, pis) = (src.sim)(r, 1 << d);
        let Some(inst) = honest(e, "c11", &src.air, &config, vp.clone(), &rows, &pis, &format!("{} (variable mode {m}..={big}, final-polynomial tail)", src.name)) else { continue };
        let (circ, _) = circuit_verdict(&o, &inst.proof, d);
        if circ != "ACCEPT" { e.oracle_failures.push(format!("variable-degree circuit rejects an honest proof: {}", inst.what)); continue; }
        e.stage(&format!("impl: re-grinding a proof with a final-polynomial tail beyond the actual degree: {}", inst.what));
        let air = inst.air.clone();
        let base = inst.proof.clone();
        let vp2 = vp.clone();
        let cfg = config.clone();
        let a = FE::from_basefield_array([fe(1 + r.below(P - 1)), fe(r.below(P))]);
        let found = catch_unwind(AssertUnwindSafe(move || {
            let idx0 = fri_ch(&air, &cfg, &base, vp2.clone()).1;
            let c = F::coset_shift().exp_power_of_2(d + rate);
            let mut p2 = base.clone();
            p2.proof.opening_proof.final_poly.coeffs.resize(lc, FE::ZERO);
            p2.proof.opening_proof.final_poly.coeffs[nlast] += a;
            p2.proof.opening_proof.final_poly.coeffs[0] -= a * FE::from_basefield_array([c, F::ZERO]);
            for w in 0..(1u64 << 20) {
                p2.proof.opening_proof.pow_witness = F::from_canonical_u64(w);
                let (resp, idx) = fri_ch(&air, &cfg, &p2, vp2.clone());
                if idx == idx0 && resp.leading_zeros() >= pow_bits { return Some(p2); }
            }
            None
        }));
        match found {
            Ok(Some(p2)) => judge(e, &o, &inst, &format!("final polynomial tail: a·(X^{nlast} − c) added, {lc} coefficients instead of {}, re-ground", 1usize << (d - active)), &p2),
            Ok(None) => e.count("final polynomial tail: no pow witness found"),
            Err(_) => e.oracle_failures.push(format!("get_challenges panicked on a proof with a longer final polynomial: {}", inst.what)),
        }
    }
}

pub fn emit(e: &mut Emitter, seed: u64, thorough: bool) {
    let mut r = Rng::new(seed ^ 0x11);
    let per_class = if thorough { 2 } else { 1 };
    let mut log: Vec<Value> = vec![];

    // ---- fixed mode. The pairs (3,4), (7,8), (5,6), (2,3) give circuits for degree_bits 2…8 with
    // the exact powers of two 4 and 8; the AIR kinds rotate over the pairs with the seed.
    let mut kinds = vec![AirKind::Fib, AirKind::Gen(3), if r.coin() { AirKind::Perm } else { AirKind::Lookup(3) }, AirKind::Gen(1 + r.below(2) as usize)];
    let rot = (seed % 4) as usize;
    kinds.rotate_left(rot);
    for (i, k) in [3usize, 7, 5, 2].into_iter().enumerate() {
        // one group per run has a single query round and real grinding (weak-grinding search)
        fixed_group(e, &mut r, kinds[i], k, i == 0, per_class, thorough, &mut log);
    }
    for i in 0..(if thorough { 20 } else { 3 }) {
        {
            let kind = match r.below(6) { 0 => AirKind::Fib, 1 => AirKind::Gen(1), 2 => AirKind::Gen(2), 3 => AirKind::Perm, 4 => AirKind::Lookup(2 + r.below(2) as usize), _ => AirKind::Gen(3) };
            let k = r.range(2, 8) as usize;
            fixed_group(e, &mut r, kind, k, i % 4 == 1, per_class, thorough, &mut log);
        }
    }

    // ---- variable mode: the final polynomial's tail beyond the actual degree (F-C11-3)
    tail_group(e, &mut r, &mut log);

    // ---- variable mode: a power-of-two maximum (4 or 8), a degree-3 AIR, a lookup AIR
    let pow2 = if (seed / 4) % 2 == 0 { 8 } else { 4 };
    let mut vkinds = vec![AirKind::Fib, AirKind::Gen(3), AirKind::Lookup(3)];
    vkinds.rotate_left((seed % 3) as usize);
    var_group(e, &mut r, vkinds[0], &[pow2], 8, 5, true, per_class, thorough, &mut log);
    var_group(e, &mut r, vkinds[1], &[], 9, 4, false, per_class, thorough, &mut log);
    var_group(e, &mut r, vkinds[2], &[], 7, 3, false, per_class, thorough, &mut log);
    for i in 0..(if thorough { 12 } else { 2 }) {
        {
            let kind = match r.below(6) { 0 => AirKind::Fib, 1 => AirKind::Gen(1), 2 => AirKind::Gen(2), 3 => AirKind::Perm, 4 => AirKind::Lookup(2 + r.below(2) as usize), _ => AirKind::Gen(3) };
            let want: &[usize] = if i % 3 == 0 { &[4, 8] } else { &[] };
            let (max_m, span) = if thorough { (12, 8) } else { (10, 4) };
            var_group(e, &mut r, kind, want, max_m, span, i % 4 == 1, per_class, thorough && i % 2 == 0, &mut log);
        }
    }
    e.extra_json = Some(serde_json::json!({ "circuits": log }));
}
