//! C18: malformed proofs and byte strings. Structural mutants (every array of the proof's serde
//! tree: drop last / empty / duplicate last / extend; every map of the compressed form: remove an
//! entry / add an entry; out-of-range indices) and byte-level mutants (truncations, bit flips,
//! length-field edits, random strings) are fed to verify / verify_compressed / decompress /
//! from_bytes; the outcome class (OK | ERR | PANIC) is recorded. For plain proofs the Lean verifier
//! model answers the same request (ACCEPT ↔ OK, REJECT ↔ ERR, PANIC ↔ PANIC).
use plonky2::plonk::circuit_data::CircuitData;
use plonky2::plonk::proof::{CompressedProofWithPublicInputs, ProofWithPublicInputs};
use serde_json::Value;

use crate::c03::{at, build_and_prove, class_of, class_of_arr, walk};
use crate::c04::request;
use crate::dump::*;
use crate::progs::*;
use crate::util::*;

type Pwpi = ProofWithPublicInputs<F, C, 2>;
type Cpwpi = CompressedProofWithPublicInputs<F, C, 2>;
type SProof = crate::stark_dsl::SProof;

fn outcome<T>(f: impl FnOnce() -> anyhow::Result<T>) -> &'static str {
    match std::panic::catch_unwind(std::panic::AssertUnwindSafe(f)) {
        Ok(Ok(_)) => "OK",
        Ok(Err(_)) => "ERR",
        Err(_) => "PANIC",
    }
}

fn class3(verdict: &str) -> String {
    if verdict == "ACCEPT" { "OK".into() } else if verdict.starts_with("REJECT") { "ERR".into() } else { verdict.into() }
}

/// paths to all JSON objects that are maps keyed by numbers (the compressed form's HashMaps)
fn maps(v: &Value, path: &mut Vec<String>, out: &mut Vec<Vec<String>>) {
    match v {
        Value::Object(m) => {
            if !m.is_empty() && m.keys().all(|k| k.parse::<u64>().is_ok()) { out.push(path.clone()); }
            for (k, x) in m { path.push(k.clone()); maps(x, path, out); path.pop(); }
        }
        Value::Array(xs) => for (i, x) in xs.iter().enumerate() { path.push(i.to_string()); maps(x, path, out); path.pop(); },
        _ => {}
    }
}

/// Parts of a FRI proof that are absorbed AFTER the query answers are fixed (commit-phase caps, final
/// polynomial): a mutant of those changes the proof-of-work response and the query indices, so the
/// verifier normally stops at "pow" or at the first Merkle check and never reaches the code behind
/// them. A prover can re-grind the witness, though. With a one-query configuration the harness does
/// the same: it searches a `pow_witness` for which the re-derived index is the one the honest proof
/// answers, so that the mutant gets past pow, Merkle and consistency checks (F-C18-5 was found this
/// way: a missing commit-phase cap made `verify` index `fri_betas` out of bounds).
fn reground(e: &mut Emitter, r: &mut Rng, thorough: bool) {
    use plonky2::field::types::Field;
    use plonky2::plonk::circuit_data::CircuitConfig;
    for round in 0..(if thorough { 3 } else { 1 }) {
        let mut config = CircuitConfig::standard_recursion_config();
        config.security_bits = 1;
        config.fri_config.num_query_rounds = 1;
        config.fri_config.proof_of_work_bits = r.below(2) as u32;
        config.fri_config.cap_height = r.below(3) as usize;
        // 2^8 (round 0) .. 2^10 rows: one or two reduction steps of arity 16
        let n_mul = [3000usize, 9000, 20000][round];
        let mut ops = vec![Op::Input(r.below(P)), Op::Input(r.below(P))];
        for i in 0..n_mul { ops.push(Op::Mul(i, i + 1)); }
        ops.push(Op::Public(n_mul));
        let prog = Prog { ops, tables: vec![], skip_connect: false };
        e.stage("building+proving the one-query circuit for re-ground mutants");
        let Some((data, proof)) = build_and_prove(&prog, &config) else { e.count("inadmissible-config-or-build-panic"); continue; };
        let data: CircuitData<F, C, 2> = data;
        e.count(&format!("reground circuit: degree_bits {} arities {:?}", data.common.degree_bits(), data.common.fri_params.reduction_arity_bits));
        let json = serde_json::to_value(&proof).unwrap();
        let targets: [&[&str]; 2] = [&["proof", "opening_proof", "commit_phase_merkle_caps"], &["proof", "opening_proof", "final_poly", "coeffs"]];
        for tpath in targets {
            let path: Vec<String> = tpath.iter().map(|s| s.to_string()).collect();
            for surgery in 0..5 {
                let mut j = json.clone();
                let Value::Array(xs) = at(&mut j, &path) else { continue };
                match surgery {
                    0 => { if xs.is_empty() { continue; } xs.pop(); }
                    1 => { if xs.is_empty() { continue; } xs.clear(); }
                    2 => { if xs.is_empty() { continue; } let l = xs.last().unwrap().clone(); xs.push(l); }
                    3 => { if xs.is_empty() { continue; } let l = xs[0].clone(); for _ in 0..3 { xs.push(l.clone()); } }
                    _ => { if xs.len() < 2 { continue; } xs.remove(0); }
                }
                let Ok(mut p2) = serde_json::from_value::<Pwpi>(j) else { e.count("mutant-not-deserialisable"); continue; };
                let cls = format!("{} surgery{surgery}", tpath.join("."));
                let d2 = &data;
                let mut found = None;
                e.stage(&format!("impl: re-grinding pow_witness for mutant {cls}"));
                for w in 0..(1u64 << 14) {
                    p2.proof.opening_proof.pow_witness = F::from_canonical_u64(w);
                    let pc = p2.clone();
                    let res = std::panic::catch_unwind(std::panic::AssertUnwindSafe(|| d2.verify(pc)));
                    match res {
                        Ok(Err(err)) => {
                            let m = err.to_string();
                            if m.contains("proof of work") || m.contains("Merkle") { continue; }
                            found = Some("ERR");
                        }
                        Ok(Ok(())) => found = Some("OK"),
                        Err(_) => found = Some("PANIC"),
                    }
                    break;
                }
                let Some(oc) = found else { e.count(&format!("reground: no witness found for {cls}")); continue; };
                e.count(&format!("reground {cls} -> {oc}"));
                if oc == "OK" { e.oracle_failures.push(format!("malformed plain proof (re-ground, {cls}) verified OK")); }
                if oc == "PANIC" { e.oracle_failures.push(format!("verify PANICS on a malformed proof: re-ground {cls}")); }
                e.case(&format!("reground {cls}"), request("c18 verify", &data, &p2), || oc.to_string());
            }
        }
    }
}

/// STARK entry point: structural mutants of accepted STARK proofs (Fibonacci: no lookups; a lookup
/// STARK of degree 3) fed to `verify_stark_proof`; the Lean STARK verifier answers the same request.
fn stark_malformed(e: &mut Emitter, r: &mut Rng, thorough: bool) {
    use std::sync::Arc;
    use crate::stark_dsl::*;
    use plonky2::field::types::Field;
    let n_inst = if thorough { 6 } else { 3 };
    for k in 0..n_inst {
        let (air, rows, pis) = if k % 3 == 2 || (!thorough && k == 1 && r.coin()) {
            // constraint degree 0: no quotient polynomials at all
            let n = 1usize << r.range(2, 5);
            let rows: Vec<Vec<F>> = (0..n).map(|_| vec![F::from_canonical_u64(r.below(P)), F::from_canonical_u64(r.below(P))]).collect();
            (Arc::new(unconstrained_air()), rows, vec![])
        } else if k % 3 == 0 {
            let (rows, pis) = fibonacci_trace(1 << r.range(2, 6), F::from_canonical_u64(r.below(P)), F::from_canonical_u64(r.below(P)));
            (Arc::new(fibonacci_air()), rows, pis)
        } else {
            let (rows, pis) = permutation_trace(1 << r.range(3, 6), F::from_canonical_u64(r.below(1 << 30)));
            (Arc::new(permutation_air(3)), rows, pis)
        };
        let config = gen_stark_config(r, true, 2);
        e.stage(&format!("proving a STARK instance for malformed-proof tests ({} lookups)", air.lookups.len()));
        let Ok(Ok(proof)) = std::panic::catch_unwind(std::panic::AssertUnwindSafe(|| prove_air(&air, &config, &rows, &pis, None))) else { e.count("stark: inadmissible config"); continue; };
        if verdict_air(&air, &config, &proof, None) != "ACCEPT" { e.count("stark: honest proof not accepted on this cheap config (covered by C09)"); continue; }
        let json = serde_json::to_value(&proof).unwrap();
        let (mut leaves, mut arrays) = (vec![], vec![]);
        walk(&json, &mut vec![], &mut leaves, &mut arrays);
        let mut check = |e: &mut Emitter, cls: String, j: Value| {
            let Ok(p2) = serde_json::from_value::<SProof>(j) else { e.count("stark mutant-not-deserialisable"); return; };
            e.stage(&format!("impl: verify_stark_proof on mutant {cls}"));
            let v = verdict_air(&air, &config, &p2, None);
            let oc = class3(&v);
            if oc == "OK" { e.oracle_failures.push(format!("malformed STARK proof ({cls}) verified OK")); }
            if oc == "PANIC" { e.oracle_failures.push(format!("verify_stark_proof PANICS on a malformed proof: {cls}")); }
            e.case(&format!("stark {cls}"), proof_request("c18 sverify", &air, &config, &None, &p2), || oc.clone());
        };
        let mut by_class: std::collections::BTreeMap<String, Vec<Vec<String>>> = Default::default();
        for a in arrays { by_class.entry(class_of_arr(&a)).or_default().push(a); }
        for (cls, als) in &by_class {
            for surgery in 0..4 {
                // the first array of a class matters most: `recover_degree_bits` reads round 0, oracle 0
                let path = if r.coin() { als[0].clone() } else { r.pick(als).clone() };
                let mut j = json.clone();
                let Value::Array(xs) = at(&mut j, &path) else { continue };
                if xs.is_empty() { continue; }
                match surgery { 0 => { xs.pop(); } 1 => { xs.clear(); } 2 => { let l = xs.last().unwrap().clone(); xs.push(l); } _ => { if xs.len() < 2 { continue; } xs.remove(0); } }
                check(e, format!("surgery{surgery} {cls}"), j);
            }
        }
        for path in [["proof", "auxiliary_polys_cap"].as_slice(), &["proof", "quotient_polys_cap"], &["proof", "openings", "auxiliary_polys"],
                     &["proof", "openings", "auxiliary_polys_next"], &["proof", "openings", "ctl_zs_first"], &["proof", "openings", "quotient_polys"]] {
            let is_cap = path[path.len() - 1].ends_with("_cap");
            let donor = if is_cap { json["proof"]["trace_cap"].clone() } else if path[path.len() - 1] == "ctl_zs_first" { json["public_inputs"].clone() } else { json["proof"]["openings"]["local_values"].clone() };
            let pv: Vec<String> = path.iter().map(|s| s.to_string()).collect();
            let mut j = json.clone();
            let cell = at(&mut j, &pv);
            let variants: Vec<(&str, Value)> = if cell.is_null() { vec![("None->Some(empty)", Value::Array(vec![])), ("None->Some(copy)", donor)] } else { vec![("Some->None", Value::Null)] };
            for (name, val) in variants {
                let mut j2 = json.clone();
                *at(&mut j2, &pv) = val;
                check(e, format!("option {} {name}", path.join(".")), j2);
            }
        }
        let mut j = json.clone();
        if let Value::Array(xs) = at(&mut j, &["public_inputs".to_string()]) { xs.push(Value::from(0u64)); }
        check(e, "public input appended".into(), j);
    }
}

pub fn emit(e: &mut Emitter, seed: u64, thorough: bool) {
    let mut r = Rng::new(seed ^ 0x18);
    reground(e, &mut r, thorough);
    stark_malformed(e, &mut r, thorough);
    let n_circuits = if thorough { 6 } else { 2 };
    let mut made = 0;
    let mut tries = 0;
    while made < n_circuits && tries < 8 * n_circuits {
        tries += 1;
        let nops = r.range(40, 100) as usize;
        let features = r.below(8);
        let prog = gen_prog(&mut r, nops, features | 2);
        let mut config = gen_config(&mut r, true);
        config.zero_knowledge = false;
        e.stage("building+proving a generated circuit");
        let Some((data, proof)) = build_and_prove(&prog, &config) else { e.count("inadmissible-config-or-build-panic"); continue; };
        made += 1;
        let data: CircuitData<F, C, 2> = data;

        // ---------------- plain proofs: structural mutants
        let json = serde_json::to_value(&proof).unwrap();
        let (mut leaves, mut arrays) = (vec![], vec![]);
        walk(&json, &mut vec![], &mut leaves, &mut arrays);
        let mut by_class: std::collections::BTreeMap<String, Vec<Vec<String>>> = Default::default();
        for a in arrays { by_class.entry(class_of_arr(&a)).or_default().push(a); }
        for (cls, als) in &by_class {
            for surgery in 0..5 {
                let path = r.pick(als).clone();
                let mut j = json.clone();
                let Value::Array(xs) = at(&mut j, &path) else { continue };
                match surgery {
                    0 => { if xs.is_empty() { continue; } xs.pop(); }
                    1 => { if xs.is_empty() { continue; } xs.clear(); }
                    2 => { if xs.is_empty() { continue; } let l = xs.last().unwrap().clone(); xs.push(l); }
                    3 => { if xs.is_empty() { continue; } let l = xs[0].clone(); for _ in 0..3 { xs.push(l.clone()); } }
                    _ => { if xs.len() < 2 { continue; } xs.remove(0); }
                }
                let Ok(p2) = serde_json::from_value::<Pwpi>(j) else { e.count("mutant-not-deserialisable"); continue; };
                let d2 = &data;
                let pc = p2.clone();
                let oc = outcome(|| d2.verify(pc));
                if oc == "OK" { e.oracle_failures.push(format!("malformed plain proof (surgery {surgery} on {cls}) verified OK")); }
                if oc == "PANIC" { e.oracle_failures.push(format!("verify PANICS on a malformed proof: surgery {surgery} on array {}", class_of_arr(&path))); }
                e.case(&format!("plain surgery{surgery} {cls}"), request("c18 verify", &data, &p2), || oc.to_string());
            }
        }

        // ---------------- compressed proofs: structural mutants incl. map entries and indices
        let digest = data.verifier_only.circuit_digest;
        let Ok(cp) = proof.clone().compress(&digest, &data.common) else { continue };
        let cjson = serde_json::to_value(&cp).unwrap();
        let (mut cl, mut ca) = (vec![], vec![]);
        walk(&cjson, &mut vec![], &mut cl, &mut ca);
        let mut cmaps = vec![];
        maps(&cjson, &mut vec![], &mut cmaps);
        let mut check_compressed = |e: &mut Emitter, what: String, j: Value| {
            let Ok(c2) = serde_json::from_value::<Cpwpi>(j) else { e.count("compressed-mutant-not-deserialisable"); return; };
            let d2 = &data;
            let (ca, cb) = (c2.clone(), c2.clone());
            let o1 = outcome(|| d2.verify_compressed(ca));
            let o2 = outcome(|| cb.decompress(&digest, &d2.common));
            e.count(&format!("compressed: verify_compressed={o1} decompress={o2}"));
            if o1 == "OK" && !what.starts_with("indices") { e.oracle_failures.push(format!("malformed compressed proof ({what}) verified OK")); }
            if o1 == "PANIC" { e.oracle_failures.push(format!("verify_compressed PANICS on a malformed compressed proof: {what}")); }
            if o2 == "PANIC" { e.oracle_failures.push(format!("decompress PANICS on a malformed compressed proof: {what}")); }
        };
        let mut ca_by_class: std::collections::BTreeMap<String, Vec<Vec<String>>> = Default::default();
        for a in ca { ca_by_class.entry(class_of_arr(&a)).or_default().push(a); }
        for (cls, als) in &ca_by_class {
            for surgery in 0..3 {
                let path = r.pick(als).clone();
                let mut j = cjson.clone();
                let Value::Array(xs) = at(&mut j, &path) else { continue };
                if xs.is_empty() { continue; }
                match surgery { 0 => { xs.pop(); } 1 => { xs.clear(); } _ => { let l = xs.last().unwrap().clone(); xs.push(l); } }
                let is_idx = cls.ends_with("indices");
                check_compressed(e, format!("{}array surgery {surgery} on {cls}", if is_idx { "indices " } else { "" }), j);
            }
        }
        for mp in &cmaps {
            let mut j = cjson.clone();
            if let Value::Object(m) = at(&mut j, mp) { let k = m.keys().next().unwrap().clone(); m.remove(&k); }
            check_compressed(e, format!("map entry removed in {}", class_of(mp)), j);
            let mut j = cjson.clone();
            if let Value::Object(m) = at(&mut j, mp) { let v = m.values().next().unwrap().clone(); m.insert("4000000000".into(), v); }
            check_compressed(e, format!("map entry added in {}", class_of(mp)), j);
        }
        // single numeric edits of the compressed form (moves query indices ⇒ lookups of absent keys)
        for _ in 0..(if thorough { 60 } else { 20 }) {
            let path = r.pick(&cl).clone();
            let mut j = cjson.clone();
            let cell = at(&mut j, &path);
            let old = cell.as_u64().unwrap();
            *cell = Value::from((old + 1) % P);
            check_compressed(e, format!("{}numeric edit in {}", if class_of(&path).ends_with("indices") { "indices " } else { "" }, class_of(&path)), j);
        }

        // ---------------- byte decoders
        let bytes = proof.to_bytes();
        let cbytes = cp.to_bytes();
        let mut dec = |e: &mut Emitter, what: &str, b: Vec<u8>, compressed: bool| {
            let cd = &data.common;
            // an abort (allocation failure) cannot be caught: leave a description of the input behind
            e.stage(&format!("impl: {}::from_bytes on {what}: {} bytes (valid encoding has {}), differing 8-byte windows vs the valid encoding: {:?}",
                if compressed { "CompressedProofWithPublicInputs" } else { "ProofWithPublicInputs" }, b.len(),
                if compressed { cbytes.len() } else { bytes.len() },
                { let v0 = if compressed { &cbytes } else { &bytes };
                  (0..b.len().min(v0.len())).step_by(8).filter(|&i| b[i..(i + 8).min(b.len()).min(v0.len())] != v0[i..(i + 8).min(b.len()).min(v0.len())])
                    .take(4).map(|i| (i, b[i..(i + 8).min(b.len())].to_vec())).collect::<Vec<_>>() }));
            let o = if compressed {
                outcome(|| Cpwpi::from_bytes(b.clone(), cd).map_err(|x| anyhow::anyhow!("{x:?}")))
            } else {
                outcome(|| Pwpi::from_bytes(b.clone(), cd).map_err(|x| anyhow::anyhow!("{x:?}")))
            };
            e.count(&format!("decode {}: {what} -> {o}", if compressed { "compressed" } else { "plain" }));
            if o == "PANIC" { e.oracle_failures.push(format!("from_bytes PANICS ({} form): {what}, {} bytes", if compressed { "compressed" } else { "plain" }, b.len())); }
            e.stage("between cases");
            o
        };
        for (b0, compressed) in [(&bytes, false), (&cbytes, true)] {
            if dec(e, "valid encoding", b0.clone(), compressed) != "OK" { e.oracle_failures.push("valid encoding does not decode".into()); }
            // truncation at every class of position: each of the first 64 cut points, then strided
            let n = b0.len();
            let cuts: Vec<usize> = (0..64.min(n)).chain((64..n).step_by(if thorough { 97 } else { 997 })).chain([n - 1]).collect();
            for c in cuts {
                if dec(e, "truncated", b0[..c].to_vec(), compressed) == "OK" && c < n { e.count("truncated encoding still decodes (trailing part unused)"); }
            }
            for _ in 0..(if thorough { 400 } else { 80 }) {
                let mut b = b0.clone();
                let i = r.below(n as u64) as usize;
                b[i] ^= 1 << r.below(8);
                dec(e, "bit flip", b, compressed);
            }
            // length-field edits: the last 8 bytes region that encodes the public-input count sits
            // right after the proof; try overwriting every aligned 8-byte window near both ends
            for off in (0..64.min(n - 8)).step_by(8).chain((n.saturating_sub(4096)..n - 8).step_by(8)) {
                for val in [u64::MAX, 1u64 << 60, 1 << 32, 0, 1] {
                    let mut b = b0.clone();
                    b[off..off + 8].copy_from_slice(&val.to_le_bytes());
                    dec(e, "8-byte field overwritten", b, compressed);
                }
            }
            for len in [0usize, 1, 7, 8, 9, 100, 1000] {
                let b: Vec<u8> = (0..len).map(|_| r.below(256) as u8).collect();
                dec(e, "random bytes", b, compressed);
            }
        }
    }
}
