//! C16: proof compression — real compress / decompress / verify_compressed on proofs whose query
//! indices collide (tiny LDE domains, many queries), the Lean model of FriProof::compress on the same
//! data, and the Lean path (de)compressor on the Merkle paths the real prover produced.
use plonky2::field::types::{Field, PrimeField64};
use plonky2::fri::proof::{CompressedFriProof, FriProof};
use plonky2::fri::reduction_strategies::FriReductionStrategy;
use plonky2::plonk::circuit_data::CircuitConfig;
use std::collections::HashSet;

use crate::dump::*;
use crate::progs::*;
use crate::util::*;

fn digests(hs: &[plonky2::hash::hash_types::HashOut<F>]) -> String {
    format!("{} {}", hs.len(), join(hs.iter().flat_map(|h| h.elements.iter().map(|x| x.to_canonical_u64()))))
}
fn gls(xs: &[F]) -> String {
    format!("{} {}", xs.len(), join(xs.iter().map(|x| x.to_canonical_u64())))
}
fn exts(xs: &[FE]) -> String {
    format!("{} {}", xs.len(), join(xs.iter().flat_map(|x| [x.0[0].to_canonical_u64(), x.0[1].to_canonical_u64()])))
}

pub fn show_compressed(c: &CompressedFriProof<F, H, 2>) -> String {
    let r = &c.query_round_proofs;
    let mut keys: Vec<&usize> = r.initial_trees_proofs.keys().collect();
    keys.sort();
    let ini: Vec<String> = keys.iter().map(|k| {
        let t = &r.initial_trees_proofs[*k].evals_proofs;
        format!("{} {} {}", k, t.len(), t.iter().map(|(leaf, mp)| format!("{} {}", gls(leaf), digests(&mp.siblings))).collect::<Vec<_>>().join(" "))
    }).collect();
    let steps: Vec<String> = r.steps.iter().map(|m| {
        let mut ks: Vec<&usize> = m.keys().collect();
        ks.sort();
        format!("{} {}", m.len(), ks.iter().map(|k| format!("{} {} {}", k, exts(&m[*k].evals), digests(&m[*k].merkle_proof.siblings))).collect::<Vec<_>>().join(" "))
    }).collect();
    format!("idx {} | init {} {} | steps {}", join(r.indices.iter()), keys.len(), ini.join(" "), steps.join(" ; "))
}

fn compress_request(fp: &FriProof<F, H, 2>, idx: &[usize], params: &plonky2::fri::FriParams) -> String {
    let mut t = Toks::default();
    t.fri_params(params);
    t.ns(idx);
    t.fri_proof(fp);
    format!("c16 compress {}", t.line())
}

/// `<common> <verifier-only> <compressed proof with pis>` — the input of `c16 decompress` / `c16 vcompressed`
fn compressed_request(op: &str, data: &plonky2::plonk::circuit_data::CircuitData<F, C, 2>, cp: &plonky2::plonk::proof::CompressedProofWithPublicInputs<F, C, 2>) -> String {
    let mut t = Toks::default();
    t.common(&data.common);
    t.verifier_only(&data.verifier_only);
    t.compressed_proof_with_pis(cp);
    format!("c16 {op} {}", t.line())
}

/// the real `CompressedProofWithPublicInputs::decompress`, its FRI proof as `Toks::fri_proof`
/// (a panic is caught by `Emitter::case` and reported as `PANIC`)
fn real_decompress(data: &plonky2::plonk::circuit_data::CircuitData<F, C, 2>, cp: &plonky2::plonk::proof::CompressedProofWithPublicInputs<F, C, 2>) -> String {
    match data.decompress(cp.clone()) {
        Ok(p) => { let mut t = Toks::default(); t.fri_proof(&p.proof.opening_proof); t.line() }
        Err(er) => format!("ERR {er}"),
    }
}

/// Forged proof objects (see `forge.rs`): all-zero polynomials for an arbitrary public-input vector,
/// quotient openings dropped. Plain and compressed verification must agree (C16) and neither may
/// accept (C02/C03/C18): the claimed public inputs are NOT the circuit's outputs.
fn forged_shapes(e: &mut Emitter, seed: u64, thorough: bool) {
    let mut r = Rng::new(seed ^ 0x16F0);
    for k in 0..(if thorough { 4 } else { 2 }) {
        let nops = r.range(10, 60) as usize;
        let prog = gen_prog(&mut r, nops, if k % 2 == 0 { 0 } else { 1 });
        let mut config = CircuitConfig::standard_recursion_config();
        if k % 2 == 1 { config.security_bits = 8; config.fri_config.num_query_rounds = 3; config.fri_config.proof_of_work_bits = 2; }
        e.stage("building a circuit for the forged-shape test");
        let Ok((data, _)) = std::panic::catch_unwind(std::panic::AssertUnwindSafe(|| prog.build(config.clone()))) else { continue };
        let (_, honest_pis) = prog.eval();
        // claimed public inputs: wrong on purpose
        let claimed: Vec<F> = honest_pis.iter().map(|x| *x + F::from_canonical_u64(1 + r.below(1000))).collect();
        if claimed.is_empty() { continue; }
        e.stage("impl: forging a proof object with dropped quotient openings");
        let Ok(forged) = std::panic::catch_unwind(std::panic::AssertUnwindSafe(|| crate::forge::forge_compressed_shape(&data, claimed.clone()))) else { e.count("forged shape: forger panicked"); continue; };
        let d = &data;
        let f2 = forged.clone();
        let plain = match std::panic::catch_unwind(std::panic::AssertUnwindSafe(|| d.verify(f2))) { Ok(Ok(())) => "OK", Ok(Err(_)) => "ERR", Err(_) => "PANIC" };
        let comp = match std::panic::catch_unwind(std::panic::AssertUnwindSafe(|| -> anyhow::Result<()> {
            let cp = forged.clone().compress(&d.verifier_only.circuit_digest, &d.common)?;
            d.verify_compressed(cp)
        })) { Ok(Ok(())) => "OK", Ok(Err(_)) => "ERR", Err(_) => "PANIC" };
        e.count(&format!("forged shape (false public inputs): verify={plain} verify_compressed(compress)={comp}"));
        if plain == "OK" { e.oracle_failures.push("FORGED proof (all-zero polynomials, false public inputs) ACCEPTED by verify".into()); }
        if comp == "OK" {
            e.oracle_failures.push(format!("F-C16-1: FORGED proof (all-zero polynomials, quotient openings dropped, FALSE public inputs) ACCEPTED by verify_compressed while verify says {plain}; security_bits {}", config.security_bits));
        }
    }
}

pub fn emit(e: &mut Emitter, seed: u64, thorough: bool) {
    forged_shapes(e, seed, thorough);

    let mut r = Rng::new(seed ^ 0x16);
    let n_circuits = if thorough { 40 } else { 10 };
    let mut made = 0;
    let mut tries = 0;
    while made < n_circuits && tries < 8 * n_circuits {
        tries += 1;
        let features = r.below(8);
        let nops = r.range(5, 40) as usize;
        let prog = gen_prog(&mut r, nops, features);
        // tiny LDE domain + many queries ⇒ repeated indices and shared cosets
        let mut config = CircuitConfig::standard_recursion_config();
        config.fri_config.num_query_rounds = *r.pick(&[28usize, 28, 40, 10]);
        config.fri_config.cap_height = r.range(0, 4) as usize;
        config.zero_knowledge = r.below(4) == 0;
        config.fri_config.reduction_strategy = match r.below(8) {
            5 => FriReductionStrategy::Fixed(vec![1, 2]),
            6 => FriReductionStrategy::Fixed(vec![2, 1]),
            7 => FriReductionStrategy::Fixed(if r.coin() { vec![3, 2, 1] } else { vec![1, 3] }),
            0 => FriReductionStrategy::ConstantArityBits(1, 1),
            1 => FriReductionStrategy::ConstantArityBits(2, 2),
            2 => FriReductionStrategy::MinSize(None),
            3 => FriReductionStrategy::ConstantArityBits(3, 2),
            _ => FriReductionStrategy::ConstantArityBits(4, 5),
        };
        if r.below(5) == 0 { config.security_bits = 20; config.fri_config.num_query_rounds = 7; }
        if config.zero_knowledge && matches!(config.fri_config.reduction_strategy, FriReductionStrategy::Fixed(_)) {
            // blinding never fits a Fixed schedule (F-C01-2): outside the admissible configurations
            config.zero_knowledge = false;
        }
        e.stage(&format!("building+proving a generated circuit ({} ops, config {:?})", prog.ops.len(), config));
        let built = std::panic::catch_unwind(std::panic::AssertUnwindSafe(|| {
            let (data, pw) = prog.build(config.clone());
            let proof = data.prove(pw);
            (data, proof)
        }));
        let (data, proof) = match built {
            Ok((d, Ok(p))) => (d, p),
            Ok((_, Err(_))) => { e.oracle_failures.push("satisfiable program failed to prove".into()); continue; }
            Err(_) => { e.count("inadmissible-config-or-build-panic"); continue; }
        };
        if data.common.fri_params.total_arities() > data.common.degree_bits() {
            // Fixed schedule longer than the degree allows: outside the admissible configurations
            e.count("inadmissible-fixed-schedule");
            continue;
        }
        made += 1;
        let pih = proof.get_public_inputs_hash();
        let ch = proof.get_challenges(pih, &data.verifier_only.circuit_digest, &data.common).unwrap();
        let idx = ch.fri_challenges.fri_query_indices.clone();
        let distinct: HashSet<usize> = idx.iter().copied().collect();
        let params = &data.common.fri_params;
        let shared_cosets = params.reduction_arity_bits.first().map(|a| {
            let cos: HashSet<usize> = distinct.iter().map(|i| i >> a).collect();
            cos.len() < distinct.len()
        }).unwrap_or(false);
        let class = format!("repeats={} shared-cosets={} layers={} zk={}", distinct.len() < idx.len(), shared_cosets, params.reduction_arity_bits.len(), data.common.config.zero_knowledge);
        e.count(&format!("proof: {class}"));

        // (1) implementation oracle: lossless + verification-equivalent
        e.stage(&format!("impl: compress/decompress/verify_compressed of an accepted proof (arities {:?}, query indices {:?}, cap_height {}, degree_bits {})", params.reduction_arity_bits, idx, params.config.cap_height, params.degree_bits));
        let v_plain = data.verify(proof.clone()).is_ok();
        let comp = std::panic::catch_unwind(std::panic::AssertUnwindSafe(|| proof.clone().compress(&data.verifier_only.circuit_digest, &data.common)));
        match comp {
            Ok(Ok(cp)) => {
                let back = std::panic::catch_unwind(std::panic::AssertUnwindSafe(|| cp.clone().decompress(&data.verifier_only.circuit_digest, &data.common)));
                match back {
                    Ok(Ok(p2)) => if p2 != proof { e.oracle_failures.push(format!("decompress(compress(p)) != p ({class}, arities {:?}, idx {:?})", params.reduction_arity_bits, idx)); },
                    Ok(Err(er)) => e.oracle_failures.push(format!("decompress failed: {er} ({class})")),
                    Err(_) => e.oracle_failures.push(format!("decompress panicked on an honestly compressed accepted proof ({class}, arities {:?})", params.reduction_arity_bits)),
                }
                let vc = std::panic::catch_unwind(std::panic::AssertUnwindSafe(|| data.verify_compressed(cp.clone()).is_ok()));
                match vc {
                    Ok(b) => if b != v_plain { e.oracle_failures.push(format!("verify_compressed={b} but verify={v_plain} ({class}, arities {:?})", params.reduction_arity_bits)); },
                    Err(_) => e.oracle_failures.push(format!("verify_compressed panicked on an honestly compressed accepted proof ({class}, arities {:?})", params.reduction_arity_bits)),
                }
                // (2) the model of FriProof::compress on the same proof and indices
                let cfp = cp.proof.opening_proof.clone();
                e.case("fri-proof-compress", compress_request(&proof.proof.opening_proof, &idx, params), || show_compressed(&cfp));
                // (2b) ProofWithPublicInputs::compress with the query indices recomputed from the transcript
                {
                    let mut t = Toks::default();
                    t.common(&data.common);
                    t.verifier_only(&data.verifier_only);
                    t.proof_with_pis(&proof);
                    e.case("plonk-proof-compress", format!("c16 pcompress {}", t.line()), || show_compressed(&cfp));
                }
                // (2c) the model of CompressedProofWithPublicInputs::decompress (get_challenges on the
                //      compressed form, get_inferred_elements, CompressedFriProof::decompress) against the
                //      real one, and of ::verify against verify_compressed
                e.case("plonk-proof-decompress", compressed_request("decompress", &data, &cp), || real_decompress(&data, &cp));
                e.case("verify-compressed", compressed_request("vcompressed", &data, &cp), || plonk_verdict(data.verify_compressed(cp.clone())));
                // (2d) edited compressed proofs: a map entry removed (the real code panics, F-C18-2; the
                //      model must report the panic too), a stored coset evaluation or leaf changed (no
                //      panic: both sides must rebuild the same proof, with the inferred elements of the
                //      later layers following the edit, and give the same verdict)
                for _ in 0..(if thorough { 6 } else { 3 }) {
                    let mut bad = cp.clone();
                    let kind = r.below(5);
                    let class = {
                        let rounds = &mut bad.proof.opening_proof.query_round_proofs;
                        let nsteps = rounds.steps.len();
                        match kind {
                            0 => {
                                let mut ks: Vec<usize> = rounds.initial_trees_proofs.keys().copied().collect();
                                ks.sort();
                                let k = *r.pick(&ks);
                                rounds.initial_trees_proofs.remove(&k);
                                "initial-entry-removed"
                            }
                            1 if nsteps > 0 => {
                                let j = r.below(nsteps as u64) as usize;
                                let mut ks: Vec<usize> = rounds.steps[j].keys().copied().collect();
                                ks.sort();
                                let k = *r.pick(&ks);
                                rounds.steps[j].remove(&k);
                                "step-entry-removed"
                            }
                            2 if nsteps > 0 => {
                                let j = r.below(nsteps as u64) as usize;
                                let mut ks: Vec<usize> = rounds.steps[j].keys().copied().collect();
                                ks.sort();
                                let k = *r.pick(&ks);
                                let st = rounds.steps[j].get_mut(&k).unwrap();
                                let n = st.evals.len();
                                st.evals[r.below(n as u64) as usize] += FE::ONE;
                                "step-eval-changed"
                            }
                            3 => {
                                let mut ks: Vec<usize> = rounds.initial_trees_proofs.keys().copied().collect();
                                ks.sort();
                                let k = *r.pick(&ks);
                                let ent = rounds.initial_trees_proofs.get_mut(&k).unwrap();
                                let t = r.below(ent.evals_proofs.len() as u64) as usize;
                                let n = ent.evals_proofs[t].0.len();
                                ent.evals_proofs[t].0[r.below(n as u64) as usize] += F::ONE;
                                "initial-leaf-changed"
                            }
                            _ => {
                                // the recorded index list is not what decompress iterates over (it uses
                                // the Fiat–Shamir indices): dropping it changes nothing
                                rounds.indices.clear();
                                "indices-field-cleared"
                            }
                        }
                    };
                    e.case(&format!("edited-compressed-decompress: {class}"), compressed_request("decompress", &data, &bad), || real_decompress(&data, &bad));
                    e.case(&format!("edited-compressed-verify: {class}"), compressed_request("vcompressed", &data, &bad), || plonk_verdict(data.verify_compressed(bad.clone())));
                }
            }
            Ok(Err(er)) => e.oracle_failures.push(format!("compress failed: {er}")),
            Err(_) => e.oracle_failures.push(format!("compress panicked on an accepted proof ({class})")),
        }
        if !v_plain { e.oracle_failures.push("honest proof rejected".into()); }

        // (3) the Lean path compressor/decompressor on real Merkle paths of the wires oracle, with
        //     index multisets of our choosing (subsets, repeats, sibling pairs)
        let fp = &proof.proof.opening_proof;
        let height = params.lde_bits();
        let cap_h = params.config.cap_height;
        for _ in 0..3 {
            let k = r.range(1, idx.len() as u64) as usize;
            let mut sel: Vec<usize> = (0..k).map(|_| r.below(idx.len() as u64) as usize).collect();
            if r.coin() { let s0 = sel[0]; sel.push(s0); }
            let mut t = Toks::default();
            t.n(height);
            t.n(cap_h);
            t.ns(&sel.iter().map(|&q| idx[q]).collect::<Vec<_>>());
            let oracle = r.below(4) as usize;
            for &q in &sel { t.fs(&fp.query_round_proofs[q].initial_trees_proof.evals_proofs[oracle].0); }
            for &q in &sel { t.digests(&fp.query_round_proofs[q].initial_trees_proof.evals_proofs[oracle].1.siblings); }
            // the implementation-side answer is unknown for arbitrary multisets (compress_merkle_proofs is
            // crate-private); the request asks the model for its own round trip, which must succeed
            e.case("path-roundtrip-on-real-paths", format!("c16 paths {}", t.line()), || "ROUNDTRIP-OK".to_string());
        }
        // tampered proofs: accepted-ness of plain and compressed forms must coincide
        for _ in 0..2 {
            let mut bad = proof.clone();
            match r.below(3) {
                0 => { let k = r.below(bad.proof.openings.wires.len() as u64) as usize; bad.proof.openings.wires[k] += FE::ONE; }
                1 => { bad.public_inputs[0] += F::ONE; }
                _ => { let k = r.below(bad.proof.opening_proof.final_poly.coeffs.len() as u64) as usize; bad.proof.opening_proof.final_poly.coeffs[k] += FE::ONE; }
            }
            let vp = data.verify(bad.clone()).is_ok();
            let vc = std::panic::catch_unwind(std::panic::AssertUnwindSafe(|| {
                match bad.clone().compress(&data.verifier_only.circuit_digest, &data.common) {
                    Ok(cp) => data.verify_compressed(cp).is_ok(),
                    Err(_) => false,
                }
            })).unwrap_or(false);
            e.count("tampered: plain vs compressed verdict");
            if vp != vc { e.oracle_failures.push(format!("tampered proof: verify={vp} but verify_compressed(compress)={vc}")); }
        }
    }
}
