//! ad-hoc experiments (not part of any check)
use plonky2::iop::generator::generate_partial_witness;
use plonky2::iop::witness::PartitionWitness;
use plonky2::plonk::circuit_data::CircuitConfig;
use plonky2::plonk::prover::prove_with_partition_witness;
use plonky2::util::timing::TimingTree;
use crate::progs::*;

pub fn run() {
    for (nw, nr) in [(135usize, 80usize), (200, 120), (135, 61), (135, 37), (135, 50), (200, 100), (200, 128)] {
        for variant in 0..2 {
            let mut config = CircuitConfig::standard_recursion_config();
            config.num_wires = nw;
            config.num_routed_wires = nr;
            let c = 777u64;
            let ops = if variant == 0 {
                vec![Op::Input(c), Op::Const(c), Op::Connect(0, 1), Op::Mul(0, 0), Op::Public(0), Op::Public(3)]
            } else {
                vec![Op::Input(c), Op::Input(c), Op::Connect(0, 1), Op::Public(1)]
            };
            let prog = Prog { ops, tables: vec![], skip_connect: false };
            let mut bad = prog.clone();
            bad.ops[0] = Op::Input(5);
            bad.skip_connect = true;
            let (data, _) = prog.build(config.clone());
            let (twin, pw_bad) = bad.build(config.clone());
            let wit = generate_partial_witness(pw_bad, &twin.prover_only, &twin.common).unwrap();
            let w = PartitionWitness { values: wit.values.clone(), representative_map: &twin.prover_only.representative_map, num_wires: wit.num_wires, degree: wit.degree };
            let mut timing = TimingTree::default();
            let p = prove_with_partition_witness(&data.prover_only, &data.common, w, &mut timing);
            match p {
                Ok(p) => println!("wires {nw}/{nr} variant {variant}: degree_bits {} pis {:?} verify => {:?}", data.common.degree_bits(), p.public_inputs, data.verify(p.clone()).map_err(|e| e.to_string())),
                Err(e) => println!("wires {nw}/{nr} variant {variant}: prove err {e}"),
            }
        }
    }
}
