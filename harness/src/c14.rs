//! C14: every scalar operator of GoldilocksField and the extension fields, on boundary,
//! branch-witness, carry-shaped and random operands. Answers carry the raw representation
//! (bit-exact against the L0 model) and the canonical value (against Nat arithmetic mod P).
use plonky2_field::extension::quadratic::QuadraticExtension;
use plonky2_field::extension::quartic::QuarticExtension;
use plonky2_field::extension::quintic::QuinticExtension;
use plonky2_field::extension::{FieldExtension, Frobenius};
use plonky2_field::goldilocks_field::GoldilocksField as F;
use plonky2_field::ops::Square;
use plonky2_field::types::{Field, Field64, PrimeField64};

use crate::util::*;

fn vc(x: F) -> String {
    format!("{} {}", x.0, x.to_canonical_u64())
}

fn scalar_ops(e: &mut Emitter, class: &str, a: u64, b: u64, c: u64) {
    let (fa, fb, fc) = (F(a), F(b), F(c));
    e.case(class, format!("c14 add {a} {b}"), || vc(fa + fb));
    e.case(class, format!("c14 sub {a} {b}"), || vc(fa - fb));
    e.case(class, format!("c14 neg {a}"), || vc(-fa));
    e.case(class, format!("c14 mul {a} {b}"), || vc(fa * fb));
    e.case(class, format!("c14 sq {a}"), || vc(fa.square()));
    e.case(class, format!("c14 mulacc {c} {a} {b}"), || vc(fc.multiply_accumulate(fa, fb)));
    e.case(class, format!("c14 canon {a}"), || {
        format!("{} {}", fa.to_canonical_u64(), fa.to_canonical_u64())
    });
}

fn reductions(e: &mut Emitter, class: &str, lo: u64, hi: u64) {
    let x: u128 = ((hi as u128) << 64) | lo as u128;
    e.case(class, format!("c14 red128 {x}"), || vc(F::from_noncanonical_u128(x)));
    let hi32 = hi as u32;
    e.case(class, format!("c14 red96 {lo} {hi32}"), || vc(F::from_noncanonical_u96((lo, hi32))));
    e.case(class, format!("c14 fromi64 {lo}"), || vc(F::from_noncanonical_i64(lo as i64)));
}

fn canonical_ops(e: &mut Emitter, class: &str, a: u64, rhs: u64) {
    let fa = F(a);
    e.case(class, format!("c14 addc {a} {rhs}"), || vc(unsafe { fa.add_canonical_u64(rhs) }));
    e.case(class, format!("c14 subc {a} {rhs}"), || vc(unsafe { fa.sub_canonical_u64(rhs) }));
}

fn ext_ops<const D: usize, E>(e: &mut Emitter, class: &str, a: [u64; D], b: [u64; D], k: usize)
where
    E: FieldExtension<D, BaseField = F> + Frobenius<D> + Field,
{
    let ea = E::from_basefield_array(a.map(F));
    let eb = E::from_basefield_array(b.map(F));
    let raw = |x: E| join(x.to_basefield_array().iter().map(|y| y.0));
    let can = |x: E| join(x.to_basefield_array().iter().map(|y| y.to_canonical_u64()));
    let (sa, sb) = (join(a.iter()), join(b.iter()));
    e.case(class, format!("c14 extmul {D} {sa} {sb}"), || {
        let p = ea * eb;
        format!("{} | {}", raw(p), can(p))
    });
    e.case(class, format!("c14 extadd {D} {sa} {sb}"), || can(ea + eb));
    e.case(class, format!("c14 extsub {D} {sa} {sb}"), || can(ea - eb));
    e.case(class, format!("c14 extneg {D} {sa}"), || can(-ea));
    e.case(class, format!("c14 extsq {D} {sa}"), || can(ea.square()));
    e.case(class, format!("c14 extinv {D} {sa}"), || match ea.try_inverse() {
        None => "NONE".into(),
        Some(x) => can(x),
    });
    e.case(class, format!("c14 extfrob {D} {k} {sa}"), || can(ea.repeated_frobenius(k)));
    e.case(class, format!("c14 extdiv {D} {sa} {sb}"), || {
        if eb.is_zero() {
            "NONE".into()
        } else {
            can(ea / eb)
        }
    });
}

/// exp_biguint on exponents of several 64-bit limbs, zero limbs included (2^64, 3·2^64, 2^128 + 5, …)
fn big_exponents(e: &mut Emitter, r: &mut Rng, thorough: bool) {
    use num::BigUint;
    let shapes: Vec<Vec<u64>> = vec![vec![0, 1], vec![0, 3], vec![5, 0, 1], vec![0, 0, 1], vec![1, 0], vec![0, P - 1], vec![u64::MAX, 0, 2], vec![7], vec![0], vec![]];
    for rep in 0..(if thorough { 400 } else { 60 }) {
        let limbs: Vec<u64> = if rep < shapes.len() { shapes[rep].clone() } else {
            (0..r.range(1, 4)).map(|_| match r.below(4) { 0 => 0, 1 => r.below(4), _ => r.next() }).collect()
        };
        let x = if rep % 5 == 0 { *r.pick(&boundary()) } else { r.next() };
        let power = limbs.iter().rev().fold(BigUint::from(0u32), |acc, &l| (acc << 64) + BigUint::from(l));
        e.case("exp-biguint", format!("c14 expbig {x} {}", join(limbs.iter())), || F(x).exp_biguint(&power).to_canonical_u64().to_string());
    }
}

/// operands of the quadratic / quartic extension product for which the 160-bit delayed-reduction
/// accumulator's multiplication by W = 7 carries through its whole upper limb: the partial product
/// t = a₁·b has 7·(t >> 64) within 6 of 2^64 (mod 2^64) and a large low limb
fn ext_mul_carry_cases(e: &mut Emitter, r: &mut Rng, thorough: bool) {
    // 7^{-1} mod 2^64
    let inv7: u64 = 0x6DB6_DB6D_B6DB_6DB7;
    debug_assert_eq!(inv7.wrapping_mul(7), 1);
    let mut made = 0;
    let mut tries = 0;
    while made < (if thorough { 300 } else { 60 }) && tries < 200_000 {
        tries += 1;
        let k = 1 + r.below(6);
        let t_hi = (0u64.wrapping_sub(k)).wrapping_mul(inv7);          // 7·t_hi ≡ −k (mod 2^64)
        let b = r.next() | (1 << 63);
        if (t_hi as u128) >= b as u128 { continue; }
        let a = ((((t_hi as u128) << 64) + b as u128 - 1) / b as u128) as u64;
        let t = a as u128 * b as u128;
        if (t >> 64) as u64 != t_hi { continue; }
        let lo = t as u64;
        if ((lo as u128 * 7) >> 64) < k as u128 { continue; }
        // quadratic: c0 = a0·b0 + 7·a1·b1
        let (x0, y0) = (r.next(), r.next());
        ext_ops::<2, plonky2::field::extension::quadratic::QuadraticExtension<F>>(e, "extmul-times7-carry", [x0, a], [y0, b], 1);
        // quartic: c0 = a0·b0 + 7·(a1·b3 + a2·b2 + a3·b1) with only a1·b3 non-zero
        ext_ops::<4, plonky2::field::extension::quartic::QuarticExtension<F>>(e, "extmul-times7-carry", [x0, a, 0, 0], [y0, 0, 0, b], 1);
        made += 1;
    }
    e.count(&format!("ext-mul times-7 carry cases made: {made}"));
}

/// `Field::MULTIPLICATIVE_GROUP_GENERATOR` is documented as a generator of the whole multiplicative
/// group. g generates iff g^((|E|−1)/q) ≠ 1 for every prime q | |E|−1; one small prime factor per
/// extension is enough to refute it (7 | p+1, 13 | p²+1; 3 | p−1 for the quintic and the base field).
fn generator_orders(e: &mut Emitter) {
    use num::BigUint;
    use plonky2::field::extension::quadratic::QuadraticExtension;
    use plonky2::field::extension::quartic::QuarticExtension;
    use plonky2::field::extension::quintic::QuinticExtension;
    use plonky2::field::types::Field;
    fn one_q<K: Field>(e: &mut Emitter, name: &str, d: u32, q: u32) {
        let order = BigUint::from(P).pow(d) - 1u32;
        assert!((&order % q) == BigUint::from(0u32));
        let y = K::MULTIPLICATIVE_GROUP_GENERATOR.exp_biguint(&(&order / q));
        e.count(&format!("generator order probe: {name}, q = {q}"));
        if y == K::ONE {
            crate::c09::finding(e, "F-C14-1", format!("MULTIPLICATIVE_GROUP_GENERATOR of {name} is not a generator of the multiplicative group: g^((|E|-1)/{q}) = 1"));
        }
    }
    for q in [2u32, 3, 5, 17, 257, 65537] { one_q::<plonky2::field::goldilocks_field::GoldilocksField>(e, "the base field", 1, q); }
    for q in [2u32, 3, 5, 7, 179] { one_q::<QuadraticExtension<plonky2::field::goldilocks_field::GoldilocksField>>(e, "the quadratic extension", 2, q); }
    for q in [2u32, 3, 7, 13, 37, 113, 1429] { one_q::<QuarticExtension<plonky2::field::goldilocks_field::GoldilocksField>>(e, "the quartic extension", 4, q); }
    for q in [2u32, 3, 5, 17, 257, 65537] { one_q::<QuinticExtension<plonky2::field::goldilocks_field::GoldilocksField>>(e, "the quintic extension", 5, q); }
}

pub fn emit(e: &mut Emitter, seed: u64, thorough: bool) {
    let mut r = Rng::new(seed);
    generator_orders(e);
    big_exponents(e, &mut r, thorough);
    ext_mul_carry_cases(e, &mut r, thorough);
    let bd = boundary();
    // 1. all boundary pairs (and a rotating third operand)
    for (i, &a) in bd.iter().enumerate() {
        for (j, &b) in bd.iter().enumerate() {
            scalar_ops(e, "boundary-pair", a, b, bd[(i + j) % bd.len()]);
            reductions(e, "boundary-pair", a, b);
            canonical_ops(e, "boundary-pair", a, b % P);
        }
    }
    // 2. branch witnesses: double overflow of add (both > P), double underflow of sub
    for _ in 0..2000 {
        let a = P + 1 + r.below(EPS - 1);
        let b = P + 1 + r.below(EPS - 1);
        scalar_ops(e, "add-double-overflow", a, b, r.next());
        let a2 = r.below(EPS - 1);
        scalar_ops(e, "sub-double-underflow", a2, b, r.next());
    }
    // 3. reduce128 borrow branch: x_lo < x_hi_hi, and carry of the final addition
    for _ in 0..4000 {
        let hihi = r.below(1 << 32);
        let hilo = r.below(1 << 32);
        let lo = if r.coin() { r.below(hihi + 1) } else { u64::MAX - r.below(1 << 33) };
        reductions(e, "reduce-borrow-carry", lo, (hihi << 32) | hilo);
    }
    // 4. mixture
    let n = if thorough { 400_000 } else { 25_000 };
    for _ in 0..n {
        let (a, b, c) = (word(&mut r), word(&mut r), word(&mut r));
        scalar_ops(e, "mixture", a, b, c);
        reductions(e, "mixture", a, b);
        canonical_ops(e, "mixture", a, r.below(P));
    }
    // the guard of add_canonical_u64 (rhs < P) is necessary: non-canonical rhs may trap
    for _ in 0..200 {
        canonical_ops(e, "noncanonical-rhs", word(&mut r), P + r.below(EPS));
    }
    // 5. inversion / exponentiation
    let n = if thorough { 20_000 } else { 1_500 };
    for i in 0..n {
        let a = if i < bd.len() { bd[i] } else { word(&mut r) };
        e.case("inv", format!("c14 inv {a}"), || match F(a).try_inverse() {
            None => "NONE".into(),
            Some(x) => vc(x),
        });
        let ex = match r.below(4) { 0 => r.below(70), 1 => *r.pick(&bd), _ => r.next() };
        e.case("exp", format!("c14 expu64 {a} {ex}"), || vc(F(a).exp_u64(ex)));
        let k = r.below(70);
        e.case("exp", format!("c14 exp2 {a} {k}"), || vc(F(a).exp_power_of_2(k as usize)));
    }
    for ex in 0..200u64 {
        e.case("inv2exp", format!("c14 inv2exp {ex}"), || {
            F::inverse_2exp(ex as usize).to_canonical_u64().to_string()
        });
    }
    for ex in (0..80u64).chain([95, 96, 97, 127, 128, 129, 200]) {
        e.case("ext-inv2exp", format!("c14 extinv2exp 2 {ex}"), || join(FieldExtension::<2>::to_basefield_array(&QuadraticExtension::<F>::inverse_2exp(ex as usize)).iter().map(|y| y.to_canonical_u64())));
        e.case("ext-inv2exp", format!("c14 extinv2exp 4 {ex}"), || join(FieldExtension::<4>::to_basefield_array(&QuarticExtension::<F>::inverse_2exp(ex as usize)).iter().map(|y| y.to_canonical_u64())));
        e.case("ext-inv2exp", format!("c14 extinv2exp 5 {ex}"), || join(FieldExtension::<5>::to_basefield_array(&QuinticExtension::<F>::inverse_2exp(ex as usize)).iter().map(|y| y.to_canonical_u64())));
    }
    // 6. batch inversion, every length 0..67 and longer
    for len in (0..68).chain([100, 255, 256, 1000]) {
        let xs: Vec<u64> = (0..len).map(|_| loop {
            let w = word(&mut r);
            if F(w).is_nonzero() { break w; }
        }).collect();
        let fx: Vec<F> = xs.iter().map(|&x| F(x)).collect();
        e.case("batch-inverse", format!("c14 binv {}", join(xs.iter())), || {
            join(F::batch_multiplicative_inverse(&fx).iter().map(|y| y.to_canonical_u64()))
        });
    }
    // 7. extensions: all-max words (largest accumulators), boundary and mixture
    let n = if thorough { 60_000 } else { 4_000 };
    for i in 0..n {
        let mut w = |r: &mut Rng| match i % 4 {
            0 => *r.pick(&[u64::MAX, u64::MAX - 1, P - 1, P, 0, 1]),
            _ => word(r),
        };
        let a2 = [w(&mut r), w(&mut r)];
        let b2 = [w(&mut r), w(&mut r)];
        ext_ops::<2, QuadraticExtension<F>>(e, "ext2", a2, b2, r.below(5) as usize);
        let a4 = [w(&mut r), w(&mut r), w(&mut r), w(&mut r)];
        let b4 = [w(&mut r), w(&mut r), w(&mut r), w(&mut r)];
        ext_ops::<4, QuarticExtension<F>>(e, "ext4", a4, b4, r.below(9) as usize);
        let a5 = [w(&mut r), w(&mut r), w(&mut r), w(&mut r), w(&mut r)];
        let b5 = [w(&mut r), w(&mut r), w(&mut r), w(&mut r), w(&mut r)];
        ext_ops::<5, QuinticExtension<F>>(e, "ext5", a5, b5, r.below(11) as usize);
    }
}
