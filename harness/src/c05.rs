//! C05: standalone FRI opening proofs (PolynomialBatch::prove_openings / verify_fri_proof) over
//! oracle shapes, degrees, strategies, and a deviation catalogue with the challenges held fixed.
use plonky2::field::extension::Extendable;
use plonky2::field::goldilocks_field::GoldilocksField as F;
use plonky2::field::polynomial::PolynomialCoeffs;
use plonky2::field::types::{Field, Sample};
use plonky2::fri::oracle::PolynomialBatch;
use plonky2::fri::proof::{FriChallenges, FriProof};
use plonky2::fri::reduction_strategies::FriReductionStrategy;
use plonky2::fri::structure::{FriBatchInfo, FriInstanceInfo, FriOpeningBatch, FriOpenings, FriOracleInfo, FriPolynomialInfo};
use plonky2::fri::verifier::verify_fri_proof;
use plonky2::fri::{FriConfig, FriParams};
use plonky2::hash::merkle_tree::MerkleCap;
use plonky2::iop::challenger::Challenger;
use plonky2::plonk::config::PoseidonGoldilocksConfig;
use plonky2::util::timing::TimingTree;

use crate::dump::*;
use crate::util::*;

type C = PoseidonGoldilocksConfig;
const D: usize = 2;

pub struct Case {
    pub instance: FriInstanceInfo<F, D>,
    pub openings: FriOpenings<F, D>,
    pub challenges: FriChallenges<F, D>,
    pub caps: Vec<MerkleCap<F, H>>,
    pub proof: FriProof<F, H, D>,
    pub params: FriParams,
}

impl Case {
    pub fn request(&self) -> String {
        let mut t = Toks::default();
        t.fri_params(&self.params);
        t.instance(&self.instance);
        t.openings(&self.openings);
        t.challenges(&self.challenges);
        t.n(self.caps.len());
        for c in &self.caps {
            t.cap(c);
        }
        t.fri_proof(&self.proof);
        format!("c05 verify {}", t.line())
    }
    pub fn verify(&self) -> String {
        fri_verdict(verify_fri_proof::<F, C, D>(&self.instance, &self.openings, &self.challenges, &self.caps, &self.proof, &self.params))
    }
}

pub fn rand_f(r: &mut Rng) -> F {
    F::from_canonical_u64(r.below(P))
}

/// Build an honest case. `None` when the configuration is inadmissible (loud panic while proving).
pub fn honest(r: &mut Rng, degree_bits: usize, config: FriConfig, hiding: bool, n_oracles: usize, max_polys: u64, n_points: usize) -> Option<Case> {
    let params = config.fri_params(degree_bits, hiding);
    let n = 1usize << degree_bits;
    let res = std::panic::catch_unwind(std::panic::AssertUnwindSafe(|| {
        let mut rr = r.clone();
        let mut timing = TimingTree::default();
        let mut oracles_info = vec![];
        let mut batches_polys: Vec<PolynomialBatch<F, C, D>> = vec![];
        for _ in 0..n_oracles {
            let np = rr.range(1, max_polys) as usize;
            let blinding = rr.coin();
            let polys: Vec<PolynomialCoeffs<F>> = (0..np)
                .map(|j| {
                    let mut c: Vec<F> = (0..n).map(|_| rand_f(&mut rr)).collect();
                    if j % 3 == 2 { for x in c.iter_mut().skip(n / 2) { *x = F::ZERO; } }
                    PolynomialCoeffs::new(c)
                })
                .collect();
            oracles_info.push(FriOracleInfo { num_polys: np, blinding });
            batches_polys.push(PolynomialBatch::from_coeffs(polys, config.rate_bits, blinding && hiding, config.cap_height, &mut timing, None));
        }
        let mut challenger = Challenger::<F, H>::new();
        for b in &batches_polys {
            challenger.observe_cap::<H>(&b.merkle_tree.cap);
        }
        let zeta = challenger.get_extension_challenge::<D>();
        let g = <F as Extendable<D>>::Extension::from(F::primitive_root_of_unity(degree_bits));
        let mut points = vec![zeta, zeta * g];
        if n_points > 2 {
            points.push(zeta * zeta);
        }
        points.truncate(n_points.max(1));
        let mut batches = vec![];
        for (pi, &pt) in points.iter().enumerate() {
            let mut polys = vec![];
            for (oi, o) in oracles_info.iter().enumerate() {
                // first point opens everything; later points open a sub-range of some oracles
                let range = if pi == 0 { 0..o.num_polys } else if (oi + pi) % 2 == 0 { 0..(o.num_polys + 1) / 2 } else { 0..0 };
                polys.extend(FriPolynomialInfo::from_range(oi, range));
            }
            if polys.is_empty() {
                polys.extend(FriPolynomialInfo::from_range(0, 0..1));
            }
            batches.push(FriBatchInfo { point: pt, polynomials: polys });
        }
        let instance = FriInstanceInfo { oracles: oracles_info, batches };
        let openings = FriOpenings {
            batches: instance.batches.iter().map(|b| FriOpeningBatch {
                values: b.polynomials.iter().map(|p| batches_polys[p.oracle_index].polynomials[p.polynomial_index].to_extension::<D>().eval(b.point)).collect(),
            }).collect(),
        };
        challenger.observe_openings(&openings);
        let mut ch_v = challenger.clone();
        let refs: Vec<&PolynomialBatch<F, C, D>> = batches_polys.iter().collect();
        let proof = PolynomialBatch::<F, C, D>::prove_openings(&instance, &refs, &mut challenger, &params, None, None, &mut timing);
        let challenges = ch_v.fri_challenges::<C, D>(&proof.commit_phase_merkle_caps, &proof.final_poly, proof.pow_witness, degree_bits, &params.config, None, None);
        let caps = batches_polys.iter().map(|b| b.merkle_tree.cap.clone()).collect();
        (rr, Case { instance, openings, challenges, caps, proof, params: params.clone() })
    }));
    match res {
        Ok((rr, c)) => {
            *r = rr;
            Some(c)
        }
        Err(_) => None,
    }
}

fn bump_f(x: &mut F) {
    *x += F::ONE;
}

pub fn clone_case(base: &Case) -> Case {
    Case {
        instance: base.instance.clone(),
        openings: FriOpenings { batches: base.openings.batches.iter().map(|b| FriOpeningBatch { values: b.values.clone() }).collect() },
        challenges: FriChallenges { fri_alpha: base.challenges.fri_alpha, fri_betas: base.challenges.fri_betas.clone(), fri_pow_response: base.challenges.fri_pow_response, fri_query_indices: base.challenges.fri_query_indices.clone() },
        caps: base.caps.clone(),
        proof: base.proof.clone(),
        params: base.params.clone(),
    }
}

/// The deviation catalogue: every class of single edit, challenges held fixed.
pub fn deviations(e: &mut Emitter, r: &mut Rng, base: &Case, per_class: usize) {
    let nq = base.proof.query_round_proofs.len();
    // targeted: deviations placed in a round that repeats an earlier index or revisits a coset
    {
        let idx = &base.challenges.fri_query_indices;
        let arities = &base.params.reduction_arity_bits;
        for q in 1..idx.len().min(nq) {
            if idx[..q].contains(&idx[q]) {
                let mut c = clone_case(base);
                let ep = &mut c.proof.query_round_proofs[q].initial_trees_proof.evals_proofs;
                let o = r.below(ep.len() as u64) as usize;
                let k = r.below(ep[o].0.len() as u64) as usize;
                ep[o].0[k] += F::ONE;
                let req = c.request();
                e.case("edit-in-round-repeating-an-index", req, || c.verify());
            }
            let mut shift = 0;
            for (j, a) in arities.iter().enumerate() {
                shift += a;
                if idx[..q].iter().any(|&i| i >> shift == idx[q] >> shift) {
                    let mut c = clone_case(base);
                    let st = &mut c.proof.query_round_proofs[q].steps[j];
                    if r.coin() && !st.merkle_proof.siblings.is_empty() {
                        let k = r.below(st.merkle_proof.siblings.len() as u64) as usize;
                        st.merkle_proof.siblings[k].elements[0] += F::ONE;
                    } else {
                        let k = r.below(st.evals.len() as u64) as usize;
                        st.evals[k] += <F as Extendable<D>>::Extension::ONE;
                    }
                    let req = c.request();
                    e.case("edit-in-round-revisiting-a-coset", req, || c.verify());
                }
            }
        }
    }
    macro_rules! dev {
        ($class:expr, $c:ident, $body:block) => {{
            let mut $c = Case {
                instance: base.instance.clone(),
                openings: FriOpenings { batches: base.openings.batches.iter().map(|b| FriOpeningBatch { values: b.values.clone() }).collect() },
                challenges: FriChallenges { fri_alpha: base.challenges.fri_alpha, fri_betas: base.challenges.fri_betas.clone(), fri_pow_response: base.challenges.fri_pow_response, fri_query_indices: base.challenges.fri_query_indices.clone() },
                caps: base.caps.clone(),
                proof: base.proof.clone(),
                params: base.params.clone(),
            };
            let applicable: bool = $body;
            if applicable {
                let req = $c.request();
                e.case($class, req, || $c.verify());
            }
        }};
    }
    for _ in 0..per_class {
        let q = r.below(nq.max(1) as u64) as usize;
        dev!("wrong-opening", c, {
            let b = r.below(c.openings.batches.len() as u64) as usize;
            let k = r.below(c.openings.batches[b].values.len() as u64) as usize;
            c.openings.batches[b].values[k] += <F as Extendable<D>>::Extension::ONE;
            true
        });
        dev!("bad-pow-response", c, {
            c.challenges.fri_pow_response = F::from_canonical_u64(P - 1 - r.below(1 << 20));
            c.params.config.proof_of_work_bits > 0
        });
        dev!("initial-leaf-edit", c, {
            if nq == 0 { false } else {
                let o = r.below(c.proof.query_round_proofs[q].initial_trees_proof.evals_proofs.len() as u64) as usize;
                let leaf = &mut c.proof.query_round_proofs[q].initial_trees_proof.evals_proofs[o].0;
                let k = r.below(leaf.len() as u64) as usize;
                bump_f(&mut leaf[k]);
                true
            }
        });
        dev!("initial-sibling-edit", c, {
            if nq == 0 { false } else {
                let o = r.below(c.proof.query_round_proofs[q].initial_trees_proof.evals_proofs.len() as u64) as usize;
                let sib = &mut c.proof.query_round_proofs[q].initial_trees_proof.evals_proofs[o].1.siblings;
                if sib.is_empty() { false } else {
                    let k = r.below(sib.len() as u64) as usize;
                    bump_f(&mut sib[k].elements[r.below(4) as usize]);
                    true
                }
            }
        });
        dev!("step-eval-edit", c, {
            if nq == 0 || c.proof.query_round_proofs[q].steps.is_empty() { false } else {
                let s = r.below(c.proof.query_round_proofs[q].steps.len() as u64) as usize;
                let ev = &mut c.proof.query_round_proofs[q].steps[s].evals;
                let k = r.below(ev.len() as u64) as usize;
                ev[k] += <F as Extendable<D>>::Extension::ONE;
                true
            }
        });
        dev!("step-sibling-edit", c, {
            if nq == 0 || c.proof.query_round_proofs[q].steps.is_empty() { false } else {
                let s = r.below(c.proof.query_round_proofs[q].steps.len() as u64) as usize;
                let sib = &mut c.proof.query_round_proofs[q].steps[s].merkle_proof.siblings;
                if sib.is_empty() { false } else {
                    let k = r.below(sib.len() as u64) as usize;
                    bump_f(&mut sib[k].elements[r.below(4) as usize]);
                    true
                }
            }
        });
        dev!("commit-cap-edit", c, {
            if c.proof.commit_phase_merkle_caps.is_empty() { false } else {
                let s = r.below(c.proof.commit_phase_merkle_caps.len() as u64) as usize;
                for h in c.proof.commit_phase_merkle_caps[s].0.iter_mut() { bump_f(&mut h.elements[0]); }
                true
            }
        });
        dev!("initial-cap-edit", c, {
            let s = r.below(c.caps.len() as u64) as usize;
            for h in c.caps[s].0.iter_mut() { bump_f(&mut h.elements[1]); }
            true
        });
        dev!("final-poly-edit", c, {
            let k = r.below(c.proof.final_poly.coeffs.len() as u64) as usize;
            c.proof.final_poly.coeffs[k] += <F as Extendable<D>>::Extension::ONE;
            true
        });
        dev!("beta-changed", c, {
            if c.challenges.fri_betas.is_empty() { false } else {
                let k = r.below(c.challenges.fri_betas.len() as u64) as usize;
                c.challenges.fri_betas[k] += <F as Extendable<D>>::Extension::ONE;
                true
            }
        });
        dev!("query-index-changed", c, {
            if nq == 0 { false } else {
                let lde = 1usize << c.params.lde_bits();
                c.challenges.fri_query_indices[q] = (c.challenges.fri_query_indices[q] + 1 + r.below(lde as u64 - 1) as usize) % lde;
                lde > 1
            }
        });
        dev!("drop-query-round", c, { c.proof.query_round_proofs.pop(); nq > 0 });
        dev!("drop-final-coeff", c, { c.proof.final_poly.coeffs.pop(); true });
        dev!("drop-step", c, {
            if nq == 0 || c.proof.query_round_proofs[q].steps.is_empty() { false } else { c.proof.query_round_proofs[q].steps.pop(); true }
        });
        dev!("drop-initial-oracle", c, {
            if nq == 0 { false } else { c.proof.query_round_proofs[q].initial_trees_proof.evals_proofs.pop(); true }
        });
        dev!("swap-query-rounds", c, {
            if nq < 2 { false } else { c.proof.query_round_proofs.swap(0, nq - 1); c.challenges.fri_query_indices[0] != c.challenges.fri_query_indices[nq - 1] }
        });
    }
}

fn strategy(r: &mut Rng, degree_bits: usize) -> FriReductionStrategy {
    match r.below(4) {
        0 => FriReductionStrategy::ConstantArityBits(r.range(1, 4) as usize, r.range(0, 5) as usize),
        1 => FriReductionStrategy::MinSize(if r.coin() { None } else { Some(r.range(1, 4) as usize) }),
        2 => FriReductionStrategy::ConstantArityBits(4, 5),
        _ => {
            let mut v = vec![];
            let mut left = degree_bits;
            while left > 0 && r.below(4) != 0 {
                let a = r.range(1, left.min(4) as u64) as usize;
                v.push(a);
                left -= a;
            }
            FriReductionStrategy::Fixed(v)
        }
    }
}

pub fn emit(e: &mut Emitter, seed: u64, thorough: bool) {
    let mut r = Rng::new(seed ^ 0x05);
    let n_cases = if thorough { 60 } else { 12 };
    let mut made = 0;
    let mut tries = 0;
    while made < n_cases && tries < 10 * n_cases {
        tries += 1;
        let degree_bits = r.range(1, if thorough { 9 } else { 7 }) as usize;
        let rate_bits = r.range(1, 4) as usize;
        let cap_height = r.below((degree_bits + rate_bits).min(4) as u64 + 1) as usize;
        let config = FriConfig {
            rate_bits,
            cap_height,
            proof_of_work_bits: r.range(0, 10) as u32,
            reduction_strategy: strategy(&mut r, degree_bits),
            num_query_rounds: r.range(1, if thorough { 12 } else { 5 }) as usize,
        };
        let hiding = r.below(3) == 0;
        // admissibility: every commit-phase layer must still have at least 2^cap_height leaves
        let params = match std::panic::catch_unwind(|| config.fri_params(degree_bits, hiding)) {
            Ok(p) => p,
            Err(_) => {
                e.count("inadmissible-config-strategy-panics");
                continue;
            }
        };
        if params.total_arities() > degree_bits || degree_bits + rate_bits < cap_height + params.total_arities() {
            e.count("inadmissible-config-skipped");
            continue;
        }
        let n_oracles = r.range(1, 4) as usize;
        let n_points = r.range(1, 3) as usize;
        let class = format!("honest deg=2^{degree_bits} {:?}", std::mem::discriminant(&config.reduction_strategy)).replace("Discriminant", "strat");
        match honest(&mut r, degree_bits, config, hiding, n_oracles, 6, n_points) {
            None => {
                e.count("inadmissible-config-panicked-while-proving");
            }
            Some(case) => {
                made += 1;
                let _ = class;
                e.case("honest", case.request(), || case.verify());
                deviations(e, &mut r, &case, if thorough { 3 } else { 2 });
            }
        }
    }
    // tiny LDE domains with more queries than points: repeated indices are certain
    for _ in 0..(if thorough { 10 } else { 3 }) {
        let degree_bits = r.range(1, 3) as usize;
        let rate_bits = r.range(1, 2) as usize;
        let config = FriConfig {
            rate_bits,
            cap_height: r.below(2) as usize,
            proof_of_work_bits: 0,
            reduction_strategy: FriReductionStrategy::ConstantArityBits(1, 0),
            num_query_rounds: r.range(10, 24) as usize,
        };
        if let Some(case) = honest(&mut r, degree_bits, config, false, 2, 3, 2) {
            e.case("honest tiny-domain", case.request(), || case.verify());
            deviations(e, &mut r, &case, 1);
        }
    }
    // arity schedules of ConstantArityBits for all small parameters
    for a in 1..=4usize {
        for f in 0..=5usize {
            for d in 0..=12usize {
                for rb in [1usize, 3] {
                    for ch in [0usize, 2, 4] {
                        e.case("constant-arity-schedule", format!("c05 constarity {a} {f} {d} {rb} {ch}"), || {
                            join(FriReductionStrategy::ConstantArityBits(a, f).reduction_arity_bits(d, rb, ch, 28).iter())
                        });
                    }
                }
            }
        }
    }
}
