//! C05, batched variant: one FRI opening proof for polynomials of several degrees
//! (`BatchFriOracle::prove_openings` / `verify_batch_fri_proof`) over degree-group shapes, arity
//! schedules (every group joins at an inner layer / the smallest group joins exactly at the final
//! reduction / no reduction), and a deviation catalogue with the challenges held fixed.
//! Request `c05 bverify <dump>` is answered by `P2.BatchFri.verifyBatch` (lean/P2/Model/BatchFri.lean).
use plonky2::batch_fri::oracle::BatchFriOracle;
use plonky2::batch_fri::verifier::verify_batch_fri_proof;
use plonky2::field::extension::Extendable;
use plonky2::field::goldilocks_field::GoldilocksField as F;
use plonky2::field::polynomial::PolynomialCoeffs;
use plonky2::field::types::Field;
use plonky2::fri::proof::{FriChallenges, FriProof};
use plonky2::fri::reduction_strategies::FriReductionStrategy;
use plonky2::fri::structure::{FriBatchInfo, FriInstanceInfo, FriOpeningBatch, FriOpenings, FriOracleInfo, FriPolynomialInfo};
use plonky2::fri::{FriConfig, FriParams};
use plonky2::hash::merkle_tree::MerkleCap;
use plonky2::iop::challenger::Challenger;
use plonky2::plonk::config::PoseidonGoldilocksConfig;
use plonky2::util::timing::TimingTree;

use crate::c05::rand_f;
use crate::dump::*;
use crate::util::*;

type C = PoseidonGoldilocksConfig;
const D: usize = 2;
type FE2 = <F as Extendable<D>>::Extension;

pub struct BCase {
    pub degree_bits: Vec<usize>,
    pub instances: Vec<FriInstanceInfo<F, D>>,
    pub openings: Vec<FriOpenings<F, D>>,
    pub challenges: FriChallenges<F, D>,
    pub caps: Vec<MerkleCap<F, H>>,
    pub proof: FriProof<F, H, D>,
    pub params: FriParams,
    /// polys[o][k]: number of polynomials of oracle `o` in degree group `k` (layout of the flat leaf)
    pub polys: Vec<Vec<usize>>,
}

fn clone_openings(o: &FriOpenings<F, D>) -> FriOpenings<F, D> {
    FriOpenings { batches: o.batches.iter().map(|b| FriOpeningBatch { values: b.values.clone() }).collect() }
}

impl BCase {
    /// `c05 bverify`: params, instances, openings (one per instance), challenges, degree bits,
    /// initial caps, proof — mirrored by `pBVerify` in lean/P2/Drv/C05.lean
    pub fn request(&self) -> String {
        let mut t = Toks::default();
        t.fri_params(&self.params);
        t.n(self.instances.len());
        for i in &self.instances {
            t.instance(i);
        }
        t.n(self.openings.len());
        for o in &self.openings {
            t.openings(o);
        }
        t.challenges(&self.challenges);
        t.ns(&self.degree_bits);
        t.n(self.caps.len());
        for c in &self.caps {
            t.cap(c);
        }
        t.fri_proof(&self.proof);
        format!("c05 bverify {}", t.line())
    }
    pub fn verify(&self) -> String {
        fri_verdict(verify_batch_fri_proof::<F, C, D>(&self.degree_bits, &self.instances, &self.openings, &self.challenges, &self.caps, &self.proof, &self.params))
    }
    pub fn dup(&self) -> BCase {
        BCase {
            degree_bits: self.degree_bits.clone(),
            instances: self.instances.clone(),
            openings: self.openings.iter().map(clone_openings).collect(),
            challenges: FriChallenges {
                fri_alpha: self.challenges.fri_alpha,
                fri_betas: self.challenges.fri_betas.clone(),
                fri_pow_response: self.challenges.fri_pow_response,
                fri_query_indices: self.challenges.fri_query_indices.clone(),
            },
            caps: self.caps.clone(),
            proof: self.proof.clone(),
            params: self.params.clone(),
            polys: self.polys.clone(),
        }
    }
    /// Would one of the `usize` subtractions of the verifier underflow on this input
    /// (`current_height -= 1` in `verify_batch_merkle_proof_to_cap`, `n -= arity_bits` in the query
    /// round)? Debug builds panic there, release builds wrap: such inputs are not emitted.
    pub fn underflows(&self) -> bool {
        let Some(&d0) = self.degree_bits.first() else { return false };
        let h0 = d0 + self.params.config.rate_bits;
        let max_sib = self.proof.query_round_proofs.iter().flat_map(|q| q.initial_trees_proof.evals_proofs.iter().map(|(_, p)| p.siblings.len())).max().unwrap_or(0);
        max_sib > h0 || self.params.reduction_arity_bits.iter().sum::<usize>() > h0.min(self.params.degree_bits)
    }
}

#[derive(Clone, Debug)]
pub struct Shape {
    pub degree_bits: Vec<usize>,
    /// polys[o][k]
    pub polys: Vec<Vec<usize>>,
    pub rate_bits: usize,
    pub cap_height: usize,
    pub pow_bits: u32,
    pub num_queries: usize,
    pub strategy: FriReductionStrategy,
    pub hiding: bool,
    pub second_point: bool,
}

impl Shape {
    pub fn params(&self) -> Option<FriParams> {
        let config = FriConfig {
            rate_bits: self.rate_bits,
            cap_height: self.cap_height,
            proof_of_work_bits: self.pow_bits,
            reduction_strategy: self.strategy.clone(),
            num_query_rounds: self.num_queries,
        };
        let d0 = *self.degree_bits.first()?;
        let hiding = self.hiding;
        std::panic::catch_unwind(move || config.fri_params(d0, hiding)).ok()
    }
    /// Admissibility as the code states it by assertions:
    /// * `BatchFriOracle::from_coeffs`: degree bits non-increasing; `BatchMerkleTree::new`: group sizes
    ///   strictly decreasing, `cap_height <= log2(smallest LDE size)`;
    /// * `batch_fri_proof`: strictly decreasing sizes, "reduction_arity_bits covers all polynomials"
    ///   (every smaller group's LDE size is reached by a partial sum of the arities);
    /// * every commit-phase tree has at least `2^cap_height` leaves (`MerkleTree::new`);
    /// * `FriParams::final_poly_len`: total arities <= degree_bits (cf. fix 53cb7dc).
    pub fn admissible(&self, arities: &[usize]) -> bool {
        let db = &self.degree_bits;
        if db.is_empty() || !db.windows(2).all(|w| w[0] > w[1]) {
            return false;
        }
        let total: usize = arities.iter().sum();
        if arities.iter().any(|&a| a == 0) || total > db[0] {
            return false;
        }
        let lde = db[0] + self.rate_bits;
        if self.cap_height + total > lde || self.cap_height > db[db.len() - 1] + self.rate_bits {
            return false;
        }
        let mut cur = lde;
        let mut k = 1;
        for a in arities {
            cur -= a;
            if k < db.len() && cur == db[k] + self.rate_bits {
                k += 1;
            }
        }
        k == db.len()
    }
    pub fn describe(&self, arities: &[usize]) -> String {
        format!(
            "degree_bits={:?} polys[oracle][group]={:?} rate_bits={} cap_height={} pow_bits={} queries={} strategy={:?} arities={:?} hiding={} second_point={}",
            self.degree_bits, self.polys, self.rate_bits, self.cap_height, self.pow_bits, self.num_queries, self.strategy, arities, self.hiding, self.second_point
        )
    }
}

/// Run the real prover on the shape. `Err` = it panicked (message: where is not known, panics are quiet).
pub fn honest(r: &mut Rng, s: &Shape, params: &FriParams) -> Result<BCase, ()> {
    let res = std::panic::catch_unwind(std::panic::AssertUnwindSafe(|| {
        let mut rr = r.clone();
        let mut timing = TimingTree::default();
        let g = s.degree_bits.len();
        let mut oracles: Vec<BatchFriOracle<F, C, D>> = vec![];
        for o in 0..s.polys.len() {
            let mut polys: Vec<PolynomialCoeffs<F>> = vec![];
            for k in 0..g {
                let n = 1usize << s.degree_bits[k];
                for j in 0..s.polys[o][k] {
                    let mut c: Vec<F> = (0..n).map(|_| rand_f(&mut rr)).collect();
                    if j % 3 == 2 {
                        for x in c.iter_mut().skip(n / 2) {
                            *x = F::ZERO;
                        }
                    }
                    polys.push(PolynomialCoeffs::new(c));
                }
            }
            let nones = vec![None; polys.len()];
            oracles.push(BatchFriOracle::from_coeffs(polys, s.rate_bits, s.hiding, s.cap_height, &mut timing, &nones));
        }
        let mut challenger = Challenger::<F, H>::new();
        for o in &oracles {
            challenger.observe_cap::<H>(&o.batch_merkle_tree.cap);
        }
        let zeta = challenger.get_extension_challenge::<D>();
        let eta = challenger.get_extension_challenge::<D>();
        let mut instances = vec![];
        for k in 0..g {
            let infos: Vec<FriOracleInfo> = (0..s.polys.len()).map(|o| FriOracleInfo { num_polys: s.polys[o][k], blinding: s.hiding }).collect();
            // polynomial_index is the index in the oracle's whole polynomial list (all groups)
            let mut all = vec![];
            for o in 0..s.polys.len() {
                let off: usize = s.polys[o][..k].iter().sum();
                all.extend(FriPolynomialInfo::from_range(o, off..off + s.polys[o][k]));
            }
            let mut batches = vec![FriBatchInfo { point: zeta, polynomials: all.clone() }];
            if s.second_point && (k + all.len()) % 2 == 0 {
                let pt = if k % 2 == 0 && s.degree_bits[k] > 0 { zeta * FE2::from(F::primitive_root_of_unity(s.degree_bits[k])) } else { eta };
                let sub: Vec<FriPolynomialInfo> = all.iter().cloned().step_by(2).collect();
                batches.push(FriBatchInfo { point: pt, polynomials: sub });
            }
            instances.push(FriInstanceInfo { oracles: infos, batches });
        }
        let openings: Vec<FriOpenings<F, D>> = instances
            .iter()
            .map(|inst| FriOpenings {
                batches: inst.batches.iter().map(|b| FriOpeningBatch {
                    values: b.polynomials.iter().map(|p| oracles[p.oracle_index].polynomials[p.polynomial_index].to_extension::<D>().eval(b.point)).collect(),
                }).collect(),
            })
            .collect();
        for o in &openings {
            challenger.observe_openings(o);
        }
        let mut ch_v = challenger.clone();
        let refs: Vec<&BatchFriOracle<F, C, D>> = oracles.iter().collect();
        let proof = BatchFriOracle::<F, C, D>::prove_openings(&s.degree_bits, &instances, &refs, &mut challenger, params, &mut timing);
        let challenges = ch_v.fri_challenges::<C, D>(&proof.commit_phase_merkle_caps, &proof.final_poly, proof.pow_witness, s.degree_bits[0], &params.config, None, None);
        let caps = oracles.iter().map(|o| o.batch_merkle_tree.cap.clone()).collect();
        (rr, BCase { degree_bits: s.degree_bits.clone(), instances, openings, challenges, caps, proof, params: params.clone(), polys: s.polys.clone() })
    }));
    match res {
        Ok((rr, c)) => {
            *r = rr;
            Ok(c)
        }
        Err(_) => Err(()),
    }
}

/// Debugging aid: with `P2H_C05B_TRACE=<file>` every batch request is logged as `<#request> <answer> <class>`.
fn trace(n: u64, class: &str, ans: &str) {
    if let Ok(p) = std::env::var("P2H_C05B_TRACE") {
        use std::io::Write;
        if let Ok(mut f) = std::fs::OpenOptions::new().create(true).append(true).open(p) {
            let _ = writeln!(f, "{n} {ans} {class}");
        }
    }
}

fn bump_f(x: &mut F) {
    *x += F::ONE;
}

/// One deviation: emit it, and for the classes that the property says must be rejected record an
/// oracle failure if the real verifier accepts.
fn emit_dev(e: &mut Emitter, class: &str, c: &BCase, must_reject: bool, what: &str) {
    if c.underflows() {
        e.count("skipped-deviation-usize-underflow");
        return;
    }
    let req = c.request();
    let mut got = String::new();
    e.case(class, req, || {
        let a = c.verify();
        got = a.clone();
        a
    });
    trace(e.n - 1, class, if got.is_empty() { "PANIC" } else { &got });
    if must_reject && got == "ACCEPT" {
        e.oracle_failures.push(format!("c05 batch: deviation `{class}` ACCEPTED by verify_batch_fri_proof with the challenges held fixed ({what}); request #{}", e.n - 1));
    }
}

/// The deviation catalogue: every class of single edit, challenges held fixed.
pub fn deviations(e: &mut Emitter, r: &mut Rng, base: &BCase, per_class: usize, what: &str) {
    let nq = base.proof.query_round_proofs.len();
    let g = base.degree_bits.len();
    let no = base.polys.len();
    let hiding = base.params.hiding;
    macro_rules! dev {
        ($class:expr, $must:expr, $c:ident, $body:block) => {{
            let mut $c = base.dup();
            let applicable: bool = $body;
            if applicable {
                emit_dev(e, $class, &$c, $must, what);
            }
        }};
    }
    // ---- per degree group: a wrong claimed opening, an edited leaf value of that group's row
    for k in 0..g {
        dev!(&format!("wrong-opening group {}/{}", k, g), true, c, {
            let b = r.below(c.openings[k].batches.len() as u64) as usize;
            let j = r.below(c.openings[k].batches[b].values.len() as u64) as usize;
            c.openings[k].batches[b].values[j] += if r.coin() { FE2::ONE } else { FE2::from(F::from_canonical_u64(1 + r.below(P - 1))) };
            true
        });
        dev!(&format!("initial-leaf-edit group {}/{}", k, g), true, c, {
            if nq == 0 || hiding { false } else {
                let q = r.below(nq as u64) as usize;
                let cand: Vec<usize> = (0..no).filter(|&o| base.polys[o][k] > 0).collect();
                if cand.is_empty() { false } else {
                    let o = *r.pick(&cand);
                    let off: usize = base.polys[o][..k].iter().sum();
                    let j = off + r.below(base.polys[o][k] as u64) as usize;
                    bump_f(&mut c.proof.query_round_proofs[q].initial_trees_proof.evals_proofs[o].0[j]);
                    true
                }
            }
        });
        // all queries answered with another (wrong but consistent) row of that group is not
        // expressible as a single edit; the sibling just below / above the join height is
        dev!(&format!("initial-sibling-edit at join height of group {}/{}", k, g), true, c, {
            if nq == 0 { false } else {
                let q = r.below(nq as u64) as usize;
                let o = r.below(no as u64) as usize;
                let sib = &mut c.proof.query_round_proofs[q].initial_trees_proof.evals_proofs[o].1.siblings;
                // sibling index s is consumed going from height (h0 - s) to (h0 - s - 1)
                let depth = base.degree_bits[0] - base.degree_bits[k];
                let s = if r.coin() && depth > 0 { depth - 1 } else { depth };
                if s >= sib.len() { false } else {
                    bump_f(&mut sib[s].elements[r.below(4) as usize]);
                    true
                }
            }
        });
    }
    // ---- rows moved across the group boundary: same flat leaf, other split
    if g >= 2 {
        dev!("instance-num-polys-shifted-between-groups", false, c, {
            let k = r.below(g as u64 - 1) as usize;
            let o = r.below(no as u64) as usize;
            if c.instances[k].oracles[o].num_polys == 0 { false } else {
                c.instances[k].oracles[o].num_polys -= 1;
                c.instances[k + 1].oracles[o].num_polys += 1;
                true
            }
        });
        dev!("swap-openings-of-two-groups", false, c, {
            let k = r.below(g as u64 - 1) as usize;
            c.openings.swap(k, k + 1);
            true
        });
        dev!("swap-instances-and-openings-of-two-groups", false, c, {
            let k = r.below(g as u64 - 1) as usize;
            c.openings.swap(k, k + 1);
            c.instances.swap(k, k + 1);
            true
        });
        dev!("swap-degree-bits", false, c, {
            let k = r.below(g as u64 - 1) as usize;
            c.degree_bits.swap(k, k + 1);
            true
        });
        dev!("smaller-group-degree-bits-changed", false, c, {
            let k = 1 + r.below(g as u64 - 1) as usize;
            if r.coin() { c.degree_bits[k] += 1 } else if c.degree_bits[k] > 0 { c.degree_bits[k] -= 1 } else { c.degree_bits[k] += 2 }
            true
        });
        dev!("drop-last-degree-bits", false, c, { c.degree_bits.pop(); true });
        dev!("drop-last-instance", false, c, { c.instances.pop(); true });
        dev!("drop-last-instance-and-degree-bits", false, c, { c.instances.pop(); c.degree_bits.pop(); true });
        dev!("drop-last-openings", false, c, { c.openings.pop(); true });
    }
    dev!("largest-degree-bits-increased", false, c, { c.degree_bits[0] += 1; true });
    dev!("largest-degree-bits-decreased", false, c, { if c.degree_bits[0] == 0 { false } else { c.degree_bits[0] -= 1; true } });
    dev!("extra-degree-bits", false, c, { let d = r.below(3) as usize; c.degree_bits.push(d); true });
    dev!("query-index-out-of-range", false, c, {
        if nq == 0 { false } else {
            let q = r.below(nq as u64) as usize;
            c.challenges.fri_query_indices[q] += 1usize << c.params.lde_bits();
            true
        }
    });
    // ---- the single-degree catalogue
    for _ in 0..per_class {
        let q = r.below(nq.max(1) as u64) as usize;
        dev!("bad-pow-response", true, c, {
            c.challenges.fri_pow_response = F::from_canonical_u64(P - 1 - r.below(1 << 20));
            c.params.config.proof_of_work_bits > 0
        });
        dev!("initial-leaf-edit", true, c, {
            if nq == 0 || hiding { false } else {
                let o = r.below(no as u64) as usize;
                let leaf = &mut c.proof.query_round_proofs[q].initial_trees_proof.evals_proofs[o].0;
                let k = r.below(leaf.len() as u64) as usize;
                bump_f(&mut leaf[k]);
                true
            }
        });
        dev!("initial-sibling-edit", true, c, {
            if nq == 0 { false } else {
                let o = r.below(no as u64) as usize;
                let sib = &mut c.proof.query_round_proofs[q].initial_trees_proof.evals_proofs[o].1.siblings;
                if sib.is_empty() { false } else {
                    let k = r.below(sib.len() as u64) as usize;
                    bump_f(&mut sib[k].elements[r.below(4) as usize]);
                    true
                }
            }
        });
        dev!("step-eval-edit", true, c, {
            if nq == 0 || c.proof.query_round_proofs[q].steps.is_empty() { false } else {
                let s = r.below(c.proof.query_round_proofs[q].steps.len() as u64) as usize;
                let ev = &mut c.proof.query_round_proofs[q].steps[s].evals;
                let k = r.below(ev.len() as u64) as usize;
                ev[k] += FE2::ONE;
                true
            }
        });
        dev!("step-sibling-edit", true, c, {
            if nq == 0 || c.proof.query_round_proofs[q].steps.is_empty() { false } else {
                let s = r.below(c.proof.query_round_proofs[q].steps.len() as u64) as usize;
                let sib = &mut c.proof.query_round_proofs[q].steps[s].merkle_proof.siblings;
                if sib.is_empty() { false } else {
                    let k = r.below(sib.len() as u64) as usize;
                    bump_f(&mut sib[k].elements[r.below(4) as usize]);
                    true
                }
            }
        });
        dev!("commit-cap-edit", true, c, {
            if c.proof.commit_phase_merkle_caps.is_empty() || nq == 0 { false } else {
                let s = r.below(c.proof.commit_phase_merkle_caps.len() as u64) as usize;
                for h in c.proof.commit_phase_merkle_caps[s].0.iter_mut() { bump_f(&mut h.elements[0]); }
                true
            }
        });
        dev!("initial-cap-edit", true, c, {
            let s = r.below(c.caps.len() as u64) as usize;
            for h in c.caps[s].0.iter_mut() { bump_f(&mut h.elements[1]); }
            nq > 0
        });
        dev!("final-poly-edit", true, c, {
            let k = r.below(c.proof.final_poly.coeffs.len() as u64) as usize;
            c.proof.final_poly.coeffs[k] += FE2::ONE;
            nq > 0
        });
        dev!("beta-changed", false, c, {
            if c.challenges.fri_betas.is_empty() { false } else {
                let k = r.below(c.challenges.fri_betas.len() as u64) as usize;
                c.challenges.fri_betas[k] += FE2::ONE;
                true
            }
        });
        dev!("alpha-changed", false, c, { c.challenges.fri_alpha += FE2::ONE; true });
        dev!("query-index-changed", false, c, {
            if nq == 0 { false } else {
                let lde = 1usize << c.params.lde_bits();
                c.challenges.fri_query_indices[q] = (c.challenges.fri_query_indices[q] + 1 + r.below(lde as u64 - 1) as usize) % lde;
                lde > 1
            }
        });
        dev!("drop-query-round", true, c, { c.proof.query_round_proofs.pop(); nq > 0 });
        dev!("drop-final-coeff", true, c, { c.proof.final_poly.coeffs.pop(); true });
        dev!("extra-final-coeff", true, c, { c.proof.final_poly.coeffs.push(FE2::ZERO); true });
        dev!("drop-step", true, c, {
            if nq == 0 || c.proof.query_round_proofs[q].steps.is_empty() { false } else { c.proof.query_round_proofs[q].steps.pop(); true }
        });
        dev!("drop-initial-oracle", true, c, {
            if nq == 0 { false } else { c.proof.query_round_proofs[q].initial_trees_proof.evals_proofs.pop(); true }
        });
        dev!("drop-leaf-element", true, c, {
            if nq == 0 { false } else {
                let o = r.below(no as u64) as usize;
                c.proof.query_round_proofs[q].initial_trees_proof.evals_proofs[o].0.pop().is_some()
            }
        });
        dev!("extra-initial-sibling", true, c, {
            if nq == 0 { false } else {
                let o = r.below(no as u64) as usize;
                let sib = &mut c.proof.query_round_proofs[q].initial_trees_proof.evals_proofs[o].1.siblings;
                let h = sib.first().cloned().unwrap_or(c.caps[0].0[0]);
                sib.push(h);
                true
            }
        });
        dev!("drop-commit-cap", true, c, { c.proof.commit_phase_merkle_caps.pop().is_some() });
        dev!("extra-commit-cap", true, c, {
            let cap = c.proof.commit_phase_merkle_caps.last().cloned().unwrap_or(c.caps[0].clone());
            c.proof.commit_phase_merkle_caps.push(cap);
            true
        });
        dev!("drop-beta", false, c, { c.challenges.fri_betas.pop().is_some() });
        dev!("swap-query-rounds", false, c, {
            if nq < 2 { false } else { c.proof.query_round_proofs.swap(0, nq - 1); c.challenges.fri_query_indices[0] != c.challenges.fri_query_indices[nq - 1] }
        });
    }
}

/// A random composition of `total` into parts of size 1..=max_part.
fn composition(r: &mut Rng, mut total: usize, max_part: usize) -> Vec<usize> {
    let mut v = vec![];
    while total > 0 {
        let a = r.range(1, total.min(max_part) as u64) as usize;
        v.push(a);
        total -= a;
    }
    v
}

#[derive(Clone, Copy, Debug, PartialEq)]
enum Mode {
    /// every group joins at an inner layer: at least one more reduction after the last join
    Inner,
    /// the smallest group joins exactly at the final reduction
    LastExact,
    /// no reduction at all (a single group)
    NoReduction,
    /// `ConstantArityBits(1, f)`: a join is possible at every layer
    ConstantArity,
}

fn gen_shape(r: &mut Rng, mode: Mode, thorough: bool) -> Shape {
    let rate_bits = r.range(1, 3) as usize;
    let g = match mode {
        Mode::NoReduction => 1,
        Mode::LastExact => r.range(2, 4) as usize,
        _ => r.range(1, 4) as usize,
    };
    let max_d0 = if thorough { 9 } else { 7 };
    // smallest group and the gaps between consecutive groups
    let mut gaps: Vec<usize> = (1..g).map(|_| r.range(1, 3) as usize).collect();
    while gaps.iter().sum::<usize>() > max_d0 - 1 {
        for x in gaps.iter_mut() { if *x > 1 { *x -= 1; } }
    }
    let gap_total: usize = gaps.iter().sum();
    let trailing = match mode {
        Mode::Inner => r.range(1, 3) as usize,
        _ => 0,
    };
    let d_last_min = trailing;
    let d_last = d_last_min + r.below((max_d0 - gap_total).saturating_sub(d_last_min).min(4) as u64 + 1) as usize;
    let mut degree_bits = vec![d_last];
    for gp in gaps.iter().rev() {
        let top = *degree_bits.last().unwrap();
        degree_bits.push(top + gp);
    }
    degree_bits.reverse();
    let d0 = degree_bits[0];
    // arities: each gap is split into layers; then the trailing reductions
    let (strategy, total) = match mode {
        Mode::NoReduction => (if r.coin() { FriReductionStrategy::Fixed(vec![]) } else { FriReductionStrategy::ConstantArityBits(2, d0) }, 0),
        Mode::ConstantArity => {
            let f = r.below(d_last as u64 + 1) as usize;
            (FriReductionStrategy::ConstantArityBits(1, f), d0 - f)
        }
        _ => {
            let mut v = vec![];
            for gp in &gaps {
                v.extend(composition(r, *gp, 3));
            }
            v.extend(composition(r, trailing, 2));
            let t = v.iter().sum();
            (FriReductionStrategy::Fixed(v), t)
        }
    };
    // cap height: at most the smallest LDE size and the last commit-phase layer
    let cap_max = (d_last + rate_bits).min(d0 + rate_bits - total).min(2);
    let cap_height = r.below(cap_max as u64 + 1) as usize;
    let n_oracles = if r.below(3) == 0 { 2 } else { 1 };
    let polys: Vec<Vec<usize>> = (0..n_oracles).map(|_| (0..g).map(|_| r.range(1, 4) as usize).collect()).collect();
    Shape {
        degree_bits,
        polys,
        rate_bits,
        cap_height,
        pow_bits: r.range(0, 6) as u32,
        num_queries: r.range(2, 6) as usize,
        strategy,
        hiding: false,
        second_point: r.coin(),
    }
}

fn fixed_shape(db: &[usize], polys: &[usize], rate_bits: usize, cap_height: usize, arities: &[usize], nq: usize) -> Shape {
    Shape {
        degree_bits: db.to_vec(),
        polys: vec![polys.to_vec()],
        rate_bits,
        cap_height,
        pow_bits: 3,
        num_queries: nq,
        strategy: FriReductionStrategy::Fixed(arities.to_vec()),
        hiding: false,
        second_point: true,
    }
}

/// Prove + verify an admissible shape; anything but an accepted honest proof is an oracle failure.
fn run_admissible(e: &mut Emitter, r: &mut Rng, s: &Shape, label: &str, per_class: usize) {
    let Some(params) = s.params() else {
        e.oracle_failures.push(format!("c05 batch: FriConfig::fri_params panics for an admissible shape: {}", s.describe(&[])));
        return;
    };
    let what = s.describe(&params.reduction_arity_bits);
    if !s.admissible(&params.reduction_arity_bits) {
        e.count("generator-produced-inadmissible-shape (skipped)");
        return;
    }
    e.stage(&format!("c05 batch honest prover: {what}"));
    match honest(r, s, &params) {
        Err(()) => {
            e.count("ORACLE-FAILURE honest batch prover panicked");
            e.oracle_failures.push(format!("c05 batch: BatchFriOracle::prove_openings (or from_coeffs) PANICS on an admissible configuration [{label}]: {what}"));
        }
        Ok(case) => {
            let req = case.request();
            let mut got = String::new();
            e.case(&format!("honest batch [{label}] groups={}", s.degree_bits.len()), req, || {
                let a = case.verify();
                got = a.clone();
                a
            });
            if got != "ACCEPT" {
                e.count("ORACLE-FAILURE honest batch proof not accepted");
                e.oracle_failures.push(format!("c05 batch: honest proof of BatchFriOracle::prove_openings is not accepted by verify_batch_fri_proof ({got}) [{label}]: {what}; request #{}", e.n - 1));
            }
            deviations(e, r, &case, per_class, &what);
        }
    }
}

/// A shape outside the claimed domain: whatever the prover does is only counted, a produced proof is
/// compared with the model like any other input.
fn run_probe(e: &mut Emitter, r: &mut Rng, s: &Shape, label: &str) {
    let Some(params) = s.params() else {
        e.count(&format!("probe [{label}]: fri_params refuses"));
        return;
    };
    e.stage(&format!("c05 batch probe: {}", s.describe(&params.reduction_arity_bits)));
    match honest(r, s, &params) {
        Err(()) => e.count(&format!("probe [{label}]: prover panics")),
        Ok(case) => {
            if case.underflows() {
                return;
            }
            let mut got = String::new();
            e.case(&format!("probe [{label}]"), case.request(), || {
                let a = case.verify();
                got = a.clone();
                a
            });
            let got = if got.is_empty() { "PANIC".to_string() } else { got };
            trace(e.n - 1, &format!("probe [{label}]"), &got);
            e.count(&format!("probe [{label}]: honest proof => {got}"));
            // blinding is part of the property's quantifier: an honest batched opening proof must be accepted
            if label == "hiding" && got != "ACCEPT" {
                e.oracle_failures.push(format!("F-C05-1: honest BATCH FRI opening proof with hiding/blinding is not accepted ({got}): {}", s.describe(&params.reduction_arity_bits)));
            }
        }
    }
}

/// "A committed function that is not of the committed degree": every committed polynomial has twice
/// the claimed degree. The proof is an honest proof for (degree bits + 1, rate bits - 1) — the same
/// LDE domains and Merkle trees — presented for the claimed (degree bits, rate bits) with the final
/// polynomial cut to the claimed length, challenges held fixed.
fn degree_cheat(e: &mut Emitter, r: &mut Rng, claimed: &Shape) {
    let Some(cparams) = claimed.params() else { return };
    if claimed.rate_bits < 2 || !claimed.admissible(&cparams.reduction_arity_bits) {
        return;
    }
    let mut actual = claimed.clone();
    actual.rate_bits -= 1;
    for d in actual.degree_bits.iter_mut() {
        *d += 1;
    }
    actual.strategy = FriReductionStrategy::Fixed(cparams.reduction_arity_bits.clone());
    let Some(aparams) = actual.params() else { return };
    if !actual.admissible(&aparams.reduction_arity_bits) || aparams.reduction_arity_bits != cparams.reduction_arity_bits {
        e.count("degree-cheat: shifted shape not admissible (skipped)");
        return;
    }
    let what = format!("claimed {}", claimed.describe(&cparams.reduction_arity_bits));
    e.stage(&format!("c05 batch degree cheat: {what}"));
    match honest(r, &actual, &aparams) {
        Err(()) => {
            e.count("ORACLE-FAILURE honest batch prover panicked");
            e.oracle_failures.push(format!("c05 batch: prover PANICS on an admissible configuration [degree-cheat base]: {}", actual.describe(&aparams.reduction_arity_bits)));
        }
        Ok(mut case) => {
            case.degree_bits = claimed.degree_bits.clone();
            case.params = cparams.clone();
            emit_dev(e, "degree-too-high: proof for (d+1, rate-1) presented for (d, rate), final poly not cut", &case, true, &what);
            case.proof.final_poly.coeffs.truncate(cparams.final_poly_len());
            emit_dev(e, "degree-too-high: proof for (d+1, rate-1) presented for (d, rate), final poly cut to the claimed length", &case, true, &what);
        }
    }
}

/// A shape that the code refuses by an assertion: only counted (and, should it go through, compared).
fn run_inadmissible(e: &mut Emitter, r: &mut Rng, s: &Shape, label: &str) {
    let Some(params) = s.params() else {
        e.count(&format!("inadmissible [{label}]: fri_params refuses"));
        return;
    };
    debug_assert!(!s.admissible(&params.reduction_arity_bits));
    e.stage(&format!("c05 batch inadmissible shape: {}", s.describe(&params.reduction_arity_bits)));
    match honest(r, s, &params) {
        Err(()) => e.count(&format!("inadmissible [{label}]: refused loudly")),
        Ok(case) => {
            e.count(&format!("inadmissible [{label}]: a proof was produced"));
            if !case.underflows() {
                e.case(&format!("proof of inadmissible shape [{label}]"), case.request(), || case.verify());
            }
        }
    }
}

pub fn emit(e: &mut Emitter, seed: u64, thorough: bool) {
    let t0 = std::time::Instant::now();
    let mut r = Rng::new(seed ^ 0x05b);
    let per_class = if thorough { 2 } else { 1 };
    // ---- the shapes named in the plan
    let fixed: Vec<(Shape, &str)> = vec![
        (fixed_shape(&[6, 3], &[2, 1], 1, 1, &[2, 1], 3), "last-exact"),
        (fixed_shape(&[4, 3], &[1, 3], 1, 0, &[1], 3), "last-exact"),
        (fixed_shape(&[6, 3], &[1, 2], 2, 2, &[1, 2, 1], 3), "inner"),
        (fixed_shape(&[5], &[3], 1, 2, &[], 4), "no-reduction"),
        (fixed_shape(&[3, 2, 1, 0], &[1, 1, 2, 1], 1, 0, &[1, 1, 1], 3), "last-exact"),
    ];
    for (s, label) in &fixed {
        run_admissible(e, &mut r, s, label, per_class);
    }
    if thorough {
        run_admissible(e, &mut r, &fixed_shape(&[9, 8, 6], &[1, 2, 1], 1, 2, &[1, 2, 1], 4), "inner", per_class);
        run_admissible(e, &mut r, &fixed_shape(&[9, 8, 6], &[1, 2, 1], 1, 0, &[1, 2], 4), "last-exact", per_class);
    }
    // ---- random shapes
    let rounds = if thorough { 6 } else { 2 };
    for _ in 0..rounds {
        for (mode, label) in [(Mode::Inner, "inner"), (Mode::LastExact, "last-exact"), (Mode::NoReduction, "no-reduction"), (Mode::ConstantArity, "constant-arity"), (Mode::LastExact, "last-exact")] {
            let s = gen_shape(&mut r, mode, thorough);
            run_admissible(e, &mut r, &s, label, per_class);
        }
    }
    // ---- committed functions of too high a degree
    {
        let mut s = fixed_shape(&[6, 3], &[2, 1], 2, 1, &[2, 1], 4);
        degree_cheat(e, &mut r, &s);
        s = fixed_shape(&[4], &[2], 2, 0, &[1, 1], 4);
        degree_cheat(e, &mut r, &s);
        s = fixed_shape(&[5, 3, 2], &[1, 1, 1], 3, 2, &[2, 1, 1], 4);
        degree_cheat(e, &mut r, &s);
        for _ in 0..(if thorough { 8 } else { 2 }) {
            let mode = if r.coin() { Mode::Inner } else { Mode::LastExact };
            let mut s = gen_shape(&mut r, mode, thorough);
            s.rate_bits = s.rate_bits.max(2);
            degree_cheat(e, &mut r, &s);
        }
    }
    // ---- a second oracle without polynomials in one of the groups: its tree has no row at that
    // height; the verifier hashes in an empty row (`hash_or_noop(digest ‖ [])` = the digest itself)
    {
        let mut s = fixed_shape(&[5, 3, 2], &[1, 2, 1], 1, 1, &[2, 1, 1], 3);
        s.polys.push(vec![2, 0, 1]);
        run_probe(e, &mut r, &s, "second oracle has no polynomial in the middle group");
        let mut s = fixed_shape(&[4, 2], &[1, 1], 2, 0, &[1, 1], 3);
        s.polys.push(vec![1, 0]);
        run_probe(e, &mut r, &s, "second oracle has no polynomial in the smallest group");
    }
    // ---- hiding (salted leaves)
    for (db, ar) in [(vec![4usize], vec![1usize, 1]), (vec![4, 2], vec![2, 1])] {
        let mut s = fixed_shape(&db, &vec![2; db.len()], 1, 0, &ar, 3);
        s.hiding = true;
        run_probe(e, &mut r, &s, "hiding");
    }
    // ---- shapes refused by assertions
    let mut bad: Vec<(Shape, &str)> = vec![
        (fixed_shape(&[5, 5], &[1, 1], 1, 0, &[1], 2), "equal degree bits in two instances"),
        (fixed_shape(&[4, 5], &[1, 1], 1, 0, &[1], 2), "increasing degree bits"),
        (fixed_shape(&[6, 3], &[1, 1], 1, 0, &[2], 2), "group never reached by the schedule"),
        (fixed_shape(&[6, 3], &[1, 1], 1, 0, &[2, 2], 2), "group skipped by the schedule"),
        (fixed_shape(&[6, 3], &[1, 1], 1, 0, &[], 2), "two groups without reduction"),
        (fixed_shape(&[4, 1], &[1, 1], 1, 3, &[3], 2), "cap higher than the smallest group"),
        (fixed_shape(&[4, 2], &[1, 1], 1, 0, &[2, 3], 2), "total arity exceeds the degree"),
    ];
    if !thorough {
        bad.truncate(5);
    }
    for (s, label) in &bad {
        run_inadmissible(e, &mut r, s, label);
    }
    if std::env::var("P2H_C05B_TRACE").is_ok() {
        eprintln!("c05b::emit: {:.1} s", t0.elapsed().as_secs_f64());
    }
}
