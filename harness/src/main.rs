//! p2h: correspondence harness. `p2h emit <prop> <seed> <quick|thorough> <outdir>` runs the real
//! plonky2 code on generated inputs and writes request lines (req.txt), the implementation's
//! answers (impl.txt) and the input distribution (meta.json).
mod c01;
mod c02;
mod c03;
mod c04;
mod c05;
mod c05b;
mod c06;
mod c07;
mod c08;
mod c09;
mod c10;
mod c11;
mod c12;
mod c12b;
mod c12k;
mod c13;
mod c14;
mod c15;
mod c16;
mod c17;
mod c18;
mod c19;
mod c20;
mod dbg;
mod dump;
mod forge;
mod progs;
mod stark_dsl;
mod util;

use std::path::PathBuf;

fn main() {
    let args: Vec<String> = std::env::args().collect();
    if args.len() == 2 && args[1] == "dbg" { dbg::run(); return; }
    if args.len() >= 3 && args[1] == "c19verify" {
        let bad = c19::cross_verify(&args[2], args.get(3).map(|s| s == "thorough").unwrap_or(false));
        std::process::exit(if bad == 0 { 0 } else { 1 });
    }
    if args.len() < 6 || args[1] != "emit" {
        eprintln!("usage: p2h emit <prop> <seed> <quick|thorough> <outdir>");
        std::process::exit(2);
    }
    let prop = args[2].as_str();
    let seed: u64 = args[3].parse().expect("seed");
    let thorough = args[4] == "thorough";
    let dir = PathBuf::from(&args[5]);
    if std::env::var("P2H_LOUD").is_err() { util::quiet_panics(); }
    // a runaway allocation (e.g. a builder that keeps doubling its degree) must fail inside this
    // process instead of exhausting the machine
    unsafe {
        let lim = libc::rlimit { rlim_cur: 24 << 30, rlim_max: 24 << 30 };
        libc::setrlimit(libc::RLIMIT_AS, &lim);
    }
    let mut e = util::Emitter::new(&dir);
    match prop {
        "c14" => c14::emit(&mut e, seed, thorough),
        "c01" => c01::emit(&mut e, seed, thorough),
        "c02" => c02::emit(&mut e, seed, thorough),
        "c03" => c03::emit(&mut e, seed, thorough),
        "c04" => c04::emit(&mut e, seed, thorough),
        "c08" => c08::emit(&mut e, seed, thorough),
        "c07" => c07::emit(&mut e, seed, thorough),
        "c06" => c06::emit(&mut e, seed, thorough),
        "c05" => { c05::emit(&mut e, seed, thorough); c05b::emit(&mut e, seed, thorough) }
        "c12" => c12::emit(&mut e, seed, thorough),
        "c20" => c20::emit(&mut e, seed, thorough),
        "c09" => c09::emit(&mut e, seed, thorough),
        "c10" => c10::emit(&mut e, seed, thorough),
        "c11" => c11::emit(&mut e, seed, thorough),
        "c19" => c19::emit(&mut e, seed, thorough),
        "c18" => c18::emit(&mut e, seed, thorough),
        "c17" => c17::emit(&mut e, seed, thorough),
        "c16" => c16::emit(&mut e, seed, thorough),
        "c15" => c15::emit(&mut e, seed, thorough),
        "c13" => c13::emit(&mut e, seed, thorough),
        _ => {
            eprintln!("unknown property {prop}");
            std::process::exit(2);
        }
    }
    let extra = e.extra_json.take().unwrap_or_else(|| serde_json::json!({}));
    e.finish(&dir, extra);
}
