//! C09: STARK proofs are accepted exactly for traces that satisfy the constraints.
//! For generated AIRs (interpreted by `DslStark`) × trace lengths × `StarkConfig`s:
//!  a. honest flow — `prove` succeeds, `verify_stark_proof` accepts, the Lean verifier model
//!     accepts, every Fiat–Shamir challenge agrees (plain and padded transcript);
//!  b. single-cell corruptions of the trace and wrong public inputs, classified by the row
//!     evaluator (implementation side) and by the Lean `sat` request; traces classified VIOLATING
//!     must not lead to an accepted proof, traces still satisfying must still be provable;
//!  c. tampering of accepted proofs (generic JSON walk, list surgery, option toggling, public
//!     inputs): exact verdict agreement (stage / PANIC included) on cheap configurations,
//!     not-accepted at standard strength.
use std::collections::BTreeMap;
use std::sync::Arc;

use plonky2::field::types::Field;
use plonky2::fri::FriParams;
use serde_json::Value;
use starky::config::StarkConfig;

use crate::c03::{at, class_of, walk};
use crate::dump::*;
use crate::stark_dsl::*;
use crate::util::*;

/// outcome of running the prover under `catch_unwind`
pub enum Proved {
    Ok(SProof),
    Err(String),
    Panic(String),
}

pub fn try_prove(air: &Arc<Air>, config: &StarkConfig, rows: &[Vec<F>], pis: &[F], vp: Option<FriParams>) -> Proved {
    match std::panic::catch_unwind(std::panic::AssertUnwindSafe(|| prove_air(air, config, rows, pis, vp))) {
        Ok(Ok(p)) => Proved::Ok(p),
        Ok(Err(e)) => Proved::Err(format!("{e:#}")),
        Err(payload) => {
            let msg = payload.downcast_ref::<String>().cloned().or_else(|| payload.downcast_ref::<&str>().map(|s| s.to_string())).unwrap_or_default();
            Proved::Panic(msg)
        }
    }
}

/// Is this panic text one of the prover's loud refusals of a configuration (as opposed to an
/// accidental failure)? Such configurations are inadmissible and only counted.
pub fn loud_refusal(msg: &str) -> Option<&'static str> {
    const KNOWN: &[(&str, &str)] = &[
        ("FRI total reduction arity is too large", "total arity too large"),
        ("The degree of the Stark constraints must be", "constraint degree above blowup+1"),
        ("Having constraints of degree higher than the rate", "quotient degree above rate"),
        ("degree_bits >= arity_bits", "ConstantArityBits: arity above degree"),
        ("cap_height", "cap height above tree height"),
        ("Fri Reduction Strategy is not ConstantArityBits", "padding needs ConstantArityBits"),
    ];
    KNOWN.iter().find(|(k, _)| msg.contains(k)).map(|(_, v)| *v)
}

/// Record an occurrence of a known kind of finding: every occurrence is counted in the histogram
/// (`finding <tag>`), the first two of a run are written out in full as oracle failures.
pub fn finding(e: &mut Emitter, tag: &str, msg: String) {
    let key = format!("finding {tag}");
    let seen = e.hist.get(&key).copied().unwrap_or(0);
    e.count(&key);
    if seen < 2 { e.oracle_failures.push(format!("{tag}: {msg}")); }
}

fn describe(config: &StarkConfig) -> String {
    let f = &config.fri_config;
    format!("sec={} nch={} rate={} cap={} pow={} {:?} q={}", config.security_bits, config.num_challenges, f.rate_bits, f.cap_height, f.proof_of_work_bits, f.reduction_strategy, f.num_query_rounds)
}

fn pis_u64(pis: &[F]) -> Vec<u64> {
    use plonky2::field::types::PrimeField64;
    pis.iter().map(|x| x.to_canonical_u64()).collect()
}

/// One accepted proof together with everything needed to replay / tamper it.
pub struct Instance {
    pub air: Arc<Air>,
    pub config: StarkConfig,
    pub vp: Option<FriParams>,
    pub rows: Vec<Vec<F>>,
    pub pis: Vec<F>,
    pub proof: SProof,
    pub what: String,
}

/// a. honest flow for one (AIR, trace, config): returns the accepted instance, or `None` when the
/// configuration is refused loudly (inadmissible) — any other failure is an oracle failure.
pub fn honest(e: &mut Emitter, prop: &str, air: &Arc<Air>, config: &StarkConfig, vp: Option<FriParams>, rows: &[Vec<F>], pis: &[F], what: &str) -> Option<Instance> {
    let what = format!("{what} n={} cols={} pis={} D={} [{}] padded={}", rows.len(), air.cols, air.pis, air.degree, describe(config), vp.is_some());
    // the trace must satisfy the AIR according to both row evaluators
    let sat = air.first_violation(rows, pis);
    e.case("sat: generated trace", sat_request(air, rows, pis).replacen("c09", prop, 1), || sat_answer(sat));
    if sat.is_some() { e.oracle_failures.push(format!("GENERATOR: simulated trace violates its AIR at {sat:?}: {what}")); return None; }
    if config.check_config::<F, 2>().is_err() { e.count("inadmissible: check_config refuses"); return None; }
    e.stage(&format!("proving {what}"));
    let proof = match try_prove(air, config, rows, pis, vp.clone()) {
        Proved::Ok(p) => p,
        Proved::Err(m) => { e.oracle_failures.push(format!("satisfying trace: prove returned Err({m}): {what}")); return None; }
        Proved::Panic(m) => {
            match loud_refusal(&m) {
                Some(r) => e.count(&format!("inadmissible: {r}")),
                None => e.oracle_failures.push(format!("satisfying trace: prove panicked ({m}): {what}")),
            }
            return None;
        }
    };
    let v = verdict_air(air, config, &proof, vp.clone());
    e.case(&format!("honest verify (D={} padded={})", air.degree, vp.is_some()), proof_request(&format!("{prop} verify"), air, config, &vp, &proof), || v.clone());
    if v != "ACCEPT" {
        let degree_bits = rows.len().trailing_zeros() as usize;
        match &config.fri_config.reduction_strategy {
            plonky2::fri::reduction_strategies::FriReductionStrategy::Fixed(a) if a.iter().sum::<usize>() > degree_bits => finding(e, "F-C09-3", format!(
                "`Fixed({a:?})` has total arity above degree_bits={degree_bits}; `prove` only asserts total ≤ degree_bits + rate_bits − cap_height, lets it through and produces a proof (final polynomial truncated to nothing) that the verifier does not accept ({v}): {what}")),
            _ => e.oracle_failures.push(format!("honest proof of a satisfying trace not accepted ({v}): {what}")),
        }
        return None;
    }
    let ch = std::panic::catch_unwind(std::panic::AssertUnwindSafe(|| challenges_air(air, config, &proof, vp.clone()))).unwrap_or("PANIC".into());
    e.case(&format!("challenges (padded={})", vp.is_some()), proof_request(&format!("{prop} challenges"), air, config, &vp, &proof), || ch);
    Some(Instance { air: air.clone(), config: config.clone(), vp, rows: rows.to_vec(), pis: pis.to_vec(), proof, what })
}

/// b. a corrupted (trace, public inputs): classify, then run the prover and both verifiers.
/// `lookup_ok`: the lookup relation still holds on the corrupted trace (C10; `true` without lookups).
pub fn corrupted(e: &mut Emitter, prop: &str, inst: &Instance, rows: &[Vec<F>], pis: &[F], lookup_ok: bool, cls: &str, what: &str) {
    let air = &inst.air;
    let sat = air.first_violation(rows, pis);
    e.case(&format!("sat: {cls}"), sat_request(air, rows, pis).replacen("c09", prop, 1), || sat_answer(sat));
    let violating = sat.is_some() || !lookup_ok;
    e.stage(&format!("proving a corrupted trace ({what}) of {}", inst.what));
    match try_prove(air, &inst.config, rows, pis, inst.vp.clone()) {
        Proved::Ok(p) => {
            let v = verdict_air(air, &inst.config, &p, inst.vp.clone());
            e.case(&format!("verify after {cls} ({})", if violating { "violating" } else { "still satisfying" }), proof_request(&format!("{prop} verify"), air, &inst.config, &inst.vp, &p), || v.clone());
            if violating && v == "ACCEPT" {
                e.oracle_failures.push(format!("VIOLATING trace ({what}; first violation {sat:?}, lookups hold: {lookup_ok}) gave an ACCEPTED proof: {}", inst.what));
            }
            if !violating && v != "ACCEPT" {
                e.oracle_failures.push(format!("trace still satisfying after {what} but proof not accepted ({v}): {}", inst.what));
            }
        }
        Proved::Err(m) => {
            e.count("corrupted trace: prove returned Err");
            if !violating { e.oracle_failures.push(format!("trace still satisfying after {what} but prove returned Err({m}): {}", inst.what)); }
        }
        Proved::Panic(m) => {
            e.count("corrupted trace: prove panicked");
            if !violating { e.oracle_failures.push(format!("trace still satisfying after {what} but prove panicked ({m}): {}", inst.what)); }
        }
    }
}

/// the row classes of single-cell corruptions
fn row_classes(n: usize) -> Vec<(&'static str, usize)> {
    let mut v = vec![("first row", 0), ("last row", n - 1)];
    if n > 2 { v.push(("second-to-last row", n - 2)); v.push(("interior row", n / 2)); }
    if n > 4 { v.push(("second row", 1)); }
    v
}

fn trace_corruptions(e: &mut Emitter, r: &mut Rng, inst: &Instance, all_columns: bool) {
    let n = inst.rows.len();
    for (rc, row) in row_classes(n) {
        let cols: Vec<usize> = if all_columns { (0..inst.air.cols).collect() } else { vec![r.below(inst.air.cols as u64) as usize] };
        for c in cols {
            let mut rows = inst.rows.clone();
            let delta = if r.coin() { F::ONE } else { F::from_canonical_u64(1 + r.below(P - 1)) };
            rows[row][c] += delta;
            corrupted(e, "c09", inst, &rows, &inst.pis, true, &format!("cell in {rc}"), &format!("cell ({row},{c}) += {delta}"));
        }
    }
    // wrong public inputs, each position
    for k in 0..inst.pis.len() {
        let mut pis = inst.pis.clone();
        pis[k] += F::from_canonical_u64(1 + r.below(P - 1));
        corrupted(e, "c09", inst, &inst.rows, &pis, true, "public input", &format!("public input {k} altered"));
    }
    // two rows exchanged (a non-local change)
    if n >= 4 {
        let mut rows = inst.rows.clone();
        rows.swap(1, n - 2);
        if rows != inst.rows { corrupted(e, "c09", inst, &rows, &inst.pis, true, "two rows exchanged", "rows 1 and n-2 exchanged"); }
    }
}

/// JSON paths of the `Option` fields of a STARK proof
const OPTION_PATHS: &[&[&str]] = &[
    &["proof", "auxiliary_polys_cap"], &["proof", "quotient_polys_cap"], &["proof", "openings", "auxiliary_polys"],
    &["proof", "openings", "auxiliary_polys_next"], &["proof", "openings", "ctl_zs_first"], &["proof", "openings", "quotient_polys"],
];

fn json_at<'a>(v: &'a mut Value, path: &[&str]) -> &'a mut Value {
    let mut cur = v;
    for p in path { cur = cur.get_mut(*p).unwrap(); }
    cur
}

/// c. tampering of an accepted proof; `exact`: emit every case for comparison with the model,
/// otherwise only assert that nothing is accepted (standard strength).
pub fn tamper(e: &mut Emitter, r: &mut Rng, prop: &str, inst: &Instance, per_class: usize, exact: bool, step: usize) {
    let (air, config, vp) = (&inst.air, &inst.config, &inst.vp);
    let json = serde_json::to_value(&inst.proof).unwrap();
    let (mut leaves, mut arrays) = (vec![], vec![]);
    walk(&json, &mut vec![], &mut leaves, &mut arrays);
    let mut n_std = 0u64;
    let mut seen_classes: std::collections::BTreeSet<String> = Default::default();
    // On cheap configurations a tampered proof may be accepted by luck (few queries, no grinding,
    // degenerate traces whose polynomials are all constant): there the verdict is only compared
    // with the model's. At standard strength nothing tampered may be accepted.
    let mut check = |e: &mut Emitter, cls: String, what: String, p2: &SProof| {
        let v = verdict_air(air, config, p2, vp.clone());
        if exact {
            if v == "ACCEPT" { e.count("cheap configuration: tampered proof accepted (verdict compared with the model only)"); }
            // the verifier must return Err on malformed input; panics are findings of C18 (F-C18-3
            // and its relatives: everything `get_challenges` touches before any shape validation)
            if v == "PANIC" { e.count(&format!("PANIC (model agrees): {cls}")); }
            e.case(&cls, proof_request(&format!("{prop} verify"), air, config, vp, p2), || v.clone());
            // the transcript of the altered proof: every challenge must still agree with the model
            // (the first altered proof of each class; PANIC where `get_challenges` panics)
            if !seen_classes.contains(&cls) {
                seen_classes.insert(cls.clone());
                let ch = std::panic::catch_unwind(std::panic::AssertUnwindSafe(|| challenges_air(air, config, p2, vp.clone()))).unwrap_or("PANIC".into());
                e.case("challenges of an altered proof", proof_request(&format!("{prop} challenges"), air, config, vp, p2), || ch);
            }
        } else {
            n_std += 1;
            if v == "ACCEPT" {
                if what.contains("ctl_zs_first None→Some") && p2.proof.openings.ctl_zs_first.as_ref().is_some_and(|v| v.is_empty()) {
                    finding(e, "F-C09-1 (malleability)", format!("proof with `ctl_zs_first: None` replaced by `Some([])` ACCEPTED at standard strength: {}", inst.what));
                } else {
                    e.oracle_failures.push(format!("TAMPERED proof ACCEPTED at standard strength ({what}): {}", inst.what));
                }
            }
            if v == "PANIC" { e.count(&format!("standard strength: PANIC on {cls}")); }
        }
    };
    // single-element edits, a few per class of element (all of them with `step` at standard strength)
    let mut by_class: BTreeMap<String, Vec<Vec<String>>> = Default::default();
    for l in leaves { by_class.entry(class_of(&l)).or_default().push(l); }
    for (cls, ls) in &by_class {
        let picks: Vec<Vec<String>> = if exact { (0..per_class).map(|_| r.pick(ls).clone()).collect() } else { ls.iter().step_by(step).cloned().collect() };
        for path in picks {
            let mut j = json.clone();
            let cell = at(&mut j, &path);
            let old = cell.as_u64().unwrap();
            let newv = match r.below(3) { 0 => (old + 1) % P, 1 => if old == 0 { 1 } else { 0 }, _ => r.below(P) };
            if newv % P == old % P { continue; }
            *cell = Value::from(newv);
            let Ok(p2) = serde_json::from_value::<SProof>(j) else { e.count("edit-not-deserialisable"); continue; };
            check(e, format!("edit {cls}"), format!("element {} changed {old}→{newv}", path.join("/")), &p2);
        }
    }
    // list surgery on every class of array: drop last, clear, duplicate last
    let mut arr_by_class: BTreeMap<String, Vec<Vec<String>>> = Default::default();
    for a in arrays { arr_by_class.entry(class_of(&a)).or_default().push(a); }
    for (cls, als) in &arr_by_class {
        for surgery in 0..3 {
            // the first array of the class matters most (`recover_degree_bits` reads round 0, oracle 0)
            let path = if r.coin() { als[0].clone() } else { r.pick(als).clone() };
            let mut j = json.clone();
            let Value::Array(xs) = at(&mut j, &path) else { continue };
            if xs.is_empty() { continue; }
            match surgery { 0 => { xs.pop(); } 1 => { xs.clear(); } _ => { let l = xs.last().unwrap().clone(); xs.push(l); } }
            let Ok(p2) = serde_json::from_value::<SProof>(j) else { e.count("surgery-not-deserialisable (fixed-size digest)"); continue; };
            check(e, format!("surgery{surgery} {cls}"), format!("list surgery {surgery} on {}", path.join("/")), &p2);
        }
    }
    // option toggling: Some → None; None → Some(empty) / Some(copy of a sibling value)
    for path in OPTION_PATHS {
        let mut j = json.clone();
        let is_cap = path[path.len() - 1].ends_with("_cap");
        let donor = if is_cap { json["proof"]["trace_cap"].clone() } else if path[path.len() - 1] == "ctl_zs_first" { json["public_inputs"].clone() } else { json["proof"]["openings"]["local_values"].clone() };
        let cell = json_at(&mut j, path);
        let variants: Vec<(&str, Value)> = if cell.is_null() { vec![("None→Some(empty)", Value::Array(vec![])), ("None→Some(copy)", donor)] } else { vec![("Some→None", Value::Null)] };
        for (name, val) in variants {
            let mut j2 = j.clone();
            *json_at(&mut j2, path) = val;
            let Ok(p2) = serde_json::from_value::<SProof>(j2) else { e.count("option-toggle-not-deserialisable"); continue; };
            check(e, format!("option {} {name}", path.join(".")), format!("{} {name}", path.join(".")), &p2);
        }
    }
    // public inputs: altered, dropped, appended (the proof itself untouched)
    for k in 0..inst.pis.len().min(3) {
        let mut p2 = inst.proof.clone();
        p2.public_inputs[k] += F::from_canonical_u64(1 + r.below(P - 1));
        check(e, "public input altered".into(), format!("public input {k} altered"), &p2);
    }
    let mut p2 = inst.proof.clone();
    p2.public_inputs.push(F::ZERO);
    check(e, "public input appended".into(), "public input appended".into(), &p2);
    // the same proof under the other transcript mode
    if let Some(other) = if vp.is_some() { Some(None) } else { padded_params(config, 3).map(Some) } {
        let v = verdict_air(air, config, &inst.proof, other.clone());
        // equal transcripts (no padding needed) make this the same statement: not a tamper
        if exact { e.case("other transcript mode", proof_request(&format!("{prop} verify"), air, config, &other, &inst.proof), || v); }
    }
    if !exact { *e.hist.entry(format!("{prop} standard-strength tampered proofs checked")).or_insert(0) += n_std; }
}

/// The dishonest prover of `stark_dsl::forge_air` on a VIOLATING trace of the instance's AIR: the
/// property demands that no accepted proof is obtained.
pub fn forgery(e: &mut Emitter, r: &mut Rng, inst: &Instance, exact: bool) {
    let air = &inst.air;
    if !air.lookups.is_empty() || air.constraints.is_empty() || air.degree == 0 || inst.rows.len() < 2 { return; }
    // find a single-cell corruption that the row evaluator classifies as violating
    for _ in 0..20 {
        let mut rows = inst.rows.clone();
        let (row, c) = (r.below(rows.len() as u64) as usize, r.below(air.cols as u64) as usize);
        rows[row][c] += F::from_canonical_u64(1 + r.below(P - 1));
        let Some(viol) = air.first_violation(&rows, &inst.pis) else { continue };
        e.stage(&format!("forging a proof without quotient commitment for {}", inst.what));
        let forged = std::panic::catch_unwind(std::panic::AssertUnwindSafe(|| forge_air(air, &inst.config, &rows, &inst.pis)));
        let Ok(forged) = forged else { e.count("forgery: dishonest prover panicked"); return; };
        let v = verdict_air(air, &inst.config, &forged, None);
        if exact {
            e.case("sat: trace of the forgery", sat_request(air, &rows, &inst.pis), || sat_answer(Some(viol)));
            e.case("forged proof (quotient_polys_cap = None, quotient chosen after ζ)", proof_request("c09 verify", air, &inst.config, &None, &forged), || v.clone());
        }
        if v == "ACCEPT" {
            finding(e, "F-C09-2 (soundness)", format!(
                "a proof for a VIOLATING trace (cell ({row},{c}) altered, first violation {viol:?}) built WITHOUT committing to the quotient (`quotient_polys_cap: None`, quotient openings chosen after ζ) is ACCEPTED by verify_stark_proof: {}",
                inst.what));
        } else {
            e.count(&format!("forgery rejected: {v}"));
        }
        return;
    }
}

fn pick_shape(r: &mut Rng) -> (usize, usize) { *r.pick(SHAPES) }

pub fn emit(e: &mut Emitter, seed: u64, thorough: bool) {
    let mut r = Rng::new(seed ^ 0x09);
    let fast = StarkConfig::standard_fast_config();

    // ---- the toy STARKs of the repository as AIR data, standard_fast_config (cap height 4 needs ≥ 2^3 rows)
    {
        let air = Arc::new(fibonacci_air());
        if !low_degree_ok(&air) { e.oracle_failures.push("fibonacci AIR fails test_stark_low_degree".into()); }
        if !circuit_agrees(&air) { e.oracle_failures.push("fibonacci AIR: eval_ext_circuit disagrees with eval_packed_generic".into()); }
        let n = 1 << r.range(3, 6);
        let (rows, pis) = fibonacci_trace(n, F::from_canonical_u64(r.below(P)), F::ONE);
        // few queries for the model; the standard configuration is exercised in part B
        let mut cheap = fast.clone();
        cheap.fri_config.num_query_rounds = 3; cheap.fri_config.proof_of_work_bits = 3; cheap.security_bits = 6;
        if let Some(inst) = honest(e, "c09", &air, &cheap, None, &rows, &pis, "fibonacci") {
            trace_corruptions(e, &mut r, &inst, true);
            tamper(e, &mut r, "c09", &inst, 1, true, 1);
            forgery(e, &mut r, &inst, true);
        }
        let air = Arc::new(unconstrained_air());
        let rows: Vec<Vec<F>> = (0..n).map(|_| vec![F::from_canonical_u64(r.below(P)), F::from_canonical_u64(r.below(P))]).collect();
        if let Some(inst) = honest(e, "c09", &air, &cheap, None, &rows, &[], "unconstrained") {
            trace_corruptions(e, &mut r, &inst, false);
            tamper(e, &mut r, "c09", &inst, 1, true, 1);
        }
    }

    // ---- a fixed reduction schedule longer than the trace is high (the starky prover's own assertion
    // admits it: total ≤ degree_bits + rate_bits − cap_height)
    {
        let air = Arc::new(fibonacci_air());
        let (rows, pis) = fibonacci_trace(4, F::ONE, F::ONE);
        let config = StarkConfig::new(8, 2, plonky2::fri::FriConfig { rate_bits: 2, cap_height: 0, proof_of_work_bits: 0, reduction_strategy: plonky2::fri::reduction_strategies::FriReductionStrategy::Fixed(vec![2, 1]), num_query_rounds: 4 });
        let _ = honest(e, "c09", &air, &config, None, &rows, &pis, "fibonacci, Fixed([2,1]) on 2^2 rows");
    }

    // ---- part A: generated AIRs, cheap configurations, exact agreement with the Lean model
    let n_inst = if thorough { 60 } else { 7 };
    let mut made = 0;
    let mut tries = 0;
    while made < n_inst && tries < 6 * n_inst {
        tries += 1;
        // wide AIRs (more frame values than the constraint-binding step simulates per dummy ζ:
        // 2·COLUMNS > num_extension_powers, i.e. ≥ 13 columns for degree 2/3 and ≥ 25 for degree 1)
        // are forced once per run; the narrow shapes dominate otherwise
        let shape = match made { 1 => if r.coin() { (14, 2) } else { (13, 0) }, 4 => (26, 0), _ => { let mut sh = pick_shape(&mut r); while sh.0 > 8 && !thorough { sh = pick_shape(&mut r); } sh } };
        // degree 0 (no constraint, no quotient) now and then; otherwise 1…3
        let degree = match made { 1 => r.range(2, 3) as usize, 4 => 1, _ => if r.below(7) == 0 { 0 } else { r.range(1, 3) as usize } };
        let g = gen_air(&mut r, shape, degree);
        let air = g.air.clone();
        if air.needed_degree() > air.degree || !low_degree_ok(&air) {
            e.oracle_failures.push(format!("GENERATOR: AIR of declared degree {} fails the degree test: {:?}", air.degree, air.constraints));
            continue;
        }
        if made % 5 == 0 && !circuit_agrees(&air) { e.oracle_failures.push(format!("eval_ext_circuit disagrees with eval_packed_generic on {:?}", air.constraints)); }
        let k = r.range(1, 8) as usize;
        let n = 1usize << k;
        // degree 3 has quotient degree factor 2: fits every rate ≥ 1
        let config = gen_stark_config(&mut r, true, 1);
        let (rows, pis) = g.simulate(&mut r, n);
        let padded = r.below(3) == 0;
        let vp = if padded { padded_params(&config, r.range(0, 3) as usize) } else { None };
        let what = format!("generated AIR (seed {seed}, try {tries}) constraints={} publics={:?}", air.constraints.len(), pis_u64(&pis));
        let Some(inst) = honest(e, "c09", &air, &config, vp, &rows, &pis, &what) else { continue };
        made += 1;
        e.count(&format!("accepted instance: D={} log_n={k}", air.degree));
        trace_corruptions(e, &mut r, &inst, made % 3 == 0 || thorough);
        tamper(e, &mut r, "c09", &inst, if thorough { 2 } else { 1 }, true, 1);
        if inst.vp.is_none() { forgery(e, &mut r, &inst, true); }
        // a second satisfying trace of the same AIR (other free values) under the same config
        let (rows2, pis2) = g.simulate(&mut r, n);
        let _ = honest(e, "c09", &air, &config, inst.vp.clone(), &rows2, &pis2, &format!("{what} (second trace)"));
    }

    // ---- part B: standard strength — nothing tampered may be accepted (implementation only)
    let n_std = if thorough { 4 } else { 1 };
    let mut i = 0;
    let mut std_tries = 0;
    while i < n_std && std_tries < 5 * n_std {
        std_tries += 1;
        let shape = pick_shape(&mut r);
        let d = r.range(2, 3) as usize;
        let g = gen_air(&mut r, shape, d);
        let config = if i == 0 { fast.clone() } else { gen_stark_config(&mut r, false, 1) };
        let n = 1usize << r.range(4, 7);
        let (rows, pis) = g.simulate(&mut r, n);
        // a trace whose columns are all constant gives constant polynomials: its proof is valid under
        // every challenge, so edits that only move challenges are accepted legitimately
        if rows.iter().all(|row| row == &rows[0]) { e.count("standard strength: degenerate (all-constant) trace skipped"); continue; }
        if config.check_config::<F, 2>().is_err() { e.count("inadmissible: check_config refuses"); continue; }
        e.stage(&format!("proving at standard strength [{}]", describe(&config)));
        let proof = match try_prove(&g.air, &config, &rows, &pis, None) {
            Proved::Ok(p) => p,
            Proved::Err(m) => { e.oracle_failures.push(format!("standard strength: prove Err({m}) [{}]", describe(&config))); continue; }
            Proved::Panic(m) => { if loud_refusal(&m).is_some() { e.count("inadmissible: refused loudly (standard strength)"); } else { e.oracle_failures.push(format!("standard strength: prove panicked ({m}) [{}]", describe(&config))); } continue; }
        };
        let v = verdict_air(&g.air, &config, &proof, None);
        if v != "ACCEPT" { e.oracle_failures.push(format!("standard strength: honest proof not accepted ({v}) [{}]", describe(&config))); continue; }
        let inst = Instance { air: g.air.clone(), config: config.clone(), vp: None, rows, pis, proof, what: format!("standard-strength instance {i} (seed {seed}) cols={} pis={} D={} [{}]", g.air.cols, g.air.pis, g.air.degree, describe(&config)) };
        i += 1;
        tamper(e, &mut r, "c09", &inst, 0, false, if thorough { 3 } else { 23 });
        forgery(e, &mut r, &inst, false);
        // corrupted traces at standard strength: never an accepted proof
        for (rc, row) in row_classes(inst.rows.len()) {
            let c = r.below(inst.air.cols as u64) as usize;
            let mut rows = inst.rows.clone();
            rows[row][c] += F::ONE;
            if inst.air.first_violation(&rows, &inst.pis).is_none() { continue; }
            if let Proved::Ok(p) = try_prove(&inst.air, &inst.config, &rows, &inst.pis, None) {
                e.count("standard strength: proof of a violating trace verified");
                if verdict_air(&inst.air, &inst.config, &p, None) == "ACCEPT" {
                    e.oracle_failures.push(format!("standard strength: VIOLATING trace (cell in {rc}) gave an ACCEPTED proof: {}", inst.what));
                }
            }
        }
    }
}
