//! C12, Keccak part: the real `keccak_hash::keccak`, `KeccakHash<25>` / `KeccakHash<32>`
//! (hash_no_pad, two_to_one, the inherited hash_or_noop / hash_pad, `BytesHash::to_vec`),
//! `KeccakPermutation::permute`, `Challenger<F, KeccakHash<25>>` histories and
//! `MerkleTree<F, KeccakHash<N>>` (trees, proofs, verdicts incl. negative requests, several pool
//! sizes) against the Lean model (`P2/Model/Keccak.lean`).
use plonky2::field::goldilocks_field::GoldilocksField as F;
use plonky2::field::types::{Field, PrimeField64};
use plonky2::hash::hash_types::BytesHash;
use plonky2::hash::hashing::PlonkyPermutation;
use plonky2::hash::keccak::{KeccakHash, KeccakPermutation};
use plonky2::hash::merkle_proofs::{verify_merkle_proof_to_cap, MerkleProof};
use plonky2::hash::merkle_tree::{MerkleCap, MerkleTree};
use plonky2::iop::challenger::Challenger;
use plonky2::plonk::config::{GenericHashOut, Hasher};

use crate::util::*;

pub fn flat_b<const N: usize>(hs: &[BytesHash<N>]) -> String {
    join(hs.iter().flat_map(|h| h.0.iter().copied()))
}

fn can(xs: &[F]) -> String {
    join(xs.iter().map(|x| x.to_canonical_u64()))
}

/// field elements: boundary values more often than in the Poseidon part
fn elt(r: &mut Rng) -> F {
    match r.below(8) {
        0 => F::from_canonical_u64(*r.pick(&[0, 1, 2, 255, 256, P - 1, P - 2, EPS, EPS + 1, 1 << 32, 1 << 56, (1 << 56) - 1])),
        // the same residue in its NON-canonical representation (raw word v + p): requests carry the
        // canonical value, so a hasher that serialises the raw word gives itself away
        1 => F::from_noncanonical_u64(P + *r.pick(&[0u64, 1, 2, 255, (1 << 32) - 2]) + if r.coin() { 0 } else { r.below((1 << 32) - 300) }),
        _ => F::from_canonical_u64(r.below(P)),
    }
}

fn leaves(r: &mut Rng, n: usize, w: usize) -> Vec<Vec<F>> {
    (0..n).map(|_| (0..w).map(|_| elt(r)).collect()).collect()
}

fn flat_leaves(ls: &[Vec<F>]) -> String {
    join(ls.iter().flat_map(|l| l.iter().map(|x| x.to_canonical_u64())))
}

fn verdict(res: anyhow::Result<()>) -> String {
    match res {
        Ok(()) => "OK".into(),
        Err(_) => "ERR".into(),
    }
}

fn verify_req<const N: usize>(
    leaf: &[F],
    idx: usize,
    cap: &MerkleCap<F, KeccakHash<N>>,
    proof: &MerkleProof<F, KeccakHash<N>>,
) -> String {
    format!(
        "c12 kverify {N} {} {} {} {} {} {} {}",
        leaf.len(),
        can(leaf),
        idx,
        cap.0.len(),
        flat_b(&cap.0),
        proof.siblings.len(),
        flat_b(&proof.siblings)
    )
}

fn hasher_fns<const N: usize>(e: &mut Emitter, r: &mut Rng, thorough: bool) {
    // hash_no_pad / hash_or_noop / hash_pad on every width 0..=9 (the no-op boundary of N = 25 is
    // between widths 3 and 4, of N = 32 between 4 and 5) and some longer inputs (17 elements = one
    // whole Keccak block, 18 = one block + 8 bytes)
    let widths: Vec<usize> = (0..=9).chain([16, 17, 18, 33, 34, 35, 50]).collect();
    for &w in &widths {
        let reps = if w <= 5 { if thorough { 40 } else { 8 } } else if thorough { 8 } else { 2 };
        for rep in 0..reps {
            let xs: Vec<F> = match rep {
                0 => vec![F::ZERO; w],
                1 => vec![F::ONE; w],
                2 => vec![F::from_canonical_u64(P - 1); w],
                _ => (0..w).map(|_| elt(r)).collect(),
            };
            let head = format!("{N} {} {}", w, can(&xs));
            let cls = |s: &str| format!("{s}<{N}>-w{}", if w <= 9 { w.to_string() } else { "long".into() });
            e.case(&cls("khash"), format!("c12 khash {head}"), || join(<KeccakHash<N> as Hasher<F>>::hash_no_pad(&xs).0));
            e.case(&cls("khornoop"), format!("c12 khornoop {head}"), || join(<KeccakHash<N> as Hasher<F>>::hash_or_noop(&xs).0));
            e.case(&cls("khpad"), format!("c12 khpad {head}"), || join(<KeccakHash<N> as Hasher<F>>::hash_pad(&xs).0));
        }
    }
    // two_to_one and BytesHash::to_vec
    for rep in 0..(if thorough { 400 } else { 60 }) {
        let mut bs = vec![0u8; 2 * N];
        for b in bs.iter_mut() {
            *b = match rep {
                0 => 0,
                1 => 255,
                _ => if r.below(6) == 0 { *r.pick(&[0u8, 1, 127, 128, 255]) } else { r.below(256) as u8 },
            };
        }
        let l = BytesHash::<N>(bs[..N].try_into().unwrap());
        let rr = BytesHash::<N>(bs[N..].try_into().unwrap());
        e.case(&format!("ktwo<{N}>"), format!("c12 ktwo {N} {}", join(bs.iter())), || {
            join(<KeccakHash<N> as Hasher<F>>::two_to_one(l, rr).0)
        });
        e.case(&format!("ktovec<{N}>"), format!("c12 ktovec {N} {}", join(bs[..N].iter())), || {
            can(&<BytesHash<N> as GenericHashOut<F>>::to_vec(&l))
        });
    }
}

/// One rayon pool per size, shared by all trees (creating a 16-thread pool per tree is slow on a
/// loaded machine).
pub fn pools() -> Vec<(usize, rayon::ThreadPool)> {
    [1usize, 2, 16].iter().map(|&nt| (nt, rayon::ThreadPoolBuilder::new().num_threads(nt).build().unwrap())).collect()
}

fn trees<const N: usize>(e: &mut Emitter, r: &mut Rng, kmax: usize, widths: &[usize], tcount: &mut usize, pools: &[(usize, rayon::ThreadPool)]) {
    type H<const N: usize> = KeccakHash<N>;
    for k in 0..=kmax {
        for cap_h in 0..=k {
            for &w in widths {
                let n = 1usize << k;
                let ls = leaves(r, n, w);
                let (nt, pool) = &pools[*tcount % 3];
                *tcount += 1;
                let tree = pool.install(|| MerkleTree::<F, H<N>>::new(ls.clone(), cap_h));
                e.count(&format!("keccak-threads={nt}"));
                let positions: Vec<usize> = if n <= 8 { (0..n).collect() } else {
                    vec![0, n - 1, n / 2, n / 2 - 1, r.below(n as u64) as usize, r.below(n as u64) as usize]
                };
                let t2 = tree.clone();
                let pos2 = positions.clone();
                e.case(
                    &format!("ktree<{N}>+proofs"),
                    format!("c12 ktree {N} {k} {cap_h} {w} {} {} {}", positions.len(), join(positions.iter()), flat_leaves(&ls)),
                    || {
                        let proofs: Vec<String> = pos2.iter().map(|&i| flat_b(&t2.prove(i).siblings)).collect();
                        format!("{} | {} | {}", flat_b(&t2.cap.0), flat_b(&t2.digests), proofs.join(" ; "))
                    },
                );
                for &i in &positions {
                    let proof = tree.prove(i);
                    let honest = verify_merkle_proof_to_cap(ls[i].clone(), i, &tree.cap, &proof);
                    if honest.is_err() {
                        e.oracle_failures.push(format!("keccak<{N}> honest proof rejected: k={k} cap={cap_h} w={w} i={i}"));
                    }
                    e.case("kverify-honest", verify_req(&ls[i], i, &tree.cap, &proof), || {
                        verdict(verify_merkle_proof_to_cap(ls[i].clone(), i, &tree.cap, &proof))
                    });
                    if n > 1 {
                        let j = (i + 1 + r.below(n as u64 - 1) as usize) % n;
                        e.case("kverify-wrong-position", verify_req(&ls[i], j, &tree.cap, &proof), || {
                            verdict(verify_merkle_proof_to_cap(ls[i].clone(), j, &tree.cap, &proof))
                        });
                        if ls[j] != ls[i] {
                            e.case("kverify-wrong-leaf", verify_req(&ls[j], i, &tree.cap, &proof), || {
                                verdict(verify_merkle_proof_to_cap(ls[j].clone(), i, &tree.cap, &proof))
                            });
                        }
                    }
                    let mut leaf2 = ls[i].clone();
                    let c = r.below(w as u64) as usize;
                    leaf2[c] += F::ONE;
                    e.case("kverify-edited-leaf", verify_req(&leaf2, i, &tree.cap, &proof), || {
                        verdict(verify_merkle_proof_to_cap(leaf2.clone(), i, &tree.cap, &proof))
                    });
                    // a leaf of another width: the same elements followed by a zero. While both
                    // widths are below the no-op boundary the zero-padded digests coincide (w = 1:
                    // OK, as for Poseidon; the property only speaks of leaves of the same width);
                    // across the boundary (w = 3 -> 4 for N = 25, w = 4 -> 5 for N = 32) and above
                    // it the extended leaf is hashed and must be rejected
                    let mut leaf3 = ls[i].clone();
                    leaf3.push(F::ZERO);
                    e.case("kverify-extended-leaf", verify_req(&leaf3, i, &tree.cap, &proof), || {
                        verdict(verify_merkle_proof_to_cap(leaf3.clone(), i, &tree.cap, &proof))
                    });
                    if !proof.siblings.is_empty() {
                        let mut p3 = proof.clone();
                        let s = r.below(p3.siblings.len() as u64) as usize;
                        let b = r.below(N as u64) as usize;
                        p3.siblings[s].0[b] ^= 1 << r.below(8);
                        e.case("kverify-edited-sibling", verify_req(&ls[i], i, &tree.cap, &p3), || {
                            verdict(verify_merkle_proof_to_cap(ls[i].clone(), i, &tree.cap, &p3))
                        });
                        let mut p4 = proof.clone();
                        p4.siblings.pop();
                        e.case("kverify-short-proof", verify_req(&ls[i], i, &tree.cap, &p4), || {
                            verdict(verify_merkle_proof_to_cap(ls[i].clone(), i, &tree.cap, &p4))
                        });
                    }
                    let mut cap2 = tree.cap.clone();
                    let ci = i >> (k - cap_h);
                    // the LAST byte too: a comparison of only a prefix of the digest would miss it
                    let b = if r.coin() { N - 1 } else { r.below(N as u64) as usize };
                    cap2.0[ci].0[b] ^= 1 << r.below(8);
                    e.case("kverify-edited-cap", verify_req(&ls[i], i, &cap2, &proof), || {
                        verdict(verify_merkle_proof_to_cap(ls[i].clone(), i, &cap2, &proof))
                    });
                    let mut p5 = proof.clone();
                    p5.siblings.push(BytesHash([0u8; N]));
                    e.case("kverify-long-proof", verify_req(&ls[i], i, &tree.cap, &p5), || {
                        verdict(verify_merkle_proof_to_cap(ls[i].clone(), i, &tree.cap, &p5))
                    });
                }
            }
        }
    }
}

/// A random challenger history (the encoding of c13.rs: `1 k x..` = observe, `2 n` = squeeze).
fn history(r: &mut Rng, max_ops: u64) -> Vec<u64> {
    let mut enc = vec![];
    let nops = r.range(1, max_ops);
    for _ in 0..nops {
        if r.below(5) < 3 {
            let k = match r.below(6) { 0 => 0, 1 => 8, 2 => 16, 3 => r.range(7, 9), _ => r.below(21) };
            enc.push(1);
            enc.push(k);
            for _ in 0..k {
                enc.push(if r.below(4) == 0 { word(r) % P } else { r.below(P) });
            }
        } else {
            enc.push(2);
            enc.push(match r.below(5) { 0 => 0, 1 => 8, 2 => 9, _ => r.below(21) });
        }
    }
    enc
}

fn run_native(enc: &[u64]) -> Vec<F> {
    let mut ch = Challenger::<F, KeccakHash<25>>::new();
    let mut out = vec![];
    let mut i = 0;
    while i < enc.len() {
        if enc[i] == 1 {
            let k = enc[i + 1] as usize;
            let xs: Vec<F> = enc[i + 2..i + 2 + k].iter().map(|&x| F::from_canonical_u64(x)).collect();
            if (k + i) % 3 != 0 {
                ch.observe_elements(&xs);
            } else {
                for x in xs {
                    ch.observe_element(x);
                }
            }
            i += 2 + k;
        } else {
            out.extend(ch.get_n_challenges(enc[i + 1] as usize));
            i += 2;
        }
    }
    out
}

pub fn emit(e: &mut Emitter, seed: u64, thorough: bool) {
    let mut r = Rng::new(seed ^ 0x12_4B);
    // 1. keccak_hash::keccak on byte strings of every length 0..=300 (block boundaries 135/136/137,
    //    271/272/273 included) and a few longer ones
    let lens: Vec<usize> = (0..=300).chain([407, 408, 409, 543, 544, 545, 1000]).collect();
    for &len in &lens {
        let reps = if thorough { 4 } else { 1 };
        for rep in 0..=reps {
            let bs: Vec<u8> = match rep {
                0 if len % 7 == 0 => vec![0u8; len],
                0 if len % 7 == 1 => vec![255u8; len],
                _ => (0..len).map(|_| r.below(256) as u8).collect(),
            };
            let class = match len % 136 { 135 => "keccak-len=135mod136", 0 => "keccak-len=0mod136", 1 => "keccak-len=1mod136", _ => "keccak-other" };
            e.case(class, format!("c12 keccak {} {}", len, join(bs.iter())), || join(keccak_hash::keccak(&bs).0));
        }
    }
    // 2. the hasher's functions
    hasher_fns::<25>(e, &mut r, thorough);
    hasher_fns::<32>(e, &mut r, thorough);
    // 3. the permutation (incl. all-zero, all p-1) and challenger histories
    for rep in 0..(if thorough { 600 } else { 100 }) {
        let s: Vec<F> = match rep {
            0 => vec![F::ZERO; 12],
            1 => vec![F::from_canonical_u64(P - 1); 12],
            2 => (0..12).map(|i| F::from_canonical_u64(i)).collect(),
            _ => (0..12).map(|_| elt(&mut r)).collect(),
        };
        e.case("kperm", format!("c12 kperm {}", can(&s)), || {
            let mut p = KeccakPermutation::<F>::new(s.iter().copied());
            p.permute();
            can(p.as_ref())
        });
    }
    // corpus: states whose hash onion contains a u64 word >= ORDER among the first 12 words (found
    // by a 2^30-hash search; probability 2^-32 per word, never hit by random inputs): the word must
    // be skipped and a fourth hash is needed. As a permutation input and as the first block of a
    // challenger history.
    for (c, t) in [(31616161u64, 1u64), (37169875, 6), (43038660, 6), (46037290, 2)] {
        let mut s = vec![F::ZERO; 12];
        s[0] = F::from_canonical_u64(c);
        s[1] = F::from_canonical_u64(t);
        e.case("kperm-rejected-word", format!("c12 kperm {}", can(&s)), || {
            let mut p = KeccakPermutation::<F>::new(s.iter().copied());
            p.permute();
            can(p.as_ref())
        });
        // observe [c, t, 0, 0, 0, 0, 0, 0] on the fresh (all-zero) sponge = that state; squeeze 20
        let enc: Vec<u64> = vec![1, 8, c, t, 0, 0, 0, 0, 0, 0, 2, 20];
        e.case("keccak-challenger-rejected-word", format!("c12 kchal {}", join(enc.iter())), || can(&run_native(&enc)));
    }
    for _ in 0..(if thorough { 600 } else { 80 }) {
        let enc = history(&mut r, 30);
        e.case("keccak-challenger-history", format!("c12 kchal {}", join(enc.iter())), || can(&run_native(&enc)));
    }
    // 4. Merkle trees
    let mut tcount = 0;
    let kmax = if thorough { 7 } else { 5 };
    let widths: &[usize] = if thorough { &[1, 2, 3, 4, 5, 8, 9, 17, 18] } else { &[1, 3, 4, 5, 9] };
    let pools = pools();
    trees::<25>(e, &mut r, kmax, widths, &mut tcount, &pools);
    // N = 32 (the other instantiation used in the code base): smaller sweep
    trees::<32>(e, &mut r, if thorough { 5 } else { 3 }, &[1, 4, 5], &mut tcount, &pools);
}
