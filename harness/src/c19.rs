//! C19: circuit keys and deterministic intermediates do not depend on the schedule, the process,
//! hash-map seeds or the SIMD build. A fixed family of programs is built under rayon pools of
//! 1/2/5/16 threads (and, driven by check.py, in separate processes / alternative builds); the
//! serialized verifier-only and common data, the preprocessed cap, FFT outputs and Merkle caps of
//! deterministic commitments must be identical; the circuit digest and (for tiny circuits) the
//! preprocessed cap are recomputed by the Lean model.
use plonky2::field::fft::fft;
use plonky2::field::polynomial::PolynomialCoeffs;
use plonky2::field::types::{Field, PrimeField64};
use plonky2::hash::merkle_tree::MerkleTree;
use plonky2::plonk::circuit_data::CircuitConfig;

use crate::dump::*;
use crate::progs::*;
use crate::util::*;

fn fnv(bytes: &[u8]) -> u64 {
    bytes.iter().fold(14695981039346656037u64, |h, b| (h ^ *b as u64).wrapping_mul(1099511628211))
}

/// The fixed family (independent of the seed so that separate processes/builds can be compared).
pub fn family(thorough: bool) -> Vec<(String, Prog, CircuitConfig)> {
    let mut out = vec![];
    let n = if thorough { 14 } else { 6 };
    for i in 0..n {
        let mut r = Rng::new(0xC19 + i as u64);
        let features = [0u64, 1, 2, 4, 7, 15][i % 6];
        let nops = [6usize, 30, 60, 120, 25, 200][i % 6];
        let prog = gen_prog(&mut r, nops, features);
        let mut config = CircuitConfig::standard_recursion_config();
        if i % 4 == 3 { config.num_routed_wires = 50; }
        if i % 5 == 4 { config.fri_config.cap_height = 1; }
        // the same constant in its canonical and its non-canonical representation (0 and p): the builder's
        // constant map must treat them as one key whatever the hash-map seed of the build
        let mut prog = prog;
        let n0 = prog.ops.len();
        prog.ops.push(Op::Const(0));
        prog.ops.push(Op::Const(P));
        prog.ops.push(Op::Const(P - 1));
        prog.ops.push(Op::Add(n0 + 1, n0 + 2));
        prog.ops.push(Op::Mul(n0, n0 + 3));
        prog.ops.push(Op::Public(n0 + 3));
        prog.ops.push(Op::Public(n0 + 4));
        out.push((format!("prog{i}"), prog, config));
    }
    out
}

pub fn emit(e: &mut Emitter, _seed: u64, thorough: bool) {
    let mut keys = serde_json::Map::new();
    let fam = family(thorough);
    for (name, prog, config) in &fam {
        let mut per_threads: Vec<(usize, u64, u64)> = vec![];
        let mut first = None;
        for &nt in &[1usize, 2, 5, 16] {
            let pool = rayon::ThreadPoolBuilder::new().num_threads(nt).build().unwrap();
            e.stage(&format!("building {name} with {nt} threads"));
            let Ok((data, pw)) = std::panic::catch_unwind(std::panic::AssertUnwindSafe(|| pool.install(|| prog.build(config.clone())))) else { e.count("inadmissible family member"); break; };
            let vb = data.verifier_only.to_bytes().unwrap();
            // serde form of the common data (gates by id): also defined for gates outside the default registry
            let cb = serde_json::to_vec(&data.common).unwrap();
            per_threads.push((nt, fnv(&vb), fnv(&cb)));
            if first.is_none() {
                // a proof made under this pool must verify (and, by check.py, under any other build)
                let proof = pool.install(|| data.prove(pw)).unwrap();
                if data.verify(proof.clone()).is_err() { e.oracle_failures.push(format!("{name}: proof made with {nt} threads rejected")); }
                // Lean: the circuit digest from the preprocessed cap; for tiny circuits the cap itself
                let mut t = Toks::default();
                t.digests(&data.verifier_only.constants_sigmas_cap.0);
                t.n(data.common.degree_bits());
                let dg = data.verifier_only.circuit_digest;
                e.case("circuit-digest", format!("c19 digest {}", t.line()), || join(dg.elements.iter().map(|x| x.to_canonical_u64())));
                if data.common.degree_bits() <= 3 {
                    let polys = &data.prover_only.constants_sigmas_commitment.polynomials;
                    let mut t = Toks::default();
                    t.n(data.common.config.fri_config.rate_bits);
                    t.n(data.common.config.fri_config.cap_height);
                    t.n(data.common.degree_bits());
                    t.n(polys.len());
                    for p in polys { for c in &p.coeffs { t.f(*c); } }
                    let cap = data.verifier_only.constants_sigmas_cap.clone();
                    e.case("preprocessed-cap-from-polynomials", format!("c19 cap {}", t.line()), || join(cap.0.iter().flat_map(|h| h.elements.iter().map(|x| x.to_canonical_u64()))));
                }
                first = Some((data, proof));
            }
        }
        if per_threads.windows(2).any(|w| w[0].1 != w[1].1 || w[0].2 != w[1].2) {
            e.oracle_failures.push(format!("{name}: verifier-only/common data differ across thread counts: {per_threads:?}"));
        }
        if let Some((nt, v, c)) = per_threads.first() {
            let _ = nt;
            keys.insert(name.clone(), serde_json::json!({"verifier_only": v.to_string(), "common": c.to_string()}));
        }
        e.count("program built under 4 thread counts");
        if let Some((data, proof)) = first {
            // cross-verification material for other processes / builds
            keys.insert(format!("{name}.proof"), serde_json::json!(hex(&proof.to_bytes())));
            let _ = data;
        }
    }
    // deterministic intermediates: FFT outputs and Merkle caps across thread counts
    let mut r = Rng::new(0xC19F);
    for lg in [4usize, 9, 13] {
        let coeffs: Vec<F> = (0..1usize << lg).map(|_| F::from_canonical_u64(r.below(P))).collect();
        let leaves: Vec<Vec<F>> = (0..1usize << lg).map(|i| vec![coeffs[i], coeffs[(i * 7 + 1) % (1 << lg)], F::from_canonical_u64(i as u64)]).collect();
        let mut seen = vec![];
        for &nt in &[1usize, 2, 5, 16] {
            let pool = rayon::ThreadPoolBuilder::new().num_threads(nt).build().unwrap();
            let v = pool.install(|| fft(PolynomialCoeffs::new(coeffs.clone())));
            let t = pool.install(|| MerkleTree::<F, H>::new(leaves.clone(), 2.min(lg)));
            let d = fnv(&v.values.iter().flat_map(|x| x.to_canonical_u64().to_le_bytes()).collect::<Vec<u8>>())
                ^ fnv(&t.cap.0.iter().flat_map(|h| h.elements).flat_map(|x| x.to_canonical_u64().to_le_bytes()).collect::<Vec<u8>>()).rotate_left(7);
            seen.push(d);
        }
        if seen.windows(2).any(|w| w[0] != w[1]) { e.oracle_failures.push(format!("FFT / Merkle cap of size 2^{lg} differ across thread counts")); }
        keys.insert(format!("intermediate{lg}"), serde_json::json!(seen[0].to_string()));
        e.count("intermediate compared under 4 thread counts");
    }
    for m in packed_battery() { e.oracle_failures.push(format!("generic packed code disagrees with scalar code in this build: {m}")); }
    e.count("packed-field battery (packing width of this build compared lane by lane with scalar arithmetic)");
    e.extra_json = Some(serde_json::json!({ "keys": keys }));
}

/// Generic `P: PackedField` code must compute the same values for `P = F` and `P = F::Packing`
/// (on builds where the packing is a SIMD vector): every binary operation between a packed vector
/// and a packed vector / a scalar, on boundary words in every representation, lane by lane.
pub fn packed_battery() -> Vec<String> {
    use plonky2::field::packable::Packable;
    use plonky2::field::packed::PackedField;
    use plonky2::field::ops::Square;
    type PF = <F as Packable>::Packing;
    let words: Vec<u64> = vec![0, 1, 2, P - 1, P, P + 1, u64::MAX, u64::MAX - 1, 1 << 32, (1 << 32) - 1, P - (1 << 32), 0xFFFF_FFFF_0000_0000, 0x8000_0000_0000_0000, 0xFFFF_FFFE_FFFF_FFFF];
    let raw = |x: u64| F::from_noncanonical_u64(x);
    let w = PF::WIDTH;
    let mut bad = vec![];
    let mut r = Rng::new(0xC19B);
    for round in 0..(words.len() * words.len() + 200) {
        let (a0, b0) = if round < words.len() * words.len() { (words[round / words.len()], words[round % words.len()]) } else { (r.next(), if r.coin() { *r.pick(&words) } else { r.next() }) };
        let lanes_a: Vec<F> = (0..w).map(|i| raw(if i == 0 { a0 } else { words[(round + i) % words.len()] })).collect();
        let lanes_b: Vec<F> = (0..w).map(|i| raw(if i == 0 { b0 } else { words[(round + 3 * i) % words.len()] })).collect();
        let (pa, pb) = (*PF::from_slice(&lanes_a), *PF::from_slice(&lanes_b));
        let s = raw(b0);
        let results: Vec<(&str, PF, Vec<F>)> = vec![
            ("packed+packed", pa + pb, (0..w).map(|i| lanes_a[i] + lanes_b[i]).collect()),
            ("packed-packed", pa - pb, (0..w).map(|i| lanes_a[i] - lanes_b[i]).collect()),
            ("packed*packed", pa * pb, (0..w).map(|i| lanes_a[i] * lanes_b[i]).collect()),
            ("packed+scalar", pa + s, (0..w).map(|i| lanes_a[i] + s).collect()),
            ("packed-scalar", pa - s, (0..w).map(|i| lanes_a[i] - s).collect()),
            ("packed*scalar", pa * s, (0..w).map(|i| lanes_a[i] * s).collect()),
            ("-packed", -pa, (0..w).map(|i| -lanes_a[i]).collect()),
            ("packed.square", pa.square(), (0..w).map(|i| lanes_a[i] * lanes_a[i]).collect()),
        ];
        for (op, got, want) in results {
            let g = got.as_slice();
            for i in 0..w {
                if g[i].to_canonical_u64() != want[i].to_canonical_u64() && bad.len() < 8 {
                    bad.push(format!("packed-field: {op} lane {i} of width {w}: operands raw {:#x} / {:#x} (scalar {:#x}) give {} , scalar arithmetic gives {}",
                        lanes_a[i].0, lanes_b[i].0, b0, g[i].to_canonical_u64(), want[i].to_canonical_u64()));
                }
            }
        }
    }
    bad
}

fn hex(b: &[u8]) -> String {
    b.iter().map(|x| format!("{x:02x}")).collect()
}

/// `p2h c19verify <keys.json>`: verify, in THIS process/build, the proofs another run produced for
/// the same fixed family, and compare the key digests. Prints one line per mismatch.
pub fn cross_verify(path: &str, thorough: bool) -> i32 {
    let j: serde_json::Value = serde_json::from_str(&std::fs::read_to_string(path).unwrap()).unwrap();
    let keys = &j["extra"]["keys"];
    let mut bad = 0;
    for (name, prog, config) in family(thorough) {
        let Ok((data, _)) = std::panic::catch_unwind(std::panic::AssertUnwindSafe(|| prog.build(config.clone()))) else { continue };
        let vb = fnv(&data.verifier_only.to_bytes().unwrap()).to_string();
        let cb = fnv(&serde_json::to_vec(&data.common).unwrap()).to_string();
        if keys[&name]["verifier_only"].as_str() != Some(&vb) || keys[&name]["common"].as_str() != Some(&cb) {
            println!("KEY-MISMATCH {name}: this build {vb}/{cb}, other run {}/{}", keys[&name]["verifier_only"], keys[&name]["common"]);
            bad += 1;
        }
        if let Some(hx) = keys[format!("{name}.proof")].as_str() {
            let bytes: Vec<u8> = (0..hx.len() / 2).map(|i| u8::from_str_radix(&hx[2 * i..2 * i + 2], 16).unwrap()).collect();
            match plonky2::plonk::proof::ProofWithPublicInputs::<F, C, 2>::from_bytes(bytes, &data.common) {
                Ok(p) => if data.verify(p).is_err() { println!("CROSS-VERIFY-FAIL {name}: a proof produced by the other run is rejected here"); bad += 1; },
                Err(_) => { println!("CROSS-DECODE-FAIL {name}"); bad += 1; }
            }
        }
    }
    for m in packed_battery() { println!("KEY-MISMATCH {m}"); bad += 1; }
    println!("c19verify: {bad} mismatches");
    bad
}
