//! A dishonest PLONK prover built from public API (found by an audit agent; kept as a regression
//! generator): it commits ALL-ZERO wire / Z / partial-product / lookup / quotient polynomials for an
//! arbitrary claimed public-input vector, DROPS the quotient openings from the opening set, and runs
//! the honest FRI prover. The plain verifier rejects the shape; before the repair of F-C16-1 the
//! compressed path (`verify_compressed`) performed no shape validation, checked the quotient identity
//! for zero challenges, and ACCEPTED — for any circuit and any public inputs.
use plonky2::field::extension::Extendable;
use plonky2::field::polynomial::PolynomialCoeffs;
use plonky2::field::types::Field;
use plonky2::fri::oracle::PolynomialBatch;
use plonky2::fri::structure::{FriBatchInfo, FriInstanceInfo, FriOpeningBatch, FriOpenings, FriOracleInfo, FriPolynomialInfo};
use plonky2::iop::challenger::Challenger;
use plonky2::plonk::circuit_data::CircuitData;
use plonky2::plonk::config::{GenericConfig, Hasher};
use plonky2::plonk::proof::{OpeningSet, Proof, ProofWithPublicInputs};
use plonky2::util::timing::TimingTree;

use crate::dump::{C, F};

pub fn forge_compressed_shape(
    data: &CircuitData<F, C, 2>,
    public_inputs: Vec<F>,
) -> ProofWithPublicInputs<F, C, 2> {
    let common = &data.common;
    let config = &common.config;
    assert!(!config.zero_knowledge, "demo written for the non-zk configs");
    let n = common.degree();
    let rate_bits = config.fri_config.rate_bits;
    let cap_height = config.fri_config.cap_height;
    let mut timing = TimingTree::default();

    let zero_batch = |num_polys: usize, timing: &mut TimingTree| {
        PolynomialBatch::<F, C, 2>::from_coeffs(
            vec![PolynomialCoeffs::new(vec![F::ZERO; n]); num_polys],
            rate_bits,
            false,
            cap_height,
            timing,
            None,
        )
    };

    let num_zs_pp = config.num_challenges * (1 + common.num_partial_products);
    let num_lookup = config.num_challenges * common.num_lookup_polys;
    let num_quotient = config.num_challenges * common.quotient_degree_factor;

    // "Witness": nothing. All prover polynomials are identically zero.
    let wires = zero_batch(config.num_wires, &mut timing);
    let zs_pp_lookup = zero_batch(num_zs_pp + num_lookup, &mut timing);
    let quotient = zero_batch(num_quotient, &mut timing);
    let constants_sigmas = &data.prover_only.constants_sigmas_commitment;

    // Fiat-Shamir transcript, exactly as `prove_with_partition_witness` / `get_challenges`.
    let public_inputs_hash = <C as GenericConfig<2>>::InnerHasher::hash_no_pad(&public_inputs);
    let mut challenger = Challenger::<F, <C as GenericConfig<2>>::Hasher>::new();
    common.fri_params.observe(&mut challenger);
    challenger.observe_hash::<<C as GenericConfig<2>>::Hasher>(data.verifier_only.circuit_digest);
    challenger.observe_hash::<<C as GenericConfig<2>>::InnerHasher>(public_inputs_hash);
    challenger.observe_cap::<<C as GenericConfig<2>>::Hasher>(&wires.merkle_tree.cap);
    let _betas = challenger.get_n_challenges(config.num_challenges);
    let _gammas = challenger.get_n_challenges(config.num_challenges);
    if common.num_lookup_polys != 0 {
        let _deltas = challenger.get_n_challenges(2 * config.num_challenges);
    }
    challenger.observe_cap::<<C as GenericConfig<2>>::Hasher>(&zs_pp_lookup.merkle_tree.cap);
    let _alphas = challenger.get_n_challenges(config.num_challenges);
    challenger.observe_cap::<<C as GenericConfig<2>>::Hasher>(&quotient.merkle_tree.cap);
    let zeta = challenger.get_extension_challenge::<2>();
    let g = <F as Extendable<2>>::Extension::primitive_root_of_unity(common.degree_bits());

    let mut openings = OpeningSet::new(
        zeta,
        g,
        constants_sigmas,
        &wires,
        &zs_pp_lookup,
        &quotient,
        common,
    );
    // THE MANGLING: drop the quotient openings.
    openings.quotient_polys.clear();

    // What `OpeningSet::to_fri_openings` (pub(crate)) produces for this opening set.
    let mut zeta_values = [
        openings.constants.as_slice(),
        openings.plonk_sigmas.as_slice(),
        openings.wires.as_slice(),
        openings.plonk_zs.as_slice(),
        openings.partial_products.as_slice(),
        openings.quotient_polys.as_slice(),
    ]
    .concat();
    let mut next_values = openings.plonk_zs_next.clone();
    if !openings.lookup_zs.is_empty() {
        zeta_values.extend(openings.lookup_zs.iter());
        next_values.extend(openings.lookup_zs_next.iter());
    }
    let fri_openings = FriOpenings::<F, 2> {
        batches: vec![
            FriOpeningBatch {
                values: zeta_values,
            },
            FriOpeningBatch {
                values: next_values,
            },
        ],
    };
    challenger.observe_openings(&fri_openings);

    // What `CommonCircuitData::get_fri_instance` (pub(crate)) produces.
    let num_preprocessed = common.sigmas_range().end;
    let instance = FriInstanceInfo::<F, 2> {
        oracles: vec![
            FriOracleInfo {
                num_polys: num_preprocessed,
                blinding: false,
            },
            FriOracleInfo {
                num_polys: config.num_wires,
                blinding: true,
            },
            FriOracleInfo {
                num_polys: num_zs_pp + num_lookup,
                blinding: true,
            },
            FriOracleInfo {
                num_polys: num_quotient,
                blinding: true,
            },
        ],
        batches: vec![
            FriBatchInfo {
                point: zeta,
                polynomials: [
                    FriPolynomialInfo::from_range(0, 0..num_preprocessed),
                    FriPolynomialInfo::from_range(1, 0..config.num_wires),
                    FriPolynomialInfo::from_range(2, 0..num_zs_pp),
                    FriPolynomialInfo::from_range(3, 0..num_quotient),
                    FriPolynomialInfo::from_range(2, num_zs_pp..num_zs_pp + num_lookup),
                ]
                .concat(),
            },
            FriBatchInfo {
                point: g * zeta,
                polynomials: [
                    FriPolynomialInfo::from_range(2, 0..config.num_challenges),
                    FriPolynomialInfo::from_range(2, num_zs_pp..num_zs_pp + num_lookup),
                ]
                .concat(),
            },
        ],
    };

    let opening_proof = PolynomialBatch::<F, C, 2>::prove_openings(
        &instance,
        &[constants_sigmas, &wires, &zs_pp_lookup, &quotient],
        &mut challenger,
        &common.fri_params,
        None,
        None,
        &mut timing,
    );

    ProofWithPublicInputs {
        proof: Proof {
            wires_cap: wires.merkle_tree.cap.clone(),
            plonk_zs_partial_products_cap: zs_pp_lookup.merkle_tree.cap.clone(),
            quotient_polys_cap: quotient.merkle_tree.cap.clone(),
            openings,
            opening_proof,
        },
        public_inputs,
    }
}
