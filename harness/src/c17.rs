//! C17: binary encodings round-trip and restored circuits are interchangeable.
//!
//! Implementation-side oracle (violations go to `oracle_failures`): for circuits that together use
//! every built-in gate and generator type the public builder API can reach, `to_bytes` → `from_bytes`
//! of the complete circuit, the prover data, the verifier data, the common data, the prover-only
//! and verifier-only parts gives back an equal value (`==` where implemented; since gate and
//! generator references compare by id only, also their `Debug` output) whose re-encoding is
//! byte-identical; digests agree; the restored prover proves the same witness, each side's proof
//! verifies under the other side's verifier data, public inputs agree, witnesses agree on every
//! wire that is not deliberately randomised; proofs and compressed proofs round-trip.
//!
//! Model correspondence: every proof / compressed-proof encoding, and byte-level mutants of it
//! (truncations, bit flips, overwritten 8-byte windows, appended bytes, random strings), is sent to
//! the Lean codec (`P2.Model.Codec`): `c17 proof|cproof <common> <n> <bytes>` answers
//! `OK <consumed> SAME|DIFF` or `ERR`; `c17 proofclass|cproofclass` answers `OK` / `ERR`;
//! `c17 proofeq|cproofeq <common> <n> <bytes> <value dump>` answers `EQ` / `NEQ` (is the decoded value
//! that value — asked for the real value and for deliberately different ones).
use std::collections::BTreeSet;
use std::panic::{catch_unwind, AssertUnwindSafe};

use plonky2::gates::noop::NoopGate;
use plonky2::iop::generator::generate_partial_witness;
use plonky2::iop::witness::{PartialWitness, WitnessWrite};
use plonky2::plonk::circuit_builder::CircuitBuilder;
use plonky2::plonk::circuit_data::{
    CircuitConfig, CircuitData, CommonCircuitData, ProverCircuitData, ProverOnlyCircuitData, VerifierCircuitData,
    VerifierOnlyCircuitData,
};
use plonky2::plonk::proof::{CompressedProofWithPublicInputs, ProofWithPublicInputs};
use plonky2::util::serialization::{Buffer, DefaultGateSerializer, DefaultGeneratorSerializer, Read};

use crate::dump::*;
use crate::progs::*;
use crate::util::*;

const D: usize = 2;
type Pwpi = ProofWithPublicInputs<F, C, D>;
type Cpwpi = CompressedProofWithPublicInputs<F, C, D>;
type Data = CircuitData<F, C, D>;

/// the 16 gate types of `DefaultGateSerializer`
const ALL_GATES: [&str; 16] = [
    "ArithmeticGate", "ArithmeticExtensionGate", "BaseSumGate", "ConstantGate", "CosetInterpolationGate",
    "ExponentiationGate", "LookupGate", "LookupTableGate", "MulExtensionGate", "NoopGate", "PoseidonMdsGate",
    "PoseidonGate", "PublicInputGate", "RandomAccessGate", "ReducingExtensionGate", "ReducingGate",
];
/// the 24 generator types of `DefaultGeneratorSerializer`. `NonzeroTestGenerator` and
/// `SplitGenerator` are constructed nowhere in the library and have private fields: they are only
/// reachable through their `Default` impls (see `default_generators_circuit`).
const ALL_GENERATORS: [&str; 24] = [
    "ArithmeticBaseGenerator", "ArithmeticExtensionGenerator", "BaseSplitGenerator", "BaseSumGenerator",
    "ConstantGenerator", "CopyGenerator", "DummyProofGenerator", "EqualityGenerator", "ExponentiationGenerator",
    "InterpolationGenerator", "LookupGenerator", "LookupTableGenerator", "LowHighGenerator", "MulExtensionGenerator",
    "NonzeroTestGenerator", "PoseidonGenerator", "PoseidonMdsGenerator", "QuotientGeneratorExtension",
    "RandomAccessGenerator", "RandomValueGenerator", "ReducingGenerator", "ReducingExtensionGenerator",
    "SplitGenerator", "WireSplitGenerator",
];

fn gs() -> DefaultGateSerializer { DefaultGateSerializer }
fn gens() -> DefaultGeneratorSerializer<C, D> { DefaultGeneratorSerializer::<C, D>::default() }

/// type name of a gate / generator id (`ArithmeticGate { num_ops: 20 }`, `BaseSplitGenerator + Base: 2`, …)
fn type_name(id: &str) -> String {
    id.split(|c: char| !(c.is_alphanumeric() || c == '_')).next().unwrap_or("").to_string()
}

#[derive(Default)]
struct Coverage { gates: BTreeSet<String>, generators: BTreeSet<String> }

/// the reducing gates and their generators share an id prefix: tell them apart by the gate
fn generator_name(g: &plonky2::iop::generator::WitnessGeneratorRef<F, D>) -> String {
    let dbg = format!("{:?}", g);
    let n = type_name(&g.0.id());
    if n == "ReducingGenerator" && dbg.contains("ReducingExtensionGate") { "ReducingExtensionGenerator".into() } else { n }
}

// ------------------------------------------------------------------ circuits

/// A fixed program that touches every gadget of `progs.rs` (values are seeded).
fn kitchen_sink(r: &mut Rng) -> Prog {
    let mut ops: Vec<Op> = vec![];
    let small_tab: Vec<(u16, u16)> = (0..5u16).map(|i| (3 * i + 1, r.below(1 << 16) as u16)).collect();
    // more than one LookupTableGate row (26 slots) …
    let big_tab: Vec<(u16, u16)> = (0..40u16).map(|i| (1000 + 7 * i, r.below(1 << 16) as u16)).collect();
    // … and exactly one full row
    let row_tab: Vec<(u16, u16)> = (0..26u16).map(|i| (i, i.wrapping_mul(i))).collect();
    let tables = vec![small_tab.clone(), big_tab.clone(), row_tab.clone()];
    let mut push = |op: Op| -> usize { ops.push(op); ops.len() - 1 };
    let a = push(Op::Input(r.below(P)));
    let b = push(Op::Input(1 + r.below(P - 1)));
    let s6 = push(Op::Input(r.below(64)));          // < 2^6
    let bit = push(Op::Input(r.below(2)));
    let c = push(Op::Const(r.below(P)));
    let x = push(Op::Add(a, b));
    let y = push(Op::Sub(x, c));
    let z = push(Op::Mul(x, y));
    let w = push(Op::MulAdd(a, b, z));
    let v = push(Op::Arith(12345, 77, a, w, c));
    let n = push(Op::Neg(v));
    let q = push(Op::Div(n, b));
    let eq1 = push(Op::IsEqual(a, a));
    let eq0 = push(Op::IsEqual(a, q));
    let sel = push(Op::Select(eq1, x, y));
    let nt = push(Op::Not(bit));
    let an = push(Op::And(eq1, nt));
    let or = push(Op::Or(eq0, an));
    let ss_gate = push(Op::SplitSum(s6, 33));       // le_sum through a BaseSumGate (BaseSumGenerator)
    let ss_arith = push(Op::SplitSum(s6, 8));       // le_sum through arithmetic gates
    push(Op::RangeCheck(s6, 16));
    let mut outs = vec![sel, or, ss_gate, ss_arith, w];
    for lb in 1..=6usize {
        // random access over 2, 4, …, 64 items
        let idx = push(Op::Input(r.below(1 << lb)));
        let items: Vec<usize> = (0..1usize << lb).map(|i| [a, b, c, x, y, z, w, v][i % 8]).collect();
        outs.push(push(Op::RandomAccess(idx, items)));
    }
    outs.push(push(Op::ExpU64(a, 65537)));
    outs.push(push(Op::ExpBits(b, s6, 10)));
    outs.push(push(Op::Hash(vec![a, b, c, x, y, z, w, v, n, q, sel, a, b])));
    for (t, tab) in [(0usize, &small_tab), (1, &big_tab), (1, &big_tab), (2, &row_tab)] {
        let ent = *r.pick(tab);
        let i = push(Op::Input(ent.0 as u64));
        outs.push(push(Op::Lookup(t, i)));
    }
    outs.push(push(Op::ExtMulNorm(a, b)));
    outs.push(push(Op::ExtArith(3, P - 1, [a, b, c, x, y, z], 1)));
    outs.push(push(Op::DivExt([a, b, c, x], 0)));
    outs.push(push(Op::ReduceBase([a, b], vec![c, x, y], 0)));                       // arithmetic path
    outs.push(push(Op::ReduceBase([a, b], (0..140).map(|i| [a, b, c, x, y, z, w][i % 7]).collect(), 1))); // ReducingGate, several rows
    outs.push(push(Op::ReduceExt([x, y], (0..70).map(|i| [[a, b], [c, x], [y, z]][i % 3]).collect(), 0))); // ReducingExtensionGate
    outs.push(push(Op::CopyGen(z)));
    outs.push(push(Op::LowHigh(s6, 3, 8)));
    outs.push(push(Op::SplitBase2(s6, 16)));
    outs.push(push(Op::ExpConstBase(7, s6, 30)));   // ExponentiationGate
    outs.push(push(Op::ExpConstBase(P - 2, s6, 6))); // arithmetic path
    for o in outs { push(Op::Public(o)); }
    Prog { ops, tables, skip_connect: false }
}

/// `verify_proof` of `inner` inside a new circuit (brings CosetInterpolationGate, PoseidonMdsGate,
/// ReducingExtensionGate, RandomAccessGate … and their generators); with `or_dummy` the
/// conditional variant, which also plants a `DummyProofGenerator`.
fn recursion_circuit(inner: &Data, inner_proof: &Pwpi, config: &CircuitConfig, or_dummy: bool) -> (Data, PartialWitness<F>) {
    let mut b = CircuitBuilder::<F, D>::new(config.clone());
    let mut pw = PartialWitness::new();
    let pt = b.add_virtual_proof_with_pis(&inner.common);
    let vt = b.add_virtual_verifier_data(inner.common.config.fri_config.cap_height);
    pw.set_proof_with_pis_target(&pt, inner_proof).unwrap();
    pw.set_verifier_data_target(&vt, &inner.verifier_only).unwrap();
    if or_dummy {
        let cond = b.add_virtual_bool_target_safe();
        pw.set_bool_target(cond, true).unwrap();
        b.conditionally_verify_proof_or_dummy::<C>(cond, &pt, &vt, &inner.common).unwrap();
    } else {
        b.verify_proof::<C>(&pt, &vt, &inner.common);
    }
    for &p in &pt.public_inputs { b.register_public_input(p); }
    (b.build::<C>(), pw)
}

/// `SplitGenerator` and `NonzeroTestGenerator` exist in the default registry but nothing in the
/// library constructs them; their `Default` values (all targets = virtual target 0) can be added
/// to a circuit. Such a circuit cannot be proved (the two generators contradict each other on
/// target 0), so it is only encoded, decoded and re-encoded.
fn default_generators_circuit() -> Data {
    let mut b = CircuitBuilder::<F, D>::new(CircuitConfig::standard_recursion_config());
    let t = b.add_virtual_target();
    b.register_public_input(t);
    b.add_simple_generator(plonky2::gadgets::split_join::SplitGenerator::default());
    b.add_simple_generator(plonky2::iop::generator::NonzeroTestGenerator::default());
    b.add_gate(NoopGate, vec![]);
    b.build::<C>()
}

// ------------------------------------------------------------------ the implementation-side oracle

fn debug_lists(d: &ProverOnlyCircuitData<F, C, D>, c: &CommonCircuitData<F, D>) -> String {
    format!("{:?} {:?}", c.gates, d.generators)
}

/// Everything that is checked for one circuit. `pis`: the expected public inputs if known.
#[allow(clippy::too_many_arguments)]
fn check_circuit(e: &mut Emitter, r: &mut Rng, cov: &mut Coverage, label: &str, data: Data, pw: Option<PartialWitness<F>>,
                 pis: Option<Vec<F>>, n_mutants: usize) {
    let fail = |e: &mut Emitter, what: String| e.oracle_failures.push(format!("[{label}] {what}"));
    for g in &data.common.gates { cov.gates.insert(type_name(&g.0.id())); }
    for g in &data.prover_only.generators { cov.generators.insert(generator_name(g)); }
    let zk = data.common.config.zero_knowledge;
    e.count(&format!("circuit: {label} (degree_bits {}, zk {zk})", data.common.degree_bits()));

    // ---- complete circuit
    e.stage(&format!("{label}: CircuitData::to_bytes / from_bytes"));
    let bytes = match data.to_bytes(&gs(), &gens()) {
        Ok(b) => b,
        Err(_) => { fail(e, "CircuitData::to_bytes failed on a circuit made of default gates and generators".into()); return; }
    };
    let restored: Data = match catch_unwind(AssertUnwindSafe(|| Data::from_bytes(&bytes, &gs(), &gens()))) {
        Ok(Ok(d)) => d,
        Ok(Err(_)) => { fail(e, format!("CircuitData::from_bytes rejects the {} bytes to_bytes produced", bytes.len())); return; }
        Err(_) => { fail(e, "CircuitData::from_bytes PANICS on the bytes to_bytes produced".into()); return; }
    };
    if restored != data { fail(e, "restored CircuitData != original".into()); }
    if debug_lists(&restored.prover_only, &restored.common) != debug_lists(&data.prover_only, &data.common) {
        fail(e, "restored gates / generators differ from the originals in their Debug output (a parameter was lost)".into());
    }
    match restored.to_bytes(&gs(), &gens()) {
        Ok(b2) => if b2 != bytes { fail(e, "re-encoding the restored CircuitData is not byte-identical".into()); },
        Err(_) => fail(e, "restored CircuitData cannot be encoded".into()),
    }
    if restored.verifier_only.circuit_digest != data.verifier_only.circuit_digest
        || restored.prover_only.circuit_digest != data.prover_only.circuit_digest
        || data.prover_only.circuit_digest != data.verifier_only.circuit_digest {
        fail(e, "circuit digests differ".into());
    }
    e.count("roundtrip: CircuitData");

    // ---- the parts
    e.stage(&format!("{label}: encodings of the parts"));
    match data.common.to_bytes(&gs()) {
        Ok(cb) => match CommonCircuitData::<F, D>::from_bytes(cb.clone(), &gs()) {
            Ok(c2) => {
                if c2 != data.common { fail(e, "restored CommonCircuitData != original".into()); }
                if c2.to_bytes(&gs()).ok() != Some(cb.clone()) { fail(e, "CommonCircuitData re-encoding differs".into()); }
                // the complete circuit's encoding starts with the common data
                if !bytes.starts_with(&cb) { fail(e, "CircuitData encoding does not start with the CommonCircuitData encoding".into()); }
                e.count("roundtrip: CommonCircuitData");
            }
            Err(_) => fail(e, "CommonCircuitData::from_bytes rejects a valid encoding".into()),
        },
        Err(_) => fail(e, "CommonCircuitData::to_bytes failed".into()),
    }
    match data.verifier_only.to_bytes() {
        Ok(vb) => match VerifierOnlyCircuitData::<C, D>::from_bytes(vb.clone()) {
            Ok(v2) => {
                if v2 != data.verifier_only { fail(e, "restored VerifierOnlyCircuitData != original".into()); }
                if v2.to_bytes().ok() != Some(vb.clone()) { fail(e, "VerifierOnlyCircuitData re-encoding differs".into()); }
                if !bytes.ends_with(&vb) { fail(e, "CircuitData encoding does not end with the VerifierOnlyCircuitData encoding".into()); }
                e.count("roundtrip: VerifierOnlyCircuitData");
            }
            Err(_) => fail(e, "VerifierOnlyCircuitData::from_bytes rejects a valid encoding".into()),
        },
        Err(_) => fail(e, "VerifierOnlyCircuitData::to_bytes failed".into()),
    }
    match data.prover_only.to_bytes(&gens(), &data.common) {
        Ok(pb) => match ProverOnlyCircuitData::<F, C, D>::from_bytes(&pb, &gens(), &data.common) {
            Ok(p2) => {
                if p2 != data.prover_only { fail(e, "restored ProverOnlyCircuitData != original".into()); }
                if p2.to_bytes(&gens(), &data.common).ok() != Some(pb) { fail(e, "ProverOnlyCircuitData re-encoding differs".into()); }
                e.count("roundtrip: ProverOnlyCircuitData");
            }
            Err(_) => fail(e, "ProverOnlyCircuitData::from_bytes rejects a valid encoding".into()),
        },
        Err(_) => fail(e, "ProverOnlyCircuitData::to_bytes failed".into()),
    }
    let vdata: VerifierCircuitData<F, C, D> = data.verifier_data();
    let vrestored: Option<VerifierCircuitData<F, C, D>> = match vdata.to_bytes(&gs()) {
        Ok(vb) => match VerifierCircuitData::<F, C, D>::from_bytes(vb.clone(), &gs()) {
            Ok(v2) => {
                if v2 != vdata { fail(e, "restored VerifierCircuitData != original".into()); }
                if v2.to_bytes(&gs()).ok() != Some(vb) { fail(e, "VerifierCircuitData re-encoding differs".into()); }
                e.count("roundtrip: VerifierCircuitData");
                Some(v2)
            }
            Err(_) => { fail(e, "VerifierCircuitData::from_bytes rejects a valid encoding".into()); None }
        },
        Err(_) => { fail(e, "VerifierCircuitData::to_bytes failed".into()); None }
    };

    let Some(pw) = pw else { return };

    // ---- witnesses and proofs, both ways
    e.stage(&format!("{label}: proving with the original and the restored circuit"));
    {
        // Witness generation is randomised on purpose in a few places (`RandomValueGenerator`: the unused
        // wires of the public-input row, and the blinding rows under zero-knowledge). Run the original
        // twice: wherever its two runs agree the wire is deterministic, and there the restored circuit's
        // witness must agree too.
        let gen = |d: &Data| generate_partial_witness(pw.clone(), &d.prover_only, &d.common).map(|w| w.full_witness());
        match (gen(&data), gen(&data), gen(&restored)) {
            (Ok(w1), Ok(w1b), Ok(w2)) => {
                let (mut det, mut bad) = (0usize, 0usize);
                for row in 0..data.common.degree() {
                    for c in 0..data.common.config.num_wires {
                        if w1.get_wire(row, c) == w1b.get_wire(row, c) {
                            det += 1;
                            if w1.get_wire(row, c) != w2.get_wire(row, c) { bad += 1; }
                        }
                    }
                }
                if bad > 0 { fail(e, format!("restored circuit generates a different witness ({bad} of {det} deterministic wires differ)")); }
                e.count("witness: identical on every deterministic wire");
            }
            _ => fail(e, "witness generation failed".into()),
        }
    }
    let p1 = catch_unwind(AssertUnwindSafe(|| data.prove(pw.clone())));
    let p2 = catch_unwind(AssertUnwindSafe(|| restored.prove(pw.clone())));
    let (p1, p2): (Pwpi, Pwpi) = match (p1, p2) {
        (Ok(Ok(a)), Ok(Ok(b))) => (a, b),
        (Ok(Ok(_)), _) => { fail(e, "the restored circuit fails to prove a witness the original proves".into()); return; }
        _ => { fail(e, "the original circuit fails to prove its witness".into()); return; }
    };
    if p1.public_inputs != p2.public_inputs { fail(e, "public inputs of the two proofs differ".into()); }
    if let Some(pis) = &pis { if &p1.public_inputs != pis { fail(e, "public inputs differ from the direct evaluation".into()); } }
    let ok = |x: anyhow::Result<()>| x.is_ok();
    if !ok(data.verify(p1.clone())) { fail(e, "original rejects its own proof".into()); }
    if !ok(data.verify(p2.clone())) { fail(e, "ORIGINAL verifier rejects the RESTORED prover's proof".into()); }
    if !ok(restored.verify(p1.clone())) { fail(e, "RESTORED verifier rejects the ORIGINAL prover's proof".into()); }
    if !ok(restored.verify(p2.clone())) { fail(e, "restored rejects its own proof".into()); }
    if let Some(v2) = &vrestored {
        if !ok(v2.verify(p1.clone())) || !ok(v2.verify(p2.clone())) { fail(e, "restored VerifierCircuitData rejects a valid proof".into()); }
    }
    e.count("cross-verification: 4 directions");

    // ---- proofs
    e.stage(&format!("{label}: proof encodings"));
    let common = &data.common;
    let digest = data.verifier_only.circuit_digest;
    for (who, p) in [("original", &p1), ("restored", &p2)] {
        let pb = p.to_bytes();
        let back = catch_unwind(AssertUnwindSafe(|| Pwpi::from_bytes(pb.clone(), common)));
        let good = match &back {
            Ok(Ok(q)) => { if q != p { fail(e, format!("decoded proof != {who} proof")); } q.to_bytes() == pb }
            _ => { fail(e, format!("from_bytes fails on the encoding of the {who} proof")); false }
        };
        if !good { fail(e, "proof re-encoding differs".into()); }
        e.case("proof: valid encoding", request("proof", common, &pb), || decode_full(false, &pb, common));
        e.case("proof: decoded value", value_request("proofeq", common, &pb, |t| t.proof_with_pis(p)),
            || eq_answer(Pwpi::from_bytes(pb.clone(), common).ok(), p));
        if who == "original" {
            for q in tampered(r, p) {
                e.case("proof: decoded value vs a different value", value_request("proofeq", common, &pb, |t| t.proof_with_pis(&q)),
                    || eq_answer(Pwpi::from_bytes(pb.clone(), common).ok(), &q));
            }
        }
        if who == "restored" { continue; }
        let cp: Cpwpi = match p.clone().compress(&digest, common) {
            Ok(c) => c,
            Err(er) => { fail(e, format!("compress failed: {er}")); continue; }
        };
        let cb = cp.to_bytes();
        match catch_unwind(AssertUnwindSafe(|| Cpwpi::from_bytes(cb.clone(), common))) {
            Ok(Ok(q)) => {
                if q != cp { fail(e, format!("decoded compressed proof != compressed {who} proof")); }
                if q.to_bytes() != cb { fail(e, "compressed proof re-encoding differs".into()); }
                // the decoded compressed proof is as good as the original one
                if !ok(restored.verify_compressed(q.clone())) { fail(e, "restored verifier rejects the decoded compressed proof".into()); }
                match q.decompress(&digest, common) {
                    Ok(d) => if &d != p { fail(e, "decompress(decode(encode(compress(p)))) != p".into()); },
                    Err(_) => fail(e, "decoded compressed proof does not decompress".into()),
                }
            }
            _ => fail(e, format!("from_bytes fails on the encoding of the compressed {who} proof")),
        }
        e.case("cproof: valid encoding", request("cproof", common, &cb), || decode_full(true, &cb, common));
        e.case("cproof: decoded value", value_request("cproofeq", common, &cb, |t| t.compressed_proof_with_pis(&cp)),
            || eq_answer(Cpwpi::from_bytes(cb.clone(), common).ok(), &cp));
        for q in tampered(r, p) {
            // (compressing a tampered proof only needs the query indices, which do not depend on these edits
            // except through the PoW witness / openings: take the original's indices)
            let idx = cp.proof.opening_proof.query_round_proofs.indices.clone();
            let Ok(cproof) = catch_unwind(AssertUnwindSafe(|| q.proof.clone().compress(&idx, &common.fri_params))) else { continue };
            let cq = Cpwpi { proof: cproof, public_inputs: q.public_inputs.clone() };
            if cq == cp { continue; }
            e.case("cproof: decoded value vs a different value", value_request("cproofeq", common, &cb, |t| t.compressed_proof_with_pis(&cq)),
                || eq_answer(Cpwpi::from_bytes(cb.clone(), common).ok(), &cq));
        }
        if who == "original" {
            let offs = merkle_count_offsets(common, p, None);
            if offs.iter().any(|&o| o >= pb.len() || pb[o] as usize > 64) { fail(e, "harness: computed Merkle count offsets are off (plain form)".into()); }
            mutants(e, r, common, &pb, false, n_mutants, p.public_inputs.len(), &offs);
            let coffs = merkle_count_offsets(common, p, Some(&cp));
            if coffs.iter().any(|&o| o >= cb.len() || cb[o] as usize > 64) { fail(e, "harness: computed Merkle count offsets are off (compressed form)".into()); }
            mutants(e, r, common, &cb, true, n_mutants, p.public_inputs.len(), &coffs);
        }
    }

    // ---- prover data (consumes the circuit)
    e.stage(&format!("{label}: ProverCircuitData"));
    let pdata: ProverCircuitData<F, C, D> = data.prover_data();
    match pdata.to_bytes(&gs(), &gens()) {
        Ok(pb) => match ProverCircuitData::<F, C, D>::from_bytes(&pb, &gs(), &gens()) {
            Ok(pd2) => {
                if pd2.to_bytes(&gs(), &gens()).ok() != Some(pb) { fail(e, "ProverCircuitData re-encoding differs".into()); }
                if pd2.common != pdata.common || pd2.prover_only != pdata.prover_only { fail(e, "restored ProverCircuitData != original".into()); }
                match pd2.prove(pw.clone()) {
                    Ok(p3) => {
                        if !ok(vdata.verify(p3.clone())) { fail(e, "original VerifierCircuitData rejects the restored ProverCircuitData's proof".into()); }
                        if p3.public_inputs != p1.public_inputs { fail(e, "restored ProverCircuitData's proof has different public inputs".into()); }
                    }
                    Err(_) => fail(e, "restored ProverCircuitData fails to prove".into()),
                }
                e.count("roundtrip: ProverCircuitData");
            }
            Err(_) => fail(e, "ProverCircuitData::from_bytes rejects a valid encoding".into()),
        },
        Err(_) => fail(e, "ProverCircuitData::to_bytes failed".into()),
    }
}

// ------------------------------------------------------------------ model requests

fn request(op: &str, common: &CommonCircuitData<F, D>, bytes: &[u8]) -> String {
    let mut t = Toks::default();
    t.common(common);
    t.n(bytes.len());
    t.0.extend(bytes.iter().map(|&b| b as u64));
    format!("c17 {op} {}", t.line())
}


/// byte offsets of the one-byte Merkle-proof sibling counts in an encoding, found by walking the
/// proof the way the writer does
fn merkle_count_offsets(common: &CommonCircuitData<F, D>, p: &Pwpi, cp: Option<&Cpwpi>) -> Vec<usize> {
    let cfg = &common.config;
    let cap = 32usize << cfg.fri_config.cap_height;
    let openings = 16 * (common.num_constants + cfg.num_routed_wires + cfg.num_wires + 2 * cfg.num_challenges
        + 2 * cfg.num_challenges * common.num_lookup_polys + cfg.num_challenges * (common.num_partial_products + common.quotient_degree_factor));
    let mut at = 3 * cap + openings + cap * common.fri_params.reduction_arity_bits.len();
    let mut out = vec![];
    let initial = |at: &mut usize, out: &mut Vec<usize>, ev: &[(Vec<F>, plonky2::hash::merkle_proofs::MerkleProof<F, H>)]| {
        for (leaf, mp) in ev { *at += 8 * leaf.len(); out.push(*at); *at += 1 + 32 * mp.siblings.len(); }
    };
    match cp {
        None => for q in &p.proof.opening_proof.query_round_proofs {
            initial(&mut at, &mut out, &q.initial_trees_proof.evals_proofs);
            for s in &q.steps { at += 16 * s.evals.len(); out.push(at); at += 1 + 32 * s.merkle_proof.siblings.len(); }
        },
        Some(cp) => {
            let r = &cp.proof.opening_proof.query_round_proofs;
            at += 4 * r.indices.len();
            let mut keys: Vec<&usize> = r.initial_trees_proofs.keys().collect();
            keys.sort();
            for k in keys { initial(&mut at, &mut out, &r.initial_trees_proofs[k].evals_proofs); }
            for m in &r.steps {
                let mut ks: Vec<&usize> = m.keys().collect();
                ks.sort();
                for k in ks { let s = &m[k]; at += 16 * s.evals.len(); out.push(at); at += 1 + 32 * s.merkle_proof.siblings.len(); }
            }
        }
    }
    out
}


/// `c17 proofeq|cproofeq <common> <n> <bytes> <structured dump of a value>`: does decoding the bytes
/// give exactly that value? Ties the model's decoded STRUCTURE (which list is which) to the real one;
/// the dump of a deliberately different value must be answered `NEQ`.
fn value_request(op: &str, common: &CommonCircuitData<F, D>, bytes: &[u8], dump: impl FnOnce(&mut Toks)) -> String {
    let mut t = Toks::default();
    t.common(common);
    t.n(bytes.len());
    t.0.extend(bytes.iter().map(|&b| b as u64));
    dump(&mut t);
    format!("c17 {op} {}", t.line())
}

fn eq_answer<T: PartialEq>(decoded: Option<T>, v: &T) -> String {
    match decoded { None => "ERR".into(), Some(d) => if &d == v { "EQ".into() } else { "NEQ".into() } }
}

/// variants of a proof that differ from it in one place (or in which list holds what)
fn tampered(r: &mut Rng, p: &Pwpi) -> Vec<Pwpi> {
    use plonky2::field::types::Field;
    let mut out = vec![];
    let mut q = p.clone();
    std::mem::swap(&mut q.proof.openings.plonk_zs, &mut q.proof.openings.plonk_zs_next);
    out.push(q);
    let mut q = p.clone();
    std::mem::swap(&mut q.proof.openings.partial_products, &mut q.proof.openings.quotient_polys);
    out.push(q);
    let mut q = p.clone();
    std::mem::swap(&mut q.proof.wires_cap, &mut q.proof.quotient_polys_cap);
    out.push(q);
    let mut q = p.clone();
    let k = r.below(q.proof.openings.wires.len() as u64) as usize;
    q.proof.openings.wires[k] += FE::ONE;
    out.push(q);
    let mut q = p.clone();
    q.proof.opening_proof.pow_witness += F::ONE;
    out.push(q);
    let mut q = p.clone();
    if let Some(x) = q.public_inputs.last_mut() { *x += F::ONE; }
    out.push(q);
    let mut q = p.clone();
    let nq = q.proof.opening_proof.query_round_proofs.len();
    if nq >= 2 { q.proof.opening_proof.query_round_proofs.swap(0, nq - 1); }
    out.push(q);
    let mut q = p.clone();
    let qr = &mut q.proof.opening_proof.query_round_proofs[0].initial_trees_proof.evals_proofs;
    let (a, b) = (qr[1].1.clone(), qr[2].1.clone());
    qr[1].1 = b;
    qr[2].1 = a;
    out.push(q);
    out.retain(|q| q != p);
    out
}

/// decode through the `Read` trait on a `Buffer` (this is all `from_bytes` does) to learn how many
/// bytes were consumed; `SAME` iff the decoded value re-encodes to exactly the consumed prefix
fn decode_full(compressed: bool, b: &[u8], common: &CommonCircuitData<F, D>) -> String {
    let mut buf = Buffer::new(b);
    let re: Option<Vec<u8>> = if compressed {
        buf.read_compressed_proof_with_public_inputs::<F, C, D>(common).ok().map(|p| p.to_bytes())
    } else {
        buf.read_proof_with_public_inputs::<F, C, D>(common).ok().map(|p| p.to_bytes())
    };
    match re {
        None => "ERR".into(),
        Some(re) => format!("OK {} {}", buf.pos(), if re[..] == b[..buf.pos()] { "SAME" } else { "DIFF" }),
    }
}

/// the public entry points
fn decode_class(compressed: bool, b: &[u8], common: &CommonCircuitData<F, D>) -> String {
    let ok = if compressed { Cpwpi::from_bytes(b.to_vec(), common).is_ok() } else { Pwpi::from_bytes(b.to_vec(), common).is_ok() };
    if ok { "OK".into() } else { "ERR".into() }
}

fn mutants(e: &mut Emitter, r: &mut Rng, common: &CommonCircuitData<F, D>, b0: &[u8], compressed: bool, budget: usize, n_pis: usize, count_bytes: &[usize]) {
    let n = b0.len();
    let form = if compressed { "cproof" } else { "proof" };
    let mut k = 0usize;
    let mut send = |e: &mut Emitter, what: &str, b: Vec<u8>| {
        // two thirds of the mutants ask for the full answer, the rest for the class through from_bytes
        k += 1;
        let class_only = k % 3 == 0;
        let op = if class_only { format!("{form}class") } else { form.to_string() };
        let mut panicked = false;
        e.case(&format!("{form} mutant: {what}"), request(&op, common, &b), || {
            let res = catch_unwind(AssertUnwindSafe(|| if class_only { decode_class(compressed, &b, common) } else { decode_full(compressed, &b, common) }));
            match res { Ok(s) => s, Err(_) => { panicked = true; "PANIC".into() } }
        });
        if panicked { e.oracle_failures.push(format!("{form} decoder PANICS: {what}, {} bytes", b.len())); }
    };
    // truncations: the first cut points, the last ones, and a spread in between
    let per = budget / 6 + 1;
    let mut cuts: Vec<usize> = (0..per.min(n)).collect();
    cuts.extend((1..=per.min(n)).map(|i| n - i));
    cuts.extend((0..per).map(|_| r.below(n as u64) as usize));
    for c in cuts { send(e, "truncation", b0[..c].to_vec()); }
    // single bit flips
    for _ in 0..per {
        let mut b = b0.to_vec();
        let i = r.below(n as u64) as usize;
        b[i] ^= 1 << r.below(8);
        send(e, "bit flip", b);
    }
    // 8-byte windows overwritten: random offsets, the start (caps), the tail (public inputs and, in the
    // plain form, their count), and in the compressed form the u32 query indices
    let mut offs: Vec<usize> = (0..per / 2 + 1).map(|_| r.below((n - 8) as u64) as usize).collect();
    offs.push(0);
    offs.push(n - 8);
    if !compressed && n >= 8 * (n_pis + 1) { offs.push(n - 8 * (n_pis + 1)); } // the public-input count
    if compressed {
        // the indices follow the caps, the openings and the commit-phase caps
        let cfg = &common.config;
        let cap = 32usize << cfg.fri_config.cap_height;
        let openings = 16 * (common.num_constants + cfg.num_routed_wires + cfg.num_wires + 2 * cfg.num_challenges
            + 2 * cfg.num_challenges * common.num_lookup_polys + cfg.num_challenges * (common.num_partial_products + common.quotient_degree_factor));
        let at = 3 * cap + openings + cap * common.fri_params.reduction_arity_bits.len();
        for j in 0..3 { if at + 4 * j + 8 <= n { offs.push(at + 4 * j); } }
    }
    for off in offs {
        for val in [0u64, 1, 1 << 32, 1 << 60, u64::MAX] {
            let mut b = b0.to_vec();
            b[off..off + 8].copy_from_slice(&val.to_le_bytes());
            send(e, "8-byte window overwritten", b);
        }
    }
    if compressed {
        // make two query indices equal / reorder them: the number of initial-tree proofs the reader
        // expects changes with the number of DISTINCT indices
        let cfg = &common.config;
        let cap = 32usize << cfg.fri_config.cap_height;
        let openings = 16 * (common.num_constants + cfg.num_routed_wires + cfg.num_wires + 2 * cfg.num_challenges
            + 2 * cfg.num_challenges * common.num_lookup_polys + cfg.num_challenges * (common.num_partial_products + common.quotient_degree_factor));
        let at = 3 * cap + openings + cap * common.fri_params.reduction_arity_bits.len();
        let q = cfg.fri_config.num_query_rounds;
        if q >= 2 && at + 4 * q <= n {
            let mut b = b0.to_vec();
            let (x, y) = (r.below(q as u64) as usize, r.below(q as u64) as usize);
            let src: [u8; 4] = b[at + 4 * x..at + 4 * x + 4].try_into().unwrap();
            b[at + 4 * y..at + 4 * y + 4].copy_from_slice(&src);
            send(e, "query index duplicated", b);
            let mut b = b0.to_vec();
            for j in 0..4 { b.swap(at + j, at + 4 * (q - 1) + j); }
            send(e, "query indices swapped", b);
        }
    }
    // the input-driven lengths: every Merkle proof starts with a ONE-BYTE sibling count; the plain form
    // carries an 8-byte public-input count. Moving a count by one changes how everything after it is cut up.
    let chosen: Vec<usize> = count_bytes.iter().enumerate()
        .filter(|(i, _)| *i == 0 || r.below(count_bytes.len() as u64) < per as u64).map(|(_, &o)| o).collect();
    for at in chosen {
        for delta in [1u8, 255, 128] {
            let mut b = b0.to_vec();
            b[at] = b[at].wrapping_add(delta);
            send(e, "merkle-proof count byte changed", b);
        }
        let mut b = b0.to_vec();
        b[at] = if r.coin() { 0 } else { 255 };
        send(e, "merkle-proof count byte changed", b);
    }
    if !compressed && n >= 8 * (n_pis + 1) {
        let at = n - 8 * (n_pis + 1);
        for v in [n_pis as u64 + 1, (n_pis as u64).wrapping_sub(1), n_pis as u64 + (1 << 56), 2 * n_pis as u64] {
            let mut b = b0.to_vec();
            b[at..at + 8].copy_from_slice(&v.to_le_bytes());
            send(e, "public-input count changed", b);
        }
    }
    // bytes appended (the plain form ignores them; the compressed form reads them as public inputs)
    for extra in [1usize, 7, 8, 9, 16] {
        let mut b = b0.to_vec();
        b.extend((0..extra).map(|_| r.below(256) as u8));
        send(e, "bytes appended", b);
    }
    // random strings
    for len in [0usize, 1, 7, 8, 9, 100, 1000, n] {
        send(e, "random bytes", (0..len).map(|_| r.below(256) as u8).collect());
    }
}


// ------------------------------------------------------------------ robustness of the circuit decoders (observation only)

/// Run `f` in a forked child so that an allocation failure (`handle_alloc_error` aborts the
/// process; it is not a panic and cannot be caught) is observed instead of killing the harness.
fn forked(f: impl FnOnce() -> bool) -> String {
    unsafe {
        let pid = libc::fork();
        if pid < 0 { return "FORK-FAILED".into(); }
        if pid == 0 {
            libc::alarm(20);
            let null = libc::open(b"/dev/null\0".as_ptr() as *const libc::c_char, libc::O_WRONLY);
            if null >= 0 { libc::dup2(null, 2); }
            let code = match catch_unwind(AssertUnwindSafe(f)) { Ok(true) => 0, Ok(false) => 1, Err(_) => 2 };
            libc::_exit(code);
        }
        let mut status = 0;
        libc::waitpid(pid, &mut status, 0);
        if libc::WIFEXITED(status) {
            match libc::WEXITSTATUS(status) { 0 => "OK".into(), 1 => "ERR".into(), 2 => "PANIC".into(), c => format!("EXIT {c}") }
        } else if libc::WIFSIGNALED(status) {
            match libc::WTERMSIG(status) { libc::SIGABRT => "ABORT".into(), libc::SIGALRM => "TIMEOUT".into(), sg => format!("SIGNAL {sg}") }
        } else { "UNKNOWN".into() }
    }
}

/// C17 is about valid encodings; what the circuit decoders do with damaged ones belongs to C18. It is
/// still recorded here (histogram only, never an oracle failure) because the round-trip model's
/// "every input-driven length is bounded by the remaining bytes" does NOT hold for the circuit-data
/// readers: `read_usize_vec`, `read_lut`, `read_selectors_info`, `read_common_circuit_data`, … call
/// `Vec::with_capacity(len)` with a length taken from the input before reading a single element.
fn circuit_decoder_robustness(e: &mut Emitter, r: &mut Rng, data: &Data, thorough: bool) {
    let Ok(cb) = data.common.to_bytes(&gs()) else { return };
    let Ok(vb) = data.verifier_data().to_bytes(&gs()) else { return };
    let Ok(fb) = data.to_bytes(&gs(), &gens()) else { return };
    let vals: [(u64, &str); 5] = [(u64::MAX, "u64::MAX"), (1 << 60, "2^60"), (1 << 40, "2^40"), (1 << 32, "2^32"), (0, "0")];
    let mut seen: BTreeSet<String> = BTreeSet::new();
    let mut run = |e: &mut Emitter, decoder: &str, what: String, b: Vec<u8>| {
        let out = match decoder {
            "CommonCircuitData" => forked(|| CommonCircuitData::<F, D>::from_bytes(b.clone(), &gs()).is_ok()),
            "VerifierCircuitData" => forked(|| VerifierCircuitData::<F, C, D>::from_bytes(b.clone(), &gs()).is_ok()),
            _ => forked(|| Data::from_bytes(&b, &gs(), &gens()).is_ok()),
        };
        e.count(&format!("damaged circuit bytes: {decoder}::from_bytes -> {out}"));
        if out != "OK" && out != "ERR" && seen.insert(format!("{decoder} {out}")) {
            e.count(&format!("observation (C18 territory): {decoder}::from_bytes {out} on the kitchen-sink circuit's {} bytes with {what}", b.len()));
        }
    };
    // the header of the common data holds all its length fields: overwrite every window there
    let step = if thorough { 2 } else { 8 };
    for off in (0..cb.len().min(300).saturating_sub(8)).step_by(step) {
        for (v, name) in vals {
            let mut b = cb.clone();
            b[off..off + 8].copy_from_slice(&v.to_le_bytes());
            run(e, "CommonCircuitData", format!("bytes {off}..{} := {name}", off + 8), b);
        }
    }
    for (decoder, base) in [("CommonCircuitData", &cb), ("VerifierCircuitData", &vb), ("CircuitData", &fb)] {
        let n = base.len();
        for _ in 0..(if thorough { 60 } else { 15 }) {
            let off = r.below((n - 8) as u64) as usize;
            let (v, name) = *r.pick(&vals);
            let mut b = base.clone();
            b[off..off + 8].copy_from_slice(&v.to_le_bytes());
            run(e, decoder, format!("bytes {off}..{} := {name}", off + 8), b);
            let cut = r.below(n as u64) as usize;
            run(e, decoder, format!("truncation to {cut} bytes"), base[..cut].to_vec());
            let mut b = base.clone();
            let i = r.below(n as u64) as usize;
            b[i] ^= 1 << r.below(8);
            run(e, decoder, format!("bit flip in byte {i}"), b);
        }
    }
}

// ------------------------------------------------------------------ driver

pub fn emit(e: &mut Emitter, seed: u64, thorough: bool) {
    let mut r = Rng::new(seed ^ 0x17);
    let mut cov = Coverage::default();
    let n_mut = if thorough { 150 } else { 60 };

    // (1) the kitchen sink, without and with blinding
    for zk in [false, true] {
        let prog = kitchen_sink(&mut r);
        let mut config = CircuitConfig::standard_recursion_config();
        config.security_bits = 8;
        config.fri_config.num_query_rounds = r.range(2, 4) as usize;
        // (conjectured security rate_bits * queries + pow bits must reach security_bits)
        config.fri_config.proof_of_work_bits = r.range(2, 6) as u32;
        config.zero_knowledge = zk;
        e.stage("building the kitchen-sink circuit");
        let (data, pw) = prog.build(config);
        let pis = prog.eval().1;
        if !zk {
            e.stage("damaged circuit bytes in forked children");
            circuit_decoder_robustness(e, &mut r, &data, thorough);
        }
        check_circuit(e, &mut r, &mut cov, if zk { "kitchen-sink zk" } else { "kitchen-sink" }, data, Some(pw), Some(pis), n_mut);
    }

    // (2) generated programs under generated configurations
    let n_progs = if thorough { 24 } else { 3 };
    let (mut made, mut tries) = (0, 0);
    while made < n_progs && tries < 8 * n_progs {
        tries += 1;
        let features = (r.below(8) | 16) & !8;
        let nops = r.range(10, 90) as usize;
        let prog = gen_prog(&mut r, nops, features);
        let config = gen_config(&mut r, true);
        e.stage(&format!("building a generated circuit ({} ops, config {:?})", prog.ops.len(), config));
        let built = catch_unwind(AssertUnwindSafe(|| prog.build(config.clone())));
        let Ok((data, pw)) = built else { e.count("inadmissible-config-or-build-panic"); continue; };
        if data.common.fri_params.total_arities() > data.common.degree_bits() { e.count("inadmissible-fixed-schedule"); continue; }
        made += 1;
        let pis = prog.eval().1;
        check_circuit(e, &mut r, &mut cov, &format!("generated #{made}"), data, Some(pw), Some(pis), if thorough { 60 } else { 30 });
    }

    // (3) recursion: plain and conditional-with-dummy
    for or_dummy in [false, true] {
        let mut config = CircuitConfig::standard_recursion_config();
        config.security_bits = 8;
        config.fri_config.num_query_rounds = r.range(2, 3) as usize;
        config.fri_config.proof_of_work_bits = 2;
        e.stage("building+proving the inner circuit of a recursion");
        // (a generated program may declare a lookup table it never uses, which the builder rejects)
        let mut inner = None;
        for _ in 0..20 {
            // enough rows for at least one FRI reduction layer: only then does the recursive verifier
            // interpolate (CosetInterpolationGate)
            let prog = gen_prog(&mut r, 260, if or_dummy { 6 } else { 7 });
            match catch_unwind(AssertUnwindSafe(|| prog.build(config.clone()))) {
                Ok((d, w)) => {
                    if d.common.fri_params.reduction_arity_bits.is_empty() { e.count("inner circuit too small for a reduction layer"); continue; }
                    inner = Some((d, w));
                    break;
                }
                Err(_) => e.count("inadmissible-config-or-build-panic"),
            }
        }
        let Some((inner, ipw)) = inner else { e.oracle_failures.push("no inner circuit could be built".into()); continue; };
        let Ok(iproof) = inner.prove(ipw) else { e.oracle_failures.push("inner circuit failed to prove".into()); continue; };
        e.stage(&format!("building the recursion circuit (or_dummy {or_dummy})"));
        let (outer, opw) = recursion_circuit(&inner, &iproof, &config, or_dummy);
        let pis = iproof.public_inputs.clone();
        check_circuit(e, &mut r, &mut cov, if or_dummy { "recursion: conditionally_verify_proof_or_dummy" } else { "recursion: verify_proof" },
            outer, Some(opw), Some(pis), if thorough { 40 } else { 12 });
    }

    // (4) generators reachable only through `Default`: encode / decode / re-encode
    e.stage("default-generators circuit");
    check_circuit(e, &mut r, &mut cov, "default generators (serialization only)", default_generators_circuit(), None, None, 0);

    // (5) a gate outside the default registry must give a clean error, not a panic or a bad encoding
    for _ in 0..(if thorough { 4 } else { 1 }) {
        let mut prog = gen_prog(&mut r, 20, 16);
        let s = prog.ops.len();
        prog.ops.push(Op::Input(r.below(1 << 16)));
        prog.ops.push(Op::SplitBase4(s, 8));
        prog.ops.push(Op::Public(s + 1));
        e.stage("base-4 circuit: to_bytes must fail cleanly");
        let (data, _) = prog.build(CircuitConfig::standard_recursion_config());
        match catch_unwind(AssertUnwindSafe(|| (data.to_bytes(&gs(), &gens()).is_ok(), data.common.to_bytes(&gs()).is_ok()))) {
            Ok((false, false)) => e.count("not encodable by the default registry: BaseSumGate<4> (clean Err)"),
            Ok(_) => e.oracle_failures.push("a circuit with BaseSumGate<4> was encoded by the default serializers".into()),
            Err(_) => e.oracle_failures.push("to_bytes PANICS on a circuit with BaseSumGate<4>".into()),
        }
    }

    // coverage of the two default registries
    for g in ALL_GATES { if cov.gates.contains(g) { e.count(&format!("gate covered: {g}")); } else { e.oracle_failures.push(format!("coverage: gate type {g} was not exercised")); } }
    for g in ALL_GENERATORS { if cov.generators.contains(g) { e.count(&format!("generator covered: {g}")); } else { e.oracle_failures.push(format!("coverage: generator type {g} was not exercised")); } }
    for g in cov.gates.iter().filter(|g| !ALL_GATES.contains(&g.as_str())) { e.count(&format!("gate outside the list: {g}")); }
    for g in cov.generators.iter().filter(|g| !ALL_GENERATORS.contains(&g.as_str())) { e.count(&format!("generator outside the list: {g}")); }
}
