//! C14 finding 1: `MULTIPLICATIVE_GROUP_GENERATOR` of the quadratic and quartic Goldilocks
//! extensions does not generate the multiplicative group.
//!
//! Run: cargo test --offline --release -p plonky2_field --test c14_finding1_generators -- --nocapture
//!
//! Factorizations used (each is re-checked below by trial division of p^D - 1):
//!   p-1   = 2^32 * 3 * 5 * 17 * 257 * 65537
//!   p+1   = 2 * 7 * 179 * 7361031152998637
//!   p^2+1 = 2 * 13 * 37 * 113 * 1429 * 274177 * 118750098349 * 67280421310721
use num::bigint::BigUint;
use plonky2_field::extension::quadratic::QuadraticExtension;
use plonky2_field::extension::quartic::QuarticExtension;
use plonky2_field::goldilocks_field::GoldilocksField as F;
use plonky2_field::types::{Field, Field64};

const PM1: [u64; 6] = [2, 3, 5, 17, 257, 65537];
const PP1: [u64; 3] = [7, 179, 7361031152998637];
const P2P1: [u64; 7] = [13, 37, 113, 1429, 274177, 118750098349, 67280421310721];

/// Returns the primes q | (|E|-1) for which g^((|E|-1)/q) == 1 (empty iff g is a generator).
fn missing_primes<E: Field>(g: E, primes: &[u64]) -> Vec<u64> {
    let n = E::order() - 1u32;
    let mut m = n.clone();
    for &q in primes {
        assert!((&m % q) == BigUint::from(0u32), "{q} does not divide |E|-1");
        while (&m % q) == BigUint::from(0u32) {
            m /= q;
        }
    }
    assert_eq!(m, BigUint::from(1u32), "factorization of |E|-1 incomplete");
    assert_eq!(g.exp_biguint(&n), E::ONE);
    primes
        .iter()
        .copied()
        .filter(|&q| g.exp_biguint(&(&n / q)) == E::ONE)
        .collect()
}

#[test]
fn base_field_generator_is_a_generator() {
    assert!(missing_primes::<F>(F::MULTIPLICATIVE_GROUP_GENERATOR, &PM1).is_empty());
}

#[test]
fn quadratic_generator_is_not_a_generator() {
    type E = QuadraticExtension<F>;
    let g = E::MULTIPLICATIVE_GROUP_GENERATOR;
    println!("quadratic MULTIPLICATIVE_GROUP_GENERATOR = {g}");
    // No factorization needed: g = c*X with X^2 = 7, so g^2 = 7c^2 lies in the base field and
    // g^(2(p-1)) = 1, although the group has order p^2 - 1 = (p-1)(p+1).
    let small = BigUint::from(F::ORDER - 1) * 2u32;
    println!("g^(2(p-1)) = {}", g.exp_biguint(&small));
    let mut primes = PM1.to_vec();
    primes.extend(PP1);
    let missing = missing_primes::<E>(g, &primes);
    println!("primes q | p^2-1 with g^((p^2-1)/q) == 1: {missing:?}");
    assert_eq!(g.exp_biguint(&small), E::ONE, "order of g divides 2(p-1) << p^2-1");
    assert!(
        missing.is_empty(),
        "Field::MULTIPLICATIVE_GROUP_GENERATOR is documented as a generator of the entire \
         multiplicative group, but its order misses the primes {missing:?}"
    );
}

#[test]
fn quartic_generator_is_not_a_generator() {
    type E = QuarticExtension<F>;
    let g = E::MULTIPLICATIVE_GROUP_GENERATOR;
    println!("quartic MULTIPLICATIVE_GROUP_GENERATOR = {g}");
    // g = c*X with X^4 = 7, so g^4 = 7c^4 lies in the base field and g^(4(p-1)) = 1.
    let small = BigUint::from(F::ORDER - 1) * 4u32;
    println!("g^(4(p-1)) = {}", g.exp_biguint(&small));
    let mut primes = PM1.to_vec();
    primes.extend(PP1);
    primes.extend(P2P1);
    let missing = missing_primes::<E>(g, &primes);
    println!("primes q | p^4-1 with g^((p^4-1)/q) == 1: {missing:?}");
    assert_eq!(g.exp_biguint(&small), E::ONE, "order of g divides 4(p-1) << p^4-1");
    assert!(
        missing.is_empty(),
        "Field::MULTIPLICATIVE_GROUP_GENERATOR is documented as a generator of the entire \
         multiplicative group, but its order misses the primes {missing:?}"
    );
}

/// A repair candidate: search x = a + X for the smallest a such that x is a true generator.
#[test]
fn repair_candidates_exist() {
    {
        type E = QuadraticExtension<F>;
        let mut primes = PM1.to_vec();
        primes.extend(PP1);
        for a in 0u64..200 {
            let x = E::from(F(a)) + QuadraticExtension([F(0), F(1)]);
            if missing_primes::<E>(x, &primes).is_empty() {
                println!("quadratic: {a} + X is a generator of the full group");
                break;
            }
        }
    }
    {
        type E = QuarticExtension<F>;
        let mut primes = PM1.to_vec();
        primes.extend(PP1);
        primes.extend(P2P1);
        for a in 0u64..200 {
            let x = E::from(F(a)) + QuarticExtension([F(0), F(1), F(0), F(0)]);
            if missing_primes::<E>(x, &primes).is_empty() {
                println!("quartic: {a} + X is a generator of the full group");
                break;
            }
        }
    }
}
