//! Partial check (cofactor of p^5-1 not fully factored): quintic generator has the q-part for all
//! known primes q of p^5-1.
use num::bigint::BigUint;
use plonky2_field::extension::quintic::QuinticExtension;
use plonky2_field::goldilocks_field::GoldilocksField as F;
use plonky2_field::types::Field;
#[test]
fn quintic_partial() {
    type E = QuinticExtension<F>;
    let n = E::order() - 1u32;
    let g = E::MULTIPLICATIVE_GROUP_GENERATOR;
    assert_eq!(g.exp_biguint(&n), E::ONE);
    for q in [2u64, 3, 5, 17, 257, 65537, 45971, 255006435240067831] {
        assert!((&n % q) == BigUint::from(0u32));
        assert_ne!(g.exp_biguint(&(&n / q)), E::ONE, "missing {q}");
    }
    // not confined to a subfield-coset subgroup: g^(5(p-1)) != 1
    assert_ne!(g.exp_biguint(&(BigUint::from(0xFFFF_FFFF_0000_0000u64) * 5u32)), E::ONE);
}
