//! C14 audit: differential test of Goldilocks scalar / packed / extension arithmetic against a
//! u128 / schoolbook reference, concentrated on boundary and non-canonical operands.
#![allow(clippy::needless_range_loop)]

use num::bigint::BigUint;
use plonky2_field::extension::quadratic::QuadraticExtension;
use plonky2_field::extension::quartic::QuarticExtension;
use plonky2_field::extension::quintic::QuinticExtension;
use plonky2_field::extension::{Extendable, FieldExtension, Frobenius};
use plonky2_field::goldilocks_field::GoldilocksField as F;
use plonky2_field::ops::Square;
use plonky2_field::packable::Packable;
use plonky2_field::packed::PackedField;
use plonky2_field::types::{Field, Field64, PrimeField64};

const P: u64 = 0xFFFF_FFFF_0000_0001;
const PP: u128 = P as u128;

fn r(x: u128) -> u64 {
    (x % PP) as u64
}
fn radd(a: u64, b: u64) -> u64 {
    r(a as u128 % PP + b as u128 % PP)
}
fn rsub(a: u64, b: u64) -> u64 {
    r(a as u128 % PP + PP - b as u128 % PP)
}
fn rmul(a: u64, b: u64) -> u64 {
    r((a as u128 % PP) * (b as u128 % PP))
}
fn rpow(a: u64, mut e: u128) -> u64 {
    let mut base = a % P;
    let mut acc = 1u64;
    while e > 0 {
        if e & 1 == 1 {
            acc = rmul(acc, base);
        }
        base = rmul(base, base);
        e >>= 1;
    }
    acc
}

struct Rng(u64);
impl Rng {
    fn next(&mut self) -> u64 {
        // splitmix64
        self.0 = self.0.wrapping_add(0x9E3779B97F4A7C15);
        let mut z = self.0;
        z = (z ^ (z >> 30)).wrapping_mul(0xBF58476D1CE4E5B9);
        z = (z ^ (z >> 27)).wrapping_mul(0x94D049BB133111EB);
        z ^ (z >> 31)
    }
}

fn boundary() -> Vec<u64> {
    let centers: [u128; 14] = [
        0,
        1 << 31,
        (1 << 32) - 1,
        1 << 32,
        1 << 33,
        1 << 63,
        PP - (1 << 32),
        PP,
        1 << 64,
        (1u128 << 64) - (1 << 32),
        (1u128 << 64) - (1 << 33),
        PP / 2,
        (1 << 48),
        0xFFFF_FFFE_0000_0001, // (2^32-1)^2
    ];
    let mut v = vec![];
    for c in centers {
        for d in -4i128..=4 {
            let x = c as i128 + d;
            if x >= 0 && x < (1i128 << 64) {
                v.push(x as u64);
            }
        }
    }
    // values with all-ones / all-zero halves
    for hi in [0u64, 1, 0x7fff_ffff, 0x8000_0000, 0xffff_fffe, 0xffff_ffff] {
        for lo in [0u64, 1, 0x7fff_ffff, 0x8000_0000, 0xffff_fffe, 0xffff_ffff] {
            v.push(hi << 32 | lo);
        }
    }
    let mut rng = Rng(12345);
    for _ in 0..40 {
        v.push(rng.next());
    }
    for _ in 0..20 {
        v.push(rng.next() | 0xFFFF_FFFF_0000_0000); // non-canonical-ish
    }
    v.sort();
    v.dedup();
    v
}

#[test]
fn scalar_binary_ops() {
    let b = boundary();
    println!("boundary set size {}", b.len());
    let mut bad = 0usize;
    for &x in &b {
        for &y in &b {
            let (fx, fy) = (F(x), F(y));
            let chk = |name: &str, got: F, exp: u64| {
                if got.to_canonical_u64() != exp {
                    println!("MISMATCH {name} x={x:#x} y={y:#x} got={:#x} exp={exp:#x}", got.0);
                    1
                } else {
                    0
                }
            };
            bad += chk("add", fx + fy, radd(x, y));
            bad += chk("sub", fx - fy, rsub(x, y));
            bad += chk("mul", fx * fy, rmul(x, y));
            let mut t = fx;
            t += fy;
            bad += chk("add_assign", t, radd(x, y));
            let mut t = fx;
            t -= fy;
            bad += chk("sub_assign", t, rsub(x, y));
            let mut t = fx;
            t *= fy;
            bad += chk("mul_assign", t, rmul(x, y));
            if y < P {
                bad += chk("add_canonical_u64", unsafe { fx.add_canonical_u64(y) }, radd(x, y));
                bad += chk("sub_canonical_u64", unsafe { fx.sub_canonical_u64(y) }, rsub(x, y));
            }
            // x + y*z with z from a few
            for &z in &[0u64, 1, P - 1, P, u64::MAX, 0xFFFF_FFFF, 1 << 32] {
                bad += chk(
                    "mac",
                    fx.multiply_accumulate(fy, F(z)),
                    radd(x, rmul(y, z)),
                );
            }
            // equality semantics
            if (fx == fy) != (x % P == y % P) {
                println!("MISMATCH eq x={x:#x} y={y:#x}");
                bad += 1;
            }
        }
        let fx = F(x);
        let c = |name: &str, got: F, exp: u64| {
            if got.to_canonical_u64() != exp {
                println!("MISMATCH {name} x={x:#x} got={:#x} exp={exp:#x}", got.0);
                1
            } else {
                0
            }
        };
        bad += c("neg", -fx, rsub(0, x));
        bad += c("square", fx.square(), rmul(x, x));
        bad += c("double", fx.double(), radd(x, x));
        bad += c("triple", fx.triple(), rmul(x, 3));
        bad += c("cube", fx.cube(), rmul(x, rmul(x, x)));
        bad += c("add_one", fx.add_one(), radd(x, 1));
        bad += c("sub_one", fx.sub_one(), rsub(x, 1));
        bad += c("to_canonical", fx.to_canonical(), x % P);
        bad += c("from_noncanonical_u64", F::from_noncanonical_u64(x), x % P);
        bad += c("from_noncanonical_i64", F::from_noncanonical_i64(x as i64), {
            let n = x as i64;
            if n < 0 {
                r((PP as i128 + (n as i128 % PP as i128)) as u128)
            } else {
                r(n as u128)
            }
        });
        bad += c(
            "from_noncanonical_biguint",
            F::from_noncanonical_biguint(BigUint::from(x)),
            x % P,
        );
        if x % P == 0 {
            if fx.try_inverse().is_some() {
                println!("MISMATCH try_inverse(zero repr {x:#x}) is Some");
                bad += 1;
            }
            if !fx.is_zero() {
                bad += 1;
                println!("MISMATCH is_zero {x:#x}");
            }
        } else {
            let inv = fx.inverse();
            bad += c("inverse", inv, rpow(x, PP - 2));
            bad += c("x*inv", inv * fx, 1);
            bad += c("div", F(12345) / fx, rmul(12345, rpow(x, PP - 2)));
        }
        for &e in &[0u64, 1, 2, 3, 7, 63, 64, P - 2, P - 1, P, u64::MAX, 1 << 63, (1 << 32) - 1] {
            bad += c("exp_u64", fx.exp_u64(e), rpow(x, e as u128));
        }
        for &e in &[
            0u128,
            1,
            1 << 64,
            (1 << 64) + 1,
            u128::MAX,
            (3 << 64),
            (1u128 << 127),
            (P as u128) << 64,
        ] {
            bad += c("exp_biguint", fx.exp_biguint(&BigUint::from(e)), rpow(x, e));
        }
        for k in [0usize, 1, 5, 31, 32, 63, 64, 65, 100] {
            // x^(2^k): exponent mod (p-1) (x nonzero) -- use rpow with 2^k mod (p-1)
            let e = {
                let mut t: u128 = 1;
                for _ in 0..k {
                    t = (t * 2) % (PP - 1);
                }
                t
            };
            let exp = if x % P == 0 {
                if k == 0 {
                    0
                } else {
                    0
                }
            } else if e == 0 {
                1
            } else {
                rpow(x, e)
            };
            bad += c("exp_power_of_2", fx.exp_power_of_2(k), exp);
        }
    }
    // inverse_2exp
    for e in 0..200usize {
        let got = F::inverse_2exp(e);
        let exp = rpow(rpow(2, e as u128), PP - 2);
        if got.to_canonical_u64() != exp {
            println!("MISMATCH inverse_2exp {e}");
            bad += 1;
        }
    }
    assert_eq!(bad, 0);
}

#[test]
fn scalar_reductions() {
    let b = boundary();
    let mut bad = 0usize;
    let his32: Vec<u32> = vec![0, 1, 2, 0x7fff_ffff, 0x8000_0000, 0xffff_fffe, 0xffff_ffff];
    for &lo in &b {
        for &hi in &his32 {
            let got = F::from_noncanonical_u96((lo, hi));
            let exp = r(((hi as u128) << 64) + lo as u128);
            if got.to_canonical_u64() != exp {
                println!("MISMATCH u96 lo={lo:#x} hi={hi:#x} got={:#x}", got.0);
                bad += 1;
            }
        }
        for &hi in &b {
            let n = ((hi as u128) << 64) + lo as u128;
            let got = F::from_noncanonical_u128(n);
            if got.to_canonical_u64() != r(n) {
                println!("MISMATCH u128 n={n:#x} got={:#x}", got.0);
                bad += 1;
            }
        }
    }
    let mut rng = Rng(777);
    for _ in 0..2_000_000 {
        // structured random: pick hi_hi, hi_lo, lo from extremes
        let pick = |rng: &mut Rng| -> u64 {
            match rng.next() % 6 {
                0 => 0,
                1 => 0xffff_ffff,
                2 => rng.next() & 0xf,
                3 => 0xffff_ffff - (rng.next() & 0xf),
                _ => rng.next() & 0xffff_ffff,
            }
        };
        let hi = pick(&mut rng) << 32 | pick(&mut rng);
        let lo = pick(&mut rng) << 32 | pick(&mut rng);
        let n = ((hi as u128) << 64) + lo as u128;
        let got = F::from_noncanonical_u128(n);
        if got.to_canonical_u64() != r(n) {
            println!("MISMATCH u128 n={n:#x} got={:#x}", got.0);
            bad += 1;
        }
    }
    for n in [i64::MIN, i64::MIN + 1, -1, 0, 1, i64::MAX, -(1 << 32), -(1 << 32) + 1, -((1 << 32) - 1)] {
        let got = F::from_noncanonical_i64(n);
        let exp = ((n as i128).rem_euclid(PP as i128)) as u64;
        if got.to_canonical_u64() != exp || got.0 >= P {
            println!("MISMATCH i64 {n}");
            bad += 1;
        }
    }
    assert_eq!(bad, 0);
}

// ---------- extension reference ----------
fn ref_ext_mul<const D: usize>(a: [u64; D], b: [u64; D], w: u64) -> [u64; D] {
    let mut c = [0u64; D];
    for i in 0..D {
        for j in 0..D {
            let t = rmul(a[i], b[j]);
            if i + j < D {
                c[i + j] = radd(c[i + j], t);
            } else {
                c[i + j - D] = radd(c[i + j - D], rmul(w, t));
            }
        }
    }
    c
}

fn ext_extremes() -> Vec<u64> {
    vec![0, 1, P - 1, P, u64::MAX, 0xFFFF_FFFF, 1 << 32, u64::MAX - 0xFFFF_FFFF, 1 << 63, P + 1]
}

fn check_ext<const D: usize, E>(a: [u64; D], b: [u64; D], w: u64) -> usize
where
    F: Extendable<D, Extension = E>,
    E: FieldExtension<D, BaseField = F> + Field,
{
    let ea = E::from_basefield_array(a.map(F));
    let eb = E::from_basefield_array(b.map(F));
    let mut bad = 0;
    let got = (ea * eb).to_basefield_array().map(|x| x.to_canonical_u64());
    let exp = ref_ext_mul(a, b, w);
    if got != exp {
        println!("MISMATCH ext{D} mul a={a:x?} b={b:x?} got={got:x?} exp={exp:x?}");
        bad += 1;
    }
    let got = ea.square().to_basefield_array().map(|x| x.to_canonical_u64());
    let exp = ref_ext_mul(a, a, w);
    if got != exp {
        println!("MISMATCH ext{D} square a={a:x?} got={got:x?} exp={exp:x?}");
        bad += 1;
    }
    let got = (ea + eb).to_basefield_array().map(|x| x.to_canonical_u64());
    let mut exp = [0u64; D];
    for i in 0..D {
        exp[i] = radd(a[i], b[i]);
    }
    if got != exp {
        println!("MISMATCH ext{D} add");
        bad += 1;
    }
    let got = (ea - eb).to_basefield_array().map(|x| x.to_canonical_u64());
    for i in 0..D {
        exp[i] = rsub(a[i], b[i]);
    }
    if got != exp {
        println!("MISMATCH ext{D} sub");
        bad += 1;
    }
    bad
}

fn ext_sweep<const D: usize, E>(w: u64, iters: usize) -> usize
where
    F: Extendable<D, Extension = E>,
    E: FieldExtension<D, BaseField = F> + Field,
{
    let ex = ext_extremes();
    let bd = boundary();
    let mut rng = Rng(42 + D as u64);
    let mut bad = 0;
    // all-max patterns first
    for &v in &ex {
        for &u in &ex {
            bad += check_ext::<D, E>([v; D], [u; D], w);
        }
    }
    for it in 0..iters {
        let mut a = [0u64; D];
        let mut b = [0u64; D];
        for i in 0..D {
            let m = it % 3;
            a[i] = if m == 0 {
                ex[(rng.next() % ex.len() as u64) as usize]
            } else if m == 1 {
                bd[(rng.next() % bd.len() as u64) as usize]
            } else {
                u64::MAX - (rng.next() & 0x3)
            };
            b[i] = if m == 0 {
                ex[(rng.next() % ex.len() as u64) as usize]
            } else if m == 1 {
                bd[(rng.next() % bd.len() as u64) as usize]
            } else {
                u64::MAX - (rng.next() & 0x3)
            };
        }
        bad += check_ext::<D, E>(a, b, w);
    }
    bad
}

#[test]
fn ext_mul_sweeps() {
    let mut bad = 0;
    bad += ext_sweep::<2, QuadraticExtension<F>>(7, 3_000_000);
    bad += ext_sweep::<4, QuarticExtension<F>>(7, 3_000_000);
    bad += ext_sweep::<5, QuinticExtension<F>>(3, 3_000_000);
    assert_eq!(bad, 0);
}

#[test]
fn ext2_exhaustive_extremes() {
    // all 4-tuples from the extremes set + a few more
    let mut ex = ext_extremes();
    ex.extend([2, P - 2, u64::MAX - 1, 0xFFFF_FFFE_0000_0001, (1 << 32) - 2, (1u64 << 63) - 1]);
    let mut bad = 0;
    for &a0 in &ex {
        for &a1 in &ex {
            for &b0 in &ex {
                for &b1 in &ex {
                    bad += check_ext::<2, QuadraticExtension<F>>([a0, a1], [b0, b1], 7);
                }
            }
        }
    }
    assert_eq!(bad, 0);
}

#[test]
fn ext4_exhaustive_small_extremes() {
    let ex = [0u64, 1, P - 1, P, u64::MAX, 0xFFFF_FFFF];
    let mut bad = 0;
    let n = ex.len();
    let total = n.pow(8);
    for idx in 0..total {
        let mut t = idx;
        let mut a = [0u64; 4];
        let mut b = [0u64; 4];
        for i in 0..4 {
            a[i] = ex[t % n];
            t /= n;
        }
        for i in 0..4 {
            b[i] = ex[t % n];
            t /= n;
        }
        let ea = QuarticExtension::<F>(a.map(F));
        let eb = QuarticExtension::<F>(b.map(F));
        let got = (ea * eb).0.map(|x| x.to_canonical_u64());
        let exp = ref_ext_mul(a, b, 7);
        if got != exp {
            println!("MISMATCH ext4 mul a={a:x?} b={b:x?}");
            bad += 1;
        }
    }
    assert_eq!(bad, 0);
}

#[test]
fn ext5_exhaustive_small_extremes() {
    let ex = [0u64, P - 1, u64::MAX, 0xFFFF_FFFF];
    let mut bad = 0;
    let n = ex.len();
    let total = n.pow(10);
    for idx in 0..total {
        let mut t = idx;
        let mut a = [0u64; 5];
        let mut b = [0u64; 5];
        for i in 0..5 {
            a[i] = ex[t % n];
            t /= n;
        }
        for i in 0..5 {
            b[i] = ex[t % n];
            t /= n;
        }
        let ea = QuinticExtension::<F>(a.map(F));
        let eb = QuinticExtension::<F>(b.map(F));
        let got = (ea * eb).0.map(|x| x.to_canonical_u64());
        let exp = ref_ext_mul(a, b, 3);
        if got != exp {
            println!("MISMATCH ext5 mul a={a:x?} b={b:x?}");
            bad += 1;
        }
    }
    assert_eq!(bad, 0);
}

fn ext_structure<const D: usize, E>(w: u64)
where
    F: Extendable<D, Extension = E>,
    E: FieldExtension<D, BaseField = F> + Field + Frobenius<D>,
{
    let ex = ext_extremes();
    let mut rng = Rng(99 + D as u64);
    let p_big = BigUint::from(P);
    // constants
    assert_eq!(<F as Extendable<D>>::W.to_canonical_u64(), w);
    assert_eq!(
        <F as Extendable<D>>::DTH_ROOT.to_canonical_u64(),
        rpow(w, (PP - 1) / D as u128),
        "DTH_ROOT"
    );
    // generator consistency
    let order_m1 = E::order() - 1u32;
    let g = E::MULTIPLICATIVE_GROUP_GENERATOR;
    assert_eq!(
        g.exp_biguint(&(&order_m1 >> E::TWO_ADICITY)),
        E::POWER_OF_TWO_GENERATOR,
        "ext gen -> pow2 gen"
    );
    assert_eq!(g.exp_biguint(&order_m1), E::ONE);
    let p2 = E::POWER_OF_TWO_GENERATOR;
    assert_eq!(
        p2.exp_power_of_2(E::TWO_ADICITY - F::TWO_ADICITY),
        E::from_basefield(F::POWER_OF_TWO_GENERATOR)
    );
    assert_eq!(p2.exp_power_of_2(E::TWO_ADICITY), E::ONE);
    assert_ne!(p2.exp_power_of_2(E::TWO_ADICITY - 1), E::ONE);
    // two-adicity exact: (order-1) >> TWO_ADICITY is odd
    assert!((&order_m1 >> E::TWO_ADICITY).bit(0));
    assert!(((&order_m1 >> E::TWO_ADICITY) << E::TWO_ADICITY) == order_m1);

    for it in 0..300 {
        let mut a = [0u64; D];
        for i in 0..D {
            a[i] = if it % 2 == 0 {
                ex[(rng.next() % ex.len() as u64) as usize]
            } else {
                rng.next()
            };
        }
        let ea = E::from_basefield_array(a.map(F));
        // Frobenius
        let mut fr = ea;
        for c in 0..(2 * D + 1) {
            assert_eq!(ea.repeated_frobenius(c), fr, "frobenius count {c} a={a:x?}");
            fr = fr.exp_biguint(&p_big);
        }
        // inverse
        if ea.is_zero() {
            assert!(ea.try_inverse().is_none());
        } else {
            let inv = ea.inverse();
            assert_eq!(inv * ea, E::ONE, "inverse a={a:x?}");
            assert_eq!(inv, ea.exp_biguint(&(&order_m1 - 1u32)));
        }
    }
    // batch inversion with noncanonical inputs
    for n in 0..40usize {
        let mut xs = vec![];
        for k in 0..n {
            let mut a = [0u64; D];
            for i in 0..D {
                a[i] = if (k + i) % 3 == 0 {
                    ex[(rng.next() % ex.len() as u64) as usize]
                } else {
                    rng.next()
                };
            }
            let mut e = E::from_basefield_array(a.map(F));
            if e.is_zero() {
                e = E::ONE;
            }
            xs.push(e);
        }
        let inv = E::batch_multiplicative_inverse(&xs);
        assert_eq!(inv.len(), n);
        for (i, x) in inv.iter().zip(&xs) {
            assert_eq!(*i * *x, E::ONE);
            assert_eq!(*i, x.inverse());
        }
    }
}

#[test]
fn ext_structure_all() {
    ext_structure::<2, QuadraticExtension<F>>(7);
    ext_structure::<4, QuarticExtension<F>>(7);
    ext_structure::<5, QuinticExtension<F>>(3);
}

#[test]
fn base_structure() {
    // generator order checks; p-1 = 2^32 * 3 * 5 * 17 * 257 * 65537
    let g = F::MULTIPLICATIVE_GROUP_GENERATOR;
    for q in [2u64, 3, 5, 17, 257, 65537] {
        assert_ne!(g.exp_u64((P - 1) / q), F::ONE, "generator order misses {q}");
    }
    assert_eq!(g.exp_u64((P - 1) >> 32), F::POWER_OF_TWO_GENERATOR);
    assert_eq!(F::POWER_OF_TWO_GENERATOR.exp_power_of_2(32), F::ONE);
    assert_ne!(F::POWER_OF_TWO_GENERATOR.exp_power_of_2(31), F::ONE);
    assert_eq!(F::NEG_ONE + F::ONE, F::ZERO);
    for k in 0..=32 {
        let w = F::primitive_root_of_unity(k);
        assert_eq!(w.exp_power_of_2(k), F::ONE);
        if k > 0 {
            assert_ne!(w.exp_power_of_2(k - 1), F::ONE);
        }
    }
    // batch inverse with noncanonical base elements
    let b: Vec<F> = boundary().into_iter().filter(|x| x % P != 0).map(F).collect();
    for n in 0..b.len().min(60) {
        let inv = F::batch_multiplicative_inverse(&b[..n]);
        for (i, x) in inv.iter().zip(&b[..n]) {
            assert_eq!(*i * *x, F::ONE);
        }
    }
    let inv = F::batch_multiplicative_inverse(&b);
    for (i, x) in inv.iter().zip(&b) {
        assert_eq!(*i * *x, F::ONE);
    }
    // sqrt
    use plonky2_field::types::PrimeField;
    for &x in &boundary() {
        let fx = F(x);
        let sq = fx.square();
        let s = sq.sqrt().expect("square must have sqrt");
        assert!(s == fx || s == -fx, "sqrt of square x={x:#x}");
        match fx.sqrt() {
            Some(s) => assert_eq!(s.square(), fx),
            None => assert_eq!(rpow(x, (PP - 1) / 2), P - 1),
        }
    }
    // kth roots
    for &x in &boundary() {
        let fx = F(x);
        for k in [7u64, 11, 13] {
            assert_eq!(fx.kth_root_u64(k).exp_u64(k), fx);
        }
    }
}

#[test]
fn packed_ops() {
    type PF = <F as Packable>::Packing;
    let w = PF::WIDTH;
    println!("packed width = {w}");
    let b = boundary();
    let n = b.len();
    let mut bad = 0usize;
    // run all pairs, chunked into lanes; rotate so every pair hits various lanes
    let mut pairs: Vec<(u64, u64)> = Vec::with_capacity(n * n + w);
    for &x in &b {
        for &y in &b {
            pairs.push((x, y));
        }
    }
    while pairs.len() % w != 0 {
        pairs.push((0, 0));
    }
    for rot in 0..w {
        pairs.rotate_left(if rot == 0 { 0 } else { 1 });
        for ch in pairs.chunks_exact(w) {
            let xs: Vec<F> = ch.iter().map(|p| F(p.0)).collect();
            let ys: Vec<F> = ch.iter().map(|p| F(p.1)).collect();
            let px = *PF::from_slice(&xs);
            let py = *PF::from_slice(&ys);
            let add = px + py;
            let sub = px - py;
            let mul = px * py;
            let neg = -px;
            let sq = px.square();
            let adds = px + ys[0];
            let subs = px - ys[0];
            let muls = px * ys[0];
            let sadd = PF::from(xs[0]) + py;
            let ssub = PF::from(xs[0]) - py;
            let smul = PF::from(xs[0]) * py;
            for l in 0..w {
                let (x, y) = ch[l];
                let mut c = |name: &str, got: F, exp: u64| {
                    if got.to_canonical_u64() != exp {
                        println!(
                            "MISMATCH packed {name} lane={l} x={x:#x} y={y:#x} got={:#x} exp={exp:#x}",
                            got.0
                        );
                        bad += 1;
                    }
                };
                c("add", add.as_slice()[l], radd(x, y));
                c("sub", sub.as_slice()[l], rsub(x, y));
                c("mul", mul.as_slice()[l], rmul(x, y));
                c("neg", neg.as_slice()[l], rsub(0, x));
                c("square", sq.as_slice()[l], rmul(x, x));
                c("add_scalar", adds.as_slice()[l], radd(x, ch[0].1));
                c("sub_scalar", subs.as_slice()[l], rsub(x, ch[0].1));
                c("mul_scalar", muls.as_slice()[l], rmul(x, ch[0].1));
                c("scalar_add", sadd.as_slice()[l], radd(ch[0].0, y));
                c("scalar_sub", ssub.as_slice()[l], rsub(ch[0].0, y));
                c("scalar_mul", smul.as_slice()[l], rmul(ch[0].0, y));
            }
        }
    }
    // structured random for mul: halves from extremes
    let mut rng = Rng(2024);
    let pick = |rng: &mut Rng| -> u64 {
        match rng.next() % 6 {
            0 => 0,
            1 => 0xffff_ffff,
            2 => rng.next() & 0x7,
            3 => 0xffff_ffff - (rng.next() & 0x7),
            4 => 0x8000_0000u64.wrapping_add(rng.next() & 3).wrapping_sub(2) & 0xffff_ffff,
            _ => rng.next() & 0xffff_ffff,
        }
    };
    for _ in 0..2_000_000 / w {
        let xs: Vec<F> = (0..w).map(|_| F(pick(&mut rng) << 32 | pick(&mut rng))).collect();
        let ys: Vec<F> = (0..w).map(|_| F(pick(&mut rng) << 32 | pick(&mut rng))).collect();
        let px = *PF::from_slice(&xs);
        let py = *PF::from_slice(&ys);
        let mul = px * py;
        let sq = px.square();
        let add = px + py;
        let sub = px - py;
        for l in 0..w {
            let (x, y) = (xs[l].0, ys[l].0);
            if mul.as_slice()[l].to_canonical_u64() != rmul(x, y) {
                println!("MISMATCH packed mul x={x:#x} y={y:#x}");
                bad += 1;
            }
            if sq.as_slice()[l].to_canonical_u64() != rmul(x, x) {
                println!("MISMATCH packed square x={x:#x}");
                bad += 1;
            }
            if add.as_slice()[l].to_canonical_u64() != radd(x, y) {
                println!("MISMATCH packed add x={x:#x} y={y:#x}");
                bad += 1;
            }
            if sub.as_slice()[l].to_canonical_u64() != rsub(x, y) {
                println!("MISMATCH packed sub x={x:#x} y={y:#x}");
                bad += 1;
            }
        }
    }
    // interleave
    for bl in [1usize, 2, 4, 8] {
        if bl > w {
            continue;
        }
        let xs: Vec<F> = (0..w).map(|i| F(i as u64)).collect();
        let ys: Vec<F> = (0..w).map(|i| F(100 + i as u64)).collect();
        let (a, c) = PF::from_slice(&xs).interleave(*PF::from_slice(&ys), bl);
        // reference
        let mut ea = vec![F(0); w];
        let mut ec = vec![F(0); w];
        for i in (0..w).step_by(2 * bl) {
            for j in 0..bl {
                if w >= 2 * bl {
                    ea[i + j] = xs[i + j];
                    ea[i + bl + j] = ys[i + j];
                    ec[i + j] = xs[i + bl + j];
                    ec[i + bl + j] = ys[i + bl + j];
                }
            }
        }
        if w >= 2 * bl {
            assert_eq!(a.as_slice(), &ea[..], "interleave {bl}");
            assert_eq!(c.as_slice(), &ec[..], "interleave {bl}");
        } else {
            assert_eq!(a.as_slice(), &xs[..]);
            assert_eq!(c.as_slice(), &ys[..]);
        }
    }
    assert_eq!(bad, 0);
}
