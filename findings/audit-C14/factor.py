import math, random, sys, time
def is_prime(n):
    if n < 2: return False
    for q in [2,3,5,7,11,13,17,19,23,29,31,37]:
        if n % q == 0: return n == q
    d = n-1; s = 0
    while d % 2 == 0: d//=2; s+=1
    for a in [2,3,5,7,11,13,17,19,23,29,31,37]:
        x = pow(a,d,n)
        if x in (1,n-1): continue
        for _ in range(s-1):
            x = x*x % n
            if x == n-1: break
        else: return False
    return True
def rho(n, deadline):
    if n % 2 == 0: return 2
    while time.time() < deadline:
        c = random.randrange(1,n); y = random.randrange(n); m = 2000; g = r = q = 1
        while g == 1 and time.time() < deadline:
            x = y
            for _ in range(r): y = (y*y+c) % n
            k = 0
            while k < r and g == 1:
                ys = y
                for _ in range(min(m, r-k)):
                    y = (y*y+c) % n
                    q = q*abs(x-y) % n
                g = math.gcd(q,n); k += m
            r *= 2
        if g == n:
            g = 1
            while g == 1:
                ys = (ys*ys+c) % n
                g = math.gcd(abs(x-ys), n)
        if g != n and g != 1: return g
    return None
def factor(n, deadline, out):
    if n == 1: return True
    if is_prime(n): out.append(n); return True
    d = rho(n, deadline)
    if d is None: out.append(('composite', n)); return False
    a = factor(d, deadline, out); b = factor(n//d, deadline, out); return a and b
p = 2**64 - 2**32 + 1
for name, n in [('p+1', p+1), ('p^2+1', p*p+1), ('p^4+p^3+p^2+p+1', p**4+p**3+p**2+p+1)]:
    out = []
    # strip small primes
    for q in range(2, 200000):
        while n % q == 0: out.append(q); n//=q
    ok = factor(n, time.time()+int(sys.argv[1]), out)
    print(name, ok, out, flush=True)
