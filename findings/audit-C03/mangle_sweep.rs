//! C03 exhaustive mangling sweep, driven through the serde representation of the proof.
//!
//! For an accepted proof (and its compressed form) we enumerate
//!   * every number in the JSON image (every field element / digest limb / index) -> value + 1,
//!   * every JSON array -> drop last, empty, duplicate last,
//!   * every JSON object that is a map keyed by an index (compressed proof) -> add an entry under an
//!     unused key, remove an entry,
//! re-deserialise, verify, and report every mutation that is still ACCEPTED.
//!
//! Run:
//!   cargo +nightly test --offline --release -p plonky2 --features verif_hooks \
//!       --test c03_mangle -- --nocapture --test-threads=1

use std::panic::{catch_unwind, AssertUnwindSafe};
use std::sync::Arc;

use plonky2::field::types::Field;
use plonky2::fri::reduction_strategies::FriReductionStrategy;
use plonky2::gates::noop::NoopGate;
use plonky2::iop::witness::{PartialWitness, WitnessWrite};
use plonky2::plonk::circuit_builder::CircuitBuilder;
use plonky2::plonk::circuit_data::{CircuitConfig, CircuitData};
use plonky2::plonk::config::{GenericConfig, PoseidonGoldilocksConfig};
use plonky2::plonk::proof::{CompressedProofWithPublicInputs, ProofWithPublicInputs};
use serde_json::Value;

const D: usize = 2;
type C = PoseidonGoldilocksConfig;
type F = <C as GenericConfig<D>>::F;

#[derive(Clone, Debug)]
enum Mutation {
    Bump,
    DropLast,
    Empty,
    DupLast,
    MapAdd,
    MapRemove,
}

/// Collect (path, mutation) for every mutable position.
fn collect(v: &Value, path: &mut Vec<String>, out: &mut Vec<(Vec<String>, Mutation)>) {
    match v {
        Value::Number(_) => out.push((path.clone(), Mutation::Bump)),
        Value::Array(a) => {
            if !a.is_empty() {
                out.push((path.clone(), Mutation::DropLast));
                out.push((path.clone(), Mutation::DupLast));
                if a.len() > 1 {
                    out.push((path.clone(), Mutation::Empty));
                }
            }
            for (i, x) in a.iter().enumerate() {
                path.push(i.to_string());
                collect(x, path, out);
                path.pop();
            }
        }
        Value::Object(o) => {
            let is_index_map = !o.is_empty() && o.keys().all(|k| k.parse::<usize>().is_ok());
            if is_index_map {
                out.push((path.clone(), Mutation::MapAdd));
                out.push((path.clone(), Mutation::MapRemove));
            }
            for (k, x) in o.iter() {
                path.push(k.clone());
                collect(x, path, out);
                path.pop();
            }
        }
        _ => {}
    }
}

fn at<'a>(v: &'a mut Value, path: &[String]) -> &'a mut Value {
    let mut cur = v;
    for p in path {
        cur = match cur {
            Value::Array(a) => &mut a[p.parse::<usize>().unwrap()],
            Value::Object(o) => o.get_mut(p).unwrap(),
            _ => unreachable!(),
        };
    }
    cur
}

fn apply(v: &mut Value, path: &[String], m: &Mutation) {
    let t = at(v, path);
    match (m, t) {
        (Mutation::Bump, Value::Number(n)) => {
            let x = n.as_u64().unwrap();
            *n = serde_json::Number::from(x.wrapping_add(1));
        }
        (Mutation::DropLast, Value::Array(a)) => {
            a.pop();
        }
        (Mutation::Empty, Value::Array(a)) => a.clear(),
        (Mutation::DupLast, Value::Array(a)) => {
            let l = a.last().unwrap().clone();
            a.push(l);
        }
        (Mutation::MapAdd, Value::Object(o)) => {
            let first = o.values().next().unwrap().clone();
            let mut k = 0usize;
            while o.contains_key(&k.to_string()) {
                k += 1;
            }
            o.insert(k.to_string(), first);
        }
        (Mutation::MapRemove, Value::Object(o)) => {
            let k = o.keys().next().unwrap().clone();
            o.remove(&k);
        }
        _ => unreachable!(),
    }
}

/// Generalise a path: replace every numeric component by `*` so that accepted mutations can be
/// summarised per kind of position.
fn generalise(path: &[String]) -> String {
    path.iter()
        .map(|p| {
            if p.parse::<usize>().is_ok() {
                "*".to_string()
            } else {
                p.clone()
            }
        })
        .collect::<Vec<_>>()
        .join("/")
}

fn sweep(name: &str, image: &Value, verify: &dyn Fn(Value) -> Result<(), String>) -> Vec<String> {
    let mut muts = Vec::new();
    collect(image, &mut Vec::new(), &mut muts);
    let (mut rejected, mut panicked) = (0usize, 0usize);
    let mut accepted: std::collections::BTreeMap<String, usize> = Default::default();
    for (path, m) in &muts {
        let mut v = image.clone();
        apply(&mut v, path, m);
        assert_ne!(&v, image);
        match catch_unwind(AssertUnwindSafe(|| verify(v))) {
            Ok(Ok(())) => {
                *accepted
                    .entry(format!("{:?} @ {}", m, generalise(path)))
                    .or_default() += 1;
            }
            Ok(Err(_)) => rejected += 1,
            Err(_) => panicked += 1,
        }
    }
    println!(
        "[{name}] {} mutations: {} rejected, {} panicked, {} ACCEPTED",
        muts.len(),
        rejected,
        panicked,
        accepted.values().sum::<usize>()
    );
    for (k, n) in &accepted {
        println!("[{name}]   ACCEPTED x{n}: {k}");
    }
    accepted.keys().cloned().collect()
}

fn build(zk: bool, lookup: bool) -> (CircuitData<F, C, D>, ProofWithPublicInputs<F, C, D>) {
    let mut config = if zk {
        CircuitConfig::standard_recursion_zk_config()
    } else {
        CircuitConfig::standard_recursion_config()
    };
    config.fri_config.reduction_strategy = FriReductionStrategy::Fixed(vec![2, 1]);
    config.fri_config.num_query_rounds = 6;
    config.fri_config.cap_height = 1;
    config.fri_config.proof_of_work_bits = 10;
    config.security_bits = 28;
    let mut builder = CircuitBuilder::<F, D>::new(config);
    let a = builder.add_virtual_target();
    let b = builder.add_virtual_target();
    let c = builder.mul(a, b);
    builder.register_public_input(a);
    builder.register_public_input(b);
    builder.register_public_input(c);
    if lookup {
        let table: Vec<(u16, u16)> = (0..16u16).map(|i| (i, (i * i) % 16)).collect();
        let idx = builder.add_lookup_table_from_pairs(Arc::new(table));
        let o = builder.add_lookup_from_index(a, idx);
        builder.register_public_input(o);
    }
    for _ in 0..60 {
        builder.add_gate(NoopGate, vec![]);
    }
    let data = builder.build::<C>();
    let mut pw = PartialWitness::new();
    pw.set_target(a, F::from_canonical_u64(2)).unwrap();
    pw.set_target(b, F::from_canonical_u64(3)).unwrap();
    let proof = data.prove(pw).unwrap();
    data.verify(proof.clone()).unwrap();
    (data, proof)
}

fn run(zk: bool, lookup: bool) -> (Vec<String>, Vec<String>) {
    let tag = format!("zk={zk},lookup={lookup}");
    let (data, proof) = build(zk, lookup);
    std::panic::set_hook(Box::new(|_| {}));
    println!(
        "[{tag}] degree_bits={} arities={:?}",
        data.common.degree_bits(),
        data.common.fri_params.reduction_arity_bits
    );

    let image = serde_json::to_value(&proof).unwrap();
    let acc_plain = sweep(&format!("{tag} plain"), &image, &|v| {
        let p: ProofWithPublicInputs<F, C, D> =
            serde_json::from_value(v).map_err(|e| e.to_string())?;
        data.verify(p).map_err(|e| e.to_string())
    });

    let compressed = data.compress(proof).unwrap();
    data.verify_compressed(compressed.clone()).unwrap();
    let image = serde_json::to_value(&compressed).unwrap();
    let acc_comp = sweep(&format!("{tag} compressed"), &image, &|v| {
        let p: CompressedProofWithPublicInputs<F, C, D> =
            serde_json::from_value(v).map_err(|e| e.to_string())?;
        data.verify_compressed(p).map_err(|e| e.to_string())
    });
    (acc_plain, acc_comp)
}

#[test]
fn mangle_standard() {
    let (plain, comp) = run(false, false);
    assert!(plain.is_empty(), "uncompressed proof malleable: {plain:?}");
    report(comp);
}

#[test]
fn mangle_lookup() {
    let (plain, comp) = run(false, true);
    assert!(plain.is_empty(), "uncompressed proof malleable: {plain:?}");
    report(comp);
}

// Not run to completion: with this small non-standard FRI configuration the zero-knowledge circuit
// build/prove step itself exhausted memory (>9 GB, before any mutation was tried), so the salted
// variant is covered by reading only (salts are part of the Merkle leaf, whose length is pinned by
// validate_fri_proof_shape and whose content is bound by the Merkle path).
#[test]
#[ignore]
fn mangle_zk() {
    let (plain, comp) = run(true, false);
    assert!(plain.is_empty(), "uncompressed proof malleable: {plain:?}");
    report(comp);
}

/// Everything accepted on the compressed form other than the (exempt) `indices` list is a
/// violation of C03.
fn report(comp: Vec<String>) {
    let bad: Vec<_> = comp
        .into_iter()
        .filter(|s| !s.contains("query_round_proofs/indices"))
        .collect();
    println!("compressed-form violations (excluding the exempt `indices` list): {bad:#?}");
}
