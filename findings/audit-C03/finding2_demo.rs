//! C03 finding 2: the compressed proof format carries components that verification never reads
//! (beyond the documented redundant `indices` list), so an accepted compressed proof stays accepted
//! after they are added, duplicated or altered.
//!
//! Run:
//!   cargo +nightly test --offline --release -p plonky2 --features verif_hooks \
//!       --test c03_finding2_compressed_unread -- --nocapture

use plonky2::field::types::{Field, Sample};
use plonky2::gates::noop::NoopGate;
use plonky2::hash::hash_types::HashOut;
use plonky2::iop::witness::{PartialWitness, WitnessWrite};
use plonky2::plonk::circuit_builder::CircuitBuilder;
use plonky2::plonk::circuit_data::CircuitConfig;
use plonky2::plonk::config::{GenericConfig, PoseidonGoldilocksConfig};

const D: usize = 2;
type C = PoseidonGoldilocksConfig;
type F = <C as GenericConfig<D>>::F;

#[test]
fn compressed_proof_has_unread_components() {
    let config = CircuitConfig::standard_recursion_config();
    let mut builder = CircuitBuilder::<F, D>::new(config);
    let a = builder.add_virtual_target();
    let b = builder.add_virtual_target();
    let c = builder.mul(a, b);
    builder.register_public_input(a);
    builder.register_public_input(b);
    builder.register_public_input(c);
    for _ in 0..100 {
        builder.add_gate(NoopGate, vec![]);
    }
    let data = builder.build::<C>();
    let mut pw = PartialWitness::new();
    pw.set_target(a, F::from_canonical_u64(2)).unwrap();
    pw.set_target(b, F::from_canonical_u64(3)).unwrap();
    let proof = data.prove(pw).unwrap();
    let good = data.compress(proof).unwrap();
    data.verify_compressed(good.clone()).unwrap();
    let junk = || HashOut::<F> {
        elements: F::rand_array(),
    };

    // (a) Append an arbitrary digest to a compressed Merkle path of an initial-tree opening.
    let mut p = good.clone();
    {
        let q = &mut p.proof.opening_proof.query_round_proofs;
        let (_, round) = q.initial_trees_proofs.iter_mut().next().unwrap();
        round.evals_proofs[1].1.siblings.push(junk());
    }
    assert_ne!(p, good);
    let r = data.verify_compressed(p);
    println!("(a) extra junk sibling on an initial-tree Merkle path : {:?}", r);
    assert!(r.is_ok());

    // (b) Same on a commit-phase (FRI step) Merkle path.
    let mut p = good.clone();
    {
        let q = &mut p.proof.opening_proof.query_round_proofs;
        let (_, step) = q.steps[0].iter_mut().next().unwrap();
        step.merkle_proof.siblings.push(junk());
    }
    assert_ne!(p, good);
    let r = data.verify_compressed(p);
    println!("(b) extra junk sibling on a FRI-step Merkle path      : {:?}", r);
    assert!(r.is_ok());

    // (c) Add a whole query opening under a position that is not queried, then alter a leaf value
    //     inside it.
    let mut p = good.clone();
    {
        let q = &mut p.proof.opening_proof.query_round_proofs;
        let mut extra = q.initial_trees_proofs.values().next().unwrap().clone();
        extra.evals_proofs[1].0[0] += F::ONE;
        let mut k = 0;
        while q.initial_trees_proofs.contains_key(&k) {
            k += 1;
        }
        q.initial_trees_proofs.insert(k, extra);
        let mut extra = q.steps[0].values().next().unwrap().clone();
        extra.evals[0] = <F as plonky2::field::extension::Extendable<D>>::Extension::rand();
        let mut k = 0;
        while q.steps[0].contains_key(&k) {
            k += 1;
        }
        q.steps[0].insert(k, extra);
    }
    assert_ne!(p, good);
    let r = data.verify_compressed(p);
    println!("(c) extra (altered) openings at unqueried positions   : {:?}", r);
    assert!(r.is_ok());

    // (d) Duplicate the last element of the per-reduction-step list.
    let mut p = good.clone();
    {
        let q = &mut p.proof.opening_proof.query_round_proofs;
        let last = q.steps.last().unwrap().clone();
        q.steps.push(last);
    }
    assert_ne!(p, good);
    let r = data.verify_compressed(p);
    println!("(d) duplicated last entry of `steps`                  : {:?}", r);
    assert!(r.is_ok());
}
