//! C03 finding 1: `CompressedProofWithPublicInputs::verify` never runs `validate_proof_shape`.
//!
//! The uncompressed verifier pins the length of every opening list to the circuit; the compressed
//! verifier only checks `public_inputs.len()`. `verify_with_challenges` then iterates over
//! `openings.quotient_polys.chunks(quotient_degree_factor)`: with an EMPTY list the loop body (the
//! only place where `vanishing(zeta) == Z_H(zeta) * t(zeta)` is checked) is never executed.
//! A prover that commits to all-zero quotient polynomials and sends no quotient openings passes
//! FRI (the zero polynomials contribute nothing to the batch) and gets ANY witness accepted.
//!
//! Run:
//!   cargo +nightly test --offline --release -p plonky2 --features verif_hooks \
//!       --test c03_finding1_compressed_no_shape -- --nocapture

#![cfg(feature = "verif_hooks")]

use core::sync::atomic::Ordering;

use plonky2::field::types::Field;
use plonky2::iop::generator::generate_partial_witness;
use plonky2::iop::witness::{PartialWitness, WitnessWrite};
use plonky2::plonk::circuit_builder::CircuitBuilder;
use plonky2::plonk::circuit_data::CircuitConfig;
use plonky2::plonk::config::{GenericConfig, PoseidonGoldilocksConfig};
use plonky2::plonk::prover::{prove_with_partition_witness, verif_hooks};
use plonky2::util::timing::TimingTree;

const D: usize = 2;
type C = PoseidonGoldilocksConfig;
type F = <C as GenericConfig<D>>::F;

#[test]
fn forged_compressed_proof_of_false_statement_is_accepted() {
    // Circuit: public inputs (a, b, c) with the single constraint a * b == c.
    let config = CircuitConfig::standard_recursion_config();
    let mut builder = CircuitBuilder::<F, D>::new(config);
    let a = builder.add_virtual_target();
    let b = builder.add_virtual_target();
    let c = builder.mul(a, b);
    builder.register_public_input(a);
    builder.register_public_input(b);
    builder.register_public_input(c);
    let data = builder.build::<C>();

    // Honest witness generation for 2 * 3 = 6 ...
    let mut pw = PartialWitness::new();
    pw.set_target(a, F::from_canonical_u64(2)).unwrap();
    pw.set_target(b, F::from_canonical_u64(3)).unwrap();
    let mut witness = generate_partial_witness(pw, &data.prover_only, &data.common).unwrap();

    // ... then the malicious prover overwrites c := 7 (the copy class of `c`).
    let rep = witness.representative_map[c.index(witness.num_wires, witness.degree)];
    assert_eq!(witness.values[rep], Some(F::from_canonical_u64(6)));
    witness.values[rep] = Some(F::from_canonical_u64(7));

    // Adversarial prover: zero quotient oracle, no quotient openings. Everything else is the
    // stock prover.
    verif_hooks::DROP_QUOTIENT.store(true, Ordering::Relaxed);
    let proof = prove_with_partition_witness(
        &data.prover_only,
        &data.common,
        witness,
        &mut TimingTree::default(),
    )
    .unwrap();
    verif_hooks::DROP_QUOTIENT.store(false, Ordering::Relaxed);

    println!("public inputs of the forged proof: {:?}", proof.public_inputs);
    assert_eq!(
        proof.public_inputs,
        [2u64, 3, 7].map(F::from_canonical_u64).to_vec()
    );
    assert!(proof.proof.openings.quotient_polys.is_empty());

    // The uncompressed verifier rejects it: the shape check notices the missing openings.
    let res = data.verify(proof.clone());
    println!("uncompressed verify: {:?}", res);
    assert!(res.is_err());

    // The compressed verifier ACCEPTS 2 * 3 = 7.
    let compressed = data.compress(proof).unwrap();
    let res = data.verifier_data().verify_compressed(compressed.clone());
    println!("compressed verify (2*3=7): {:?}", res);
    assert!(
        res.is_ok(),
        "expected the defect: forged compressed proof accepted"
    );

    // Also through a serde round trip (the derive(Deserialize) path performs no length checks).
    let json = serde_json::to_string(&compressed).unwrap();
    let back = serde_json::from_str(&json).unwrap();
    assert!(data.verify_compressed(back).is_ok());
    println!("compressed verify after serde_json round trip: Ok");
}
