//! C11 finding 3 demo (low severity, malleability): the library's assignment routines silently
//! NORMALISE malformed proofs, so the in-circuit verifier accepts proof objects that the native
//! verifier rejects in shape validation:
//!   (m1) extra `FriQueryStep`s appended to every query round  (witness_util.rs: `qt.steps.iter().zip(&q.steps)`),
//!   (m2) Merkle caps with surplus entries                      (witness.rs `set_cap_target`: `zip`),
//!   (m3) an `auxiliary_polys_cap` on a STARK without lookups   (recursive_verifier.rs `if let (Some, Some)`),
//!   (m4) openings regrouped between `local_values` / `quotient_polys` (only the flattened batch is assigned).
//!
//! Run:
//!   cargo test --offline --release -p starky --test c11_finding3_demo -- --nocapture

use core::marker::PhantomData;

use plonky2::field::extension::{Extendable, FieldExtension};
use plonky2::field::packed::PackedField;
use plonky2::field::polynomial::PolynomialValues;
use plonky2::field::types::Field;
use plonky2::hash::hash_types::RichField;
use plonky2::iop::ext_target::ExtensionTarget;
use plonky2::iop::witness::PartialWitness;
use plonky2::plonk::circuit_builder::CircuitBuilder;
use plonky2::plonk::circuit_data::CircuitConfig;
use plonky2::plonk::config::{GenericConfig, PoseidonGoldilocksConfig};
use plonky2::util::timing::TimingTree;
use starky::config::StarkConfig;
use starky::constraint_consumer::{ConstraintConsumer, RecursiveConstraintConsumer};
use starky::evaluation_frame::{StarkEvaluationFrame, StarkFrame};
use starky::proof::StarkProofWithPublicInputs;
use starky::prover::prove;
use starky::recursive_verifier::{
    add_virtual_stark_proof_with_pis, set_stark_proof_with_pis_target, verify_stark_proof_circuit,
};
use starky::stark::Stark;
use starky::util::trace_rows_to_poly_values;
use starky::verifier::verify_stark_proof;

const D: usize = 2;
type C = PoseidonGoldilocksConfig;
type F = <C as GenericConfig<D>>::F;
type S = FibonacciStark<F, D>;

/// Verbatim copy of starky/src/fibonacci_stark.rs (which is `#[cfg(test)]`-only in the crate).
#[derive(Copy, Clone)]
struct FibonacciStark<F: RichField + Extendable<D>, const D: usize> {
    num_rows: usize,
    _phantom: PhantomData<F>,
}

impl<F: RichField + Extendable<D>, const D: usize> FibonacciStark<F, D> {
    const PI_INDEX_X0: usize = 0;
    const PI_INDEX_X1: usize = 1;
    const PI_INDEX_RES: usize = 2;

    const fn new(num_rows: usize) -> Self {
        Self {
            num_rows,
            _phantom: PhantomData,
        }
    }

    fn generate_trace(&self, x0: F, x1: F) -> Vec<PolynomialValues<F>> {
        let trace_rows = (0..self.num_rows)
            .scan([x0, x1], |acc, _| {
                let tmp = *acc;
                acc[0] = tmp[1];
                acc[1] = tmp[0] + tmp[1];
                Some(tmp)
            })
            .collect::<Vec<_>>();
        trace_rows_to_poly_values(trace_rows)
    }
}

const FIBONACCI_COLUMNS: usize = 2;
const FIBONACCI_PUBLIC_INPUTS: usize = 3;

impl<F: RichField + Extendable<D>, const D: usize> Stark<F, D> for FibonacciStark<F, D> {
    type EvaluationFrame<FE, P, const D2: usize>
        = StarkFrame<P, P::Scalar, FIBONACCI_COLUMNS, FIBONACCI_PUBLIC_INPUTS>
    where
        FE: FieldExtension<D2, BaseField = F>,
        P: PackedField<Scalar = FE>;

    type EvaluationFrameTarget = StarkFrame<
        ExtensionTarget<D>,
        ExtensionTarget<D>,
        FIBONACCI_COLUMNS,
        FIBONACCI_PUBLIC_INPUTS,
    >;

    fn eval_packed_generic<FE, P, const D2: usize>(
        &self,
        vars: &Self::EvaluationFrame<FE, P, D2>,
        yield_constr: &mut ConstraintConsumer<P>,
    ) where
        FE: FieldExtension<D2, BaseField = F>,
        P: PackedField<Scalar = FE>,
    {
        let local_values = vars.get_local_values();
        let next_values = vars.get_next_values();
        let public_inputs = vars.get_public_inputs();
        yield_constr.constraint_first_row(local_values[0] - public_inputs[Self::PI_INDEX_X0]);
        yield_constr.constraint_first_row(local_values[1] - public_inputs[Self::PI_INDEX_X1]);
        yield_constr.constraint_last_row(local_values[1] - public_inputs[Self::PI_INDEX_RES]);
        yield_constr.constraint_transition(next_values[0] - local_values[1]);
        yield_constr.constraint_transition(next_values[1] - local_values[0] - local_values[1]);
    }

    fn eval_ext_circuit(
        &self,
        builder: &mut CircuitBuilder<F, D>,
        vars: &Self::EvaluationFrameTarget,
        yield_constr: &mut RecursiveConstraintConsumer<F, D>,
    ) {
        let local_values = vars.get_local_values();
        let next_values = vars.get_next_values();
        let public_inputs = vars.get_public_inputs();
        let pis_constraints = [
            builder.sub_extension(local_values[0], public_inputs[Self::PI_INDEX_X0]),
            builder.sub_extension(local_values[1], public_inputs[Self::PI_INDEX_X1]),
            builder.sub_extension(local_values[1], public_inputs[Self::PI_INDEX_RES]),
        ];
        yield_constr.constraint_first_row(builder, pis_constraints[0]);
        yield_constr.constraint_first_row(builder, pis_constraints[1]);
        yield_constr.constraint_last_row(builder, pis_constraints[2]);
        let first_col_constraint = builder.sub_extension(next_values[0], local_values[1]);
        yield_constr.constraint_transition(builder, first_col_constraint);
        let second_col_constraint = {
            let tmp = builder.sub_extension(next_values[1], local_values[0]);
            builder.sub_extension(tmp, local_values[1])
        };
        yield_constr.constraint_transition(builder, second_col_constraint);
    }

    fn constraint_degree(&self) -> usize {
        2
    }
}

fn fibonacci(n: usize, x0: F, x1: F) -> F {
    (0..n).fold((x0, x1), |x, _| (x.1, x.0 + x.1)).1
}


#[test]
fn c11_finding3_assignment_normalises_malformed_proofs() {
    let config = StarkConfig::standard_fast_config();
    let degree_bits = 8; // one FRI reduction step with the default config
    let num_rows = 1 << degree_bits;
    let public_inputs = [F::ZERO, F::ONE, fibonacci(num_rows - 1, F::ZERO, F::ONE)];
    let stark = S::new(num_rows);
    let trace = stark.generate_trace(public_inputs[0], public_inputs[1]);
    let honest = prove::<F, C, S, D>(
        stark,
        &config,
        trace,
        &public_inputs,
        None,
        &mut TimingTree::default(),
    )
    .unwrap();
    verify_stark_proof(stark, honest.clone(), &config, None).unwrap();

    let mut builder = CircuitBuilder::<F, D>::new(CircuitConfig::standard_recursion_config());
    let zero = builder.zero();
    let pt = add_virtual_stark_proof_with_pis(&mut builder, &stark, &config, degree_bits, 0, 0);
    verify_stark_proof_circuit::<F, C, S, D>(&mut builder, stark, pt.clone(), &config, None);
    let data = builder.build::<C>();

    let mut mangled: Vec<(&str, StarkProofWithPublicInputs<F, C, D>)> = vec![];
    // (m1) one more (junk) FRI query step in every round.
    let mut m1 = honest.clone();
    for q in m1.proof.opening_proof.query_round_proofs.iter_mut() {
        let extra = q.steps.last().unwrap().clone();
        q.steps.push(extra);
    }
    mangled.push(("m1 extra FRI query steps", m1));
    // (m2) surplus entries in the trace cap.
    let mut m2 = honest.clone();
    let extra = m2.proof.trace_cap.0[0];
    m2.proof.trace_cap.0.push(extra);
    mangled.push(("m2 trace cap with 17 entries", m2));
    // (m3) an auxiliary cap although the STARK has no lookups / CTLs.
    let mut m3 = honest.clone();
    m3.proof.auxiliary_polys_cap = Some(m3.proof.trace_cap.clone());
    mangled.push(("m3 spurious auxiliary_polys_cap", m3));
    // (m4) move the last trace opening into the front of the quotient openings.
    let mut m4 = honest.clone();
    let moved = m4.proof.openings.local_values.pop().unwrap();
    m4.proof.openings.quotient_polys.as_mut().unwrap().insert(0, moved);
    mangled.push(("m4 regrouped openings", m4));

    for (name, p) in mangled {
        let native = std::panic::catch_unwind(std::panic::AssertUnwindSafe(|| {
            verify_stark_proof(stark, p.clone(), &config, None)
        }));
        let native_ok = matches!(native, Ok(Ok(())));
        let mut pw = PartialWitness::new();
        let circuit_ok = match set_stark_proof_with_pis_target(&mut pw, &pt, &p, degree_bits, zero) {
            Err(e) => {
                println!("{name}: assignment error {e}");
                false
            }
            Ok(()) => match data.prove(pw) {
                Ok(pr) => data.verify(pr).is_ok(),
                Err(_) => false,
            },
        };
        println!(
            "{name}: native {}, in-circuit {}",
            if native_ok { "ACCEPT" } else { "REJECT" },
            if circuit_ok { "ACCEPT" } else { "REJECT" }
        );
        assert!(!native_ok);
        assert!(circuit_ok, "{name}: no discrepancy");
    }
}
