//! C11 finding 2 demo: `eval_cross_table_lookup_checks_circuit` (starky/src/cross_table_lookup.rs),
//! branch "no helper columns, two looking column sets": the second constraint -- the running-sum
//! TRANSITION constraint -- is emitted with `constraint_last_row` instead of `constraint_transition`.
//! The native `eval_cross_table_lookup_checks` uses `constraint_transition`.
//!
//! Consequences (both are violations of "circuit accepts <=> native accepts"):
//!  (a) [this test, no prover hook needed] an HONEST proof that the native verifier accepts is
//!      REJECTED by the in-circuit verifier (the constraint-binding evaluations that feed the
//!      transcript, and the vanishing polynomial at zeta, are computed from a different constraint
//!      set);
//!  (b) [test `forged_...`, needs `--features verif_hooks`] a prover that computes the quotient
//!      from the circuit's constraint set gets a CTL running sum `Z` accepted that satisfies no
//!      transition constraint at all (only the last row is pinned), i.e. `Z(first row)` -- the
//!      value the cross-table check consumes -- is arbitrary. The native verifier rejects it.
//!
//! Run:
//!   cargo test --offline --release -p starky --test c11_finding2_demo -- --nocapture
//!   cargo test --offline --release -p starky --features verif_hooks --test c11_finding2_demo -- --nocapture

use core::marker::PhantomData;

use plonky2::field::extension::{Extendable, FieldExtension};
use plonky2::field::packed::PackedField;
use plonky2::field::polynomial::PolynomialValues;
use plonky2::field::types::Field;
use plonky2::fri::oracle::PolynomialBatch;
use plonky2::hash::hash_types::RichField;
use plonky2::iop::challenger::{Challenger, RecursiveChallenger};
use plonky2::iop::ext_target::ExtensionTarget;
use plonky2::iop::witness::PartialWitness;
use plonky2::plonk::circuit_builder::CircuitBuilder;
use plonky2::plonk::circuit_data::{CircuitConfig, CircuitData};
use plonky2::plonk::config::{GenericConfig, PoseidonGoldilocksConfig};
use plonky2::util::timing::TimingTree;
use starky::config::StarkConfig;
use starky::constraint_consumer::{ConstraintConsumer, RecursiveConstraintConsumer};
use starky::cross_table_lookup::{
    CrossTableLookup, CtlCheckVars, CtlCheckVarsTarget, CtlData, CtlZData, TableWithColumns,
};
use starky::evaluation_frame::StarkFrame;
use starky::lookup::{Column, Filter, GrandProductChallenge, GrandProductChallengeSet};
use starky::proof::{StarkProofTarget, StarkProofWithPublicInputs};
use starky::prover::prove_with_commitment;
use starky::recursive_verifier::{
    add_virtual_stark_proof, set_stark_proof_target, verify_stark_proof_with_challenges_circuit,
};
use starky::stark::Stark;
use starky::verifier::verify_stark_proof_with_challenges;

const D: usize = 2;
type C = PoseidonGoldilocksConfig;
type F = <C as GenericConfig<D>>::F;
type H = <C as GenericConfig<D>>::Hasher;
type S = TwoLookStark<F, D>;

const DEGREE_BITS: usize = 5;

/// The hook is a process-wide switch, so the two tests must not overlap.
static LOCK: std::sync::Mutex<()> = std::sync::Mutex::new(());

/// A table with two value columns and no constraints of its own; it takes part in a cross-table
/// lookup with BOTH columns (two looking column sets from the same table).
#[derive(Copy, Clone)]
struct TwoLookStark<F: RichField + Extendable<D>, const D: usize> {
    _phantom: PhantomData<F>,
}

impl<F: RichField + Extendable<D>, const D: usize> Stark<F, D> for TwoLookStark<F, D> {
    type EvaluationFrame<FE, P, const D2: usize>
        = StarkFrame<P, P::Scalar, 2, 0>
    where
        FE: FieldExtension<D2, BaseField = F>,
        P: PackedField<Scalar = FE>;
    type EvaluationFrameTarget = StarkFrame<ExtensionTarget<D>, ExtensionTarget<D>, 2, 0>;

    fn eval_packed_generic<FE, P, const D2: usize>(
        &self,
        _vars: &Self::EvaluationFrame<FE, P, D2>,
        _yield_constr: &mut ConstraintConsumer<P>,
    ) where
        FE: FieldExtension<D2, BaseField = F>,
        P: PackedField<Scalar = FE>,
    {
    }

    fn eval_ext_circuit(
        &self,
        _builder: &mut CircuitBuilder<F, D>,
        _vars: &Self::EvaluationFrameTarget,
        _yield_constr: &mut RecursiveConstraintConsumer<F, D>,
    ) {
    }

    /// `combin0 * combin1 * Z * L_last` has degree 4.
    fn constraint_degree(&self) -> usize {
        4
    }

    fn requires_ctls(&self) -> bool {
        true
    }
}

fn config() -> StarkConfig {
    let mut c = StarkConfig::standard_fast_config();
    c.fri_config.rate_bits = 2; // constraint degree 4 <= 2^rate_bits + 1
    c.fri_config.num_query_rounds = 42; // same conjectured security as the default (42*2+16)
    c
}

fn ctls() -> Vec<CrossTableLookup<F>> {
    let one = || Filter::new_simple(Column::one());
    vec![CrossTableLookup::new(
        vec![
            TableWithColumns::new(0, vec![Column::single(0)], one()),
            TableWithColumns::new(0, vec![Column::single(1)], one()),
        ],
        TableWithColumns::new(1, vec![Column::single(0)], one()),
    )]
}

fn trace() -> Vec<PolynomialValues<F>> {
    let n = 1 << DEGREE_BITS;
    vec![
        PolynomialValues::new((0..n).map(|i| F::from_canonical_usize(3 * i + 1)).collect()),
        PolynomialValues::new((0..n).map(|i| F::from_canonical_usize(i * i + 7)).collect()),
    ]
}

/// The CTL running sum (upside down): Z[n-1] = t[n-1], Z[i] = Z[i+1] + t[i], where
/// t[i] = 1/(c0[i]+gamma) + 1/(c1[i]+gamma).  If `tamper` is set, the first row is overwritten with
/// 0: the circuit's constraint set pins only the last row (`Z[n-1] = t[n-1]`) and, through the
/// wrap-around of its mis-filtered second constraint, `Z[0] = 0`; every other row is free. So the
/// forged table claims "my two columns contribute NOTHING to the cross-table sum" whatever they hold.
fn z_poly(tr: &[PolynomialValues<F>], ch: GrandProductChallenge<F>, tamper: bool) -> PolynomialValues<F> {
    let n = tr[0].len();
    let t = |i: usize| {
        (tr[0].values[i] + ch.gamma).inverse() + (tr[1].values[i] + ch.gamma).inverse()
    };
    let mut z = vec![F::ZERO; n];
    z[n - 1] = t(n - 1);
    for i in (0..n - 1).rev() {
        z[i] = z[i + 1] + t(i);
    }
    if tamper {
        z[0] = F::ZERO;
    }
    PolynomialValues::new(z)
}

struct Setup {
    config: StarkConfig,
    ctls: Vec<CrossTableLookup<F>>,
    ctl_challenges: GrandProductChallengeSet<F>,
    data: CircuitData<F, C, D>,
    pt: StarkProofTarget<D>,
    zero: plonky2::iop::target::Target,
}

fn setup(trace_cap_seed: &PolynomialBatch<F, C, D>) -> Setup {
    let config = config();
    let ctls = ctls();
    let stark = S { _phantom: PhantomData };

    // As in a multi-STARK system: the CTL challenges are drawn after the trace caps were observed.
    let mut ch = Challenger::<F, H>::new();
    ch.observe_cap(&trace_cap_seed.merkle_tree.cap);
    let ctl_challenges = GrandProductChallengeSet {
        challenges: (0..config.num_challenges)
            .map(|_| GrandProductChallenge {
                beta: ch.get_challenge(),
                gamma: ch.get_challenge(),
            })
            .collect(),
    };

    // The recursive verifier for this table.
    let mut builder = CircuitBuilder::<F, D>::new(CircuitConfig::standard_recursion_config());
    let zero = builder.zero();
    let pt = add_virtual_stark_proof(&mut builder, &stark, &config, DEGREE_BITS, 2, 2); // 0 helpers + 2 Zs in the auxiliary oracle; 2 Zs opened at 1
    let ctl_challenges_t = GrandProductChallengeSet {
        challenges: ctl_challenges
            .challenges
            .iter()
            .map(|c| GrandProductChallenge {
                beta: builder.constant(c.beta),
                gamma: builder.constant(c.gamma),
            })
            .collect(),
    };
    // No helper columns for this CTL (two looking column sets fit in a degree-3 constraint).
    let ctl_vars_t =
        CtlCheckVarsTarget::from_proof(0, &pt, &ctls, &ctl_challenges_t, 0, 0, &[0]);
    let mut rch = RecursiveChallenger::<F, H, D>::new(&mut builder);
    let challenges_t = pt.get_challenges::<F, C, S>(
        &mut builder,
        &stark,
        &[],
        &mut rch,
        Some(&ctl_challenges_t),
        Some(&ctl_vars_t),
        DEGREE_BITS,
        false,
        &config,
    );
    verify_stark_proof_with_challenges_circuit::<F, C, S, D>(
        &mut builder,
        &stark,
        &pt,
        &[],
        challenges_t,
        Some(&ctl_vars_t),
        &config,
        DEGREE_BITS,
        None,
    );
    let data = builder.build::<C>();
    Setup {
        config,
        ctls,
        ctl_challenges,
        data,
        pt,
        zero,
    }
}

fn commit(tr: &[PolynomialValues<F>], config: &StarkConfig) -> PolynomialBatch<F, C, D> {
    PolynomialBatch::<F, C, D>::from_values(
        tr.to_vec(),
        config.fri_config.rate_bits,
        false,
        config.fri_config.cap_height,
        &mut TimingTree::default(),
        None,
    )
}

fn prove_table(
    s: &Setup,
    tr: &[PolynomialValues<F>],
    commitment: &PolynomialBatch<F, C, D>,
    tamper: bool,
) -> StarkProofWithPublicInputs<F, C, D> {
    let stark = S { _phantom: PhantomData };
    let cols0 = [Column::single(0)];
    let cols1 = [Column::single(1)];
    let one = || Filter::new_simple(Column::one());
    let ctl_data = CtlData {
        zs_columns: s
            .ctl_challenges
            .challenges
            .iter()
            .map(|&ch| {
                CtlZData::new(
                    vec![],
                    z_poly(tr, ch, tamper),
                    ch,
                    vec![&cols0[..], &cols1[..]],
                    vec![one(), one()],
                )
            })
            .collect(),
    };
    let mut challenger = Challenger::<F, H>::new();
    s.config.observe(&mut challenger);
    challenger.observe_cap(&commitment.merkle_tree.cap);
    prove_with_commitment(
        &stark,
        &s.config,
        tr,
        commitment,
        Some(&ctl_data),
        Some(&s.ctl_challenges),
        &mut challenger,
        &[],
        None,
        None,
        &mut TimingTree::default(),
    )
    .unwrap()
}

fn native(s: &Setup, proof: &StarkProofWithPublicInputs<F, C, D>) -> anyhow::Result<()> {
    let stark = S { _phantom: PhantomData };
    let ctl_vars =
        CtlCheckVars::from_proof(0, &proof.proof, &s.ctls, &s.ctl_challenges, 0, 0, &[0]);
    let mut challenger = Challenger::<F, H>::new();
    let challenges = proof.proof.get_challenges(
        &stark,
        &[],
        &mut challenger,
        Some(&s.ctl_challenges),
        Some(&ctl_vars),
        false,
        &s.config,
        None,
    );
    verify_stark_proof_with_challenges(
        &stark,
        &proof.proof,
        &challenges,
        Some(&ctl_vars),
        &[],
        &s.config,
    )
}

fn in_circuit(s: &Setup, proof: &StarkProofWithPublicInputs<F, C, D>) -> Result<(), String> {
    let mut pw = PartialWitness::new();
    set_stark_proof_target(&mut pw, &s.pt, &proof.proof, DEGREE_BITS, s.zero)
        .map_err(|e| e.to_string())?;
    let res = std::panic::catch_unwind(std::panic::AssertUnwindSafe(|| s.data.prove(pw)));
    match res {
        Ok(Ok(p)) => s.data.verify(p).map_err(|e| e.to_string()),
        Ok(Err(e)) => Err(e.to_string()),
        Err(_) => Err("panic while generating the outer witness".to_string()),
    }
}

#[test]
fn honest_two_column_ctl_proof_is_rejected_by_the_circuit() {
    let _guard = LOCK.lock().unwrap_or_else(|e| e.into_inner());
    let tr = trace();
    let commitment = commit(&tr, &config());
    let s = setup(&commitment);

    let honest = prove_table(&s, &tr, &commitment, false);
    let n = native(&s, &honest);
    println!("honest proof, native verifier    : {:?}", n.as_ref().map_err(|e| e.to_string()));
    let c = in_circuit(&s, &honest);
    println!("honest proof, in-circuit verifier: {:?}", c);
    assert!(n.is_ok(), "native verifier accepts the honest proof");
    assert!(c.is_err(), "circuit REJECTS the honest proof  <-- violation (completeness)");
}

#[cfg(feature = "verif_hooks")]
#[test]
fn forged_ctl_running_sum_is_accepted_by_the_circuit() {
    use core::sync::atomic::Ordering;
    let _guard = LOCK.lock().unwrap_or_else(|e| e.into_inner());

    let tr = trace();
    let commitment = commit(&tr, &config());
    let s = setup(&commitment);

    // The adversarial prover evaluates the CTL constraints the way the circuit does.
    starky::prover::verif_hooks::CTL_TWO_COLUMNS_AS_IN_CIRCUIT.store(true, Ordering::SeqCst);
    let forged = prove_table(&s, &tr, &commitment, true);
    starky::prover::verif_hooks::CTL_TWO_COLUMNS_AS_IN_CIRCUIT.store(false, Ordering::SeqCst);

    let honest_z_first = z_poly(&tr, s.ctl_challenges.challenges[0], false).values[0];
    println!(
        "ctl_zs_first[0] in the forged proof: {}, true running sum: {}",
        forged.proof.openings.ctl_zs_first.as_ref().unwrap()[0],
        honest_z_first
    );
    assert_ne!(forged.proof.openings.ctl_zs_first.as_ref().unwrap()[0], honest_z_first);

    let n = native(&s, &forged);
    println!("forged proof, native verifier    : {:?}", n.as_ref().map_err(|e| e.to_string()));
    let c = in_circuit(&s, &forged);
    println!("forged proof, in-circuit verifier: {:?}", c);
    assert!(n.is_err(), "native verifier rejects the forged running sum");
    assert!(c.is_ok(), "circuit ACCEPTS the forged running sum  <-- violation (soundness)");
}
