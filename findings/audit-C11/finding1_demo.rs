//! C11 finding 1 demo: with `min_degree_bits_to_support == Some(max_degree_bits)` (a one-element
//! range of supported degrees) the variable-degree in-circuit STARK verifier does not pin the
//! `degree_bits` witness at all: every "select by n_index" gadget degenerates to a one-element
//! `random_access`, which returns `v[0]` WITHOUT constraining the index. A malicious prover can
//! therefore make a circuit that was built for exactly 2^10 rows accept a proof about a 2^5-row (or
//! 2^8-row) trace -- here: a false claim about the 1023rd Fibonacci number.
//!
//! Run:
//!   cargo test --offline --release -p starky --test c11_finding1_demo -- --nocapture

use core::marker::PhantomData;

use plonky2::field::extension::{Extendable, FieldExtension};
use plonky2::field::packed::PackedField;
use plonky2::field::polynomial::PolynomialValues;
use plonky2::field::types::Field;
use plonky2::fri::oracle::PolynomialBatch;
use plonky2::fri::reduction_strategies::FriReductionStrategy;
use plonky2::hash::hash_types::RichField;
use plonky2::iop::challenger::Challenger;
use plonky2::iop::ext_target::ExtensionTarget;
use plonky2::iop::witness::PartialWitness;
use plonky2::plonk::circuit_builder::CircuitBuilder;
use plonky2::plonk::circuit_data::CircuitConfig;
use plonky2::plonk::config::{GenericConfig, PoseidonGoldilocksConfig};
use plonky2::util::timing::TimingTree;
use starky::config::StarkConfig;
use starky::constraint_consumer::{ConstraintConsumer, RecursiveConstraintConsumer};
use starky::evaluation_frame::{StarkEvaluationFrame, StarkFrame};
use starky::proof::StarkProofWithPublicInputs;
use starky::prover::{prove, prove_with_commitment};
use starky::recursive_verifier::{
    add_virtual_stark_proof_with_pis, set_stark_proof_with_pis_target, verify_stark_proof_circuit,
};
use starky::stark::Stark;
use starky::util::trace_rows_to_poly_values;
use starky::verifier::verify_stark_proof;

const D: usize = 2;
type C = PoseidonGoldilocksConfig;
type F = <C as GenericConfig<D>>::F;
type S = FibonacciStark<F, D>;

/// Verbatim copy of starky/src/fibonacci_stark.rs (which is `#[cfg(test)]`-only in the crate).
#[derive(Copy, Clone)]
struct FibonacciStark<F: RichField + Extendable<D>, const D: usize> {
    num_rows: usize,
    _phantom: PhantomData<F>,
}

impl<F: RichField + Extendable<D>, const D: usize> FibonacciStark<F, D> {
    const PI_INDEX_X0: usize = 0;
    const PI_INDEX_X1: usize = 1;
    const PI_INDEX_RES: usize = 2;

    const fn new(num_rows: usize) -> Self {
        Self {
            num_rows,
            _phantom: PhantomData,
        }
    }

    fn generate_trace(&self, x0: F, x1: F) -> Vec<PolynomialValues<F>> {
        let trace_rows = (0..self.num_rows)
            .scan([x0, x1], |acc, _| {
                let tmp = *acc;
                acc[0] = tmp[1];
                acc[1] = tmp[0] + tmp[1];
                Some(tmp)
            })
            .collect::<Vec<_>>();
        trace_rows_to_poly_values(trace_rows)
    }
}

const FIBONACCI_COLUMNS: usize = 2;
const FIBONACCI_PUBLIC_INPUTS: usize = 3;

impl<F: RichField + Extendable<D>, const D: usize> Stark<F, D> for FibonacciStark<F, D> {
    type EvaluationFrame<FE, P, const D2: usize>
        = StarkFrame<P, P::Scalar, FIBONACCI_COLUMNS, FIBONACCI_PUBLIC_INPUTS>
    where
        FE: FieldExtension<D2, BaseField = F>,
        P: PackedField<Scalar = FE>;

    type EvaluationFrameTarget = StarkFrame<
        ExtensionTarget<D>,
        ExtensionTarget<D>,
        FIBONACCI_COLUMNS,
        FIBONACCI_PUBLIC_INPUTS,
    >;

    fn eval_packed_generic<FE, P, const D2: usize>(
        &self,
        vars: &Self::EvaluationFrame<FE, P, D2>,
        yield_constr: &mut ConstraintConsumer<P>,
    ) where
        FE: FieldExtension<D2, BaseField = F>,
        P: PackedField<Scalar = FE>,
    {
        let local_values = vars.get_local_values();
        let next_values = vars.get_next_values();
        let public_inputs = vars.get_public_inputs();
        yield_constr.constraint_first_row(local_values[0] - public_inputs[Self::PI_INDEX_X0]);
        yield_constr.constraint_first_row(local_values[1] - public_inputs[Self::PI_INDEX_X1]);
        yield_constr.constraint_last_row(local_values[1] - public_inputs[Self::PI_INDEX_RES]);
        yield_constr.constraint_transition(next_values[0] - local_values[1]);
        yield_constr.constraint_transition(next_values[1] - local_values[0] - local_values[1]);
    }

    fn eval_ext_circuit(
        &self,
        builder: &mut CircuitBuilder<F, D>,
        vars: &Self::EvaluationFrameTarget,
        yield_constr: &mut RecursiveConstraintConsumer<F, D>,
    ) {
        let local_values = vars.get_local_values();
        let next_values = vars.get_next_values();
        let public_inputs = vars.get_public_inputs();
        let pis_constraints = [
            builder.sub_extension(local_values[0], public_inputs[Self::PI_INDEX_X0]),
            builder.sub_extension(local_values[1], public_inputs[Self::PI_INDEX_X1]),
            builder.sub_extension(local_values[1], public_inputs[Self::PI_INDEX_RES]),
        ];
        yield_constr.constraint_first_row(builder, pis_constraints[0]);
        yield_constr.constraint_first_row(builder, pis_constraints[1]);
        yield_constr.constraint_last_row(builder, pis_constraints[2]);
        let first_col_constraint = builder.sub_extension(next_values[0], local_values[1]);
        yield_constr.constraint_transition(builder, first_col_constraint);
        let second_col_constraint = {
            let tmp = builder.sub_extension(next_values[1], local_values[0]);
            builder.sub_extension(tmp, local_values[1])
        };
        yield_constr.constraint_transition(builder, second_col_constraint);
    }

    fn constraint_degree(&self) -> usize {
        2
    }
}

fn fibonacci(n: usize, x0: F, x1: F) -> F {
    (0..n).fold((x0, x1), |x, _| (x.1, x.0 + x.1)).1
}

/// A malicious prover: proves a 2^k-row Fibonacci trace, but commits to it on the LDE domain of a
/// 2^max_bits-row trace (i.e. with a larger blow-up), while feeding the transcript the REAL config.
/// Uses only public library functions.
fn forge(
    real_config: &StarkConfig,
    max_bits: usize,
    k: usize,
    active_arities: Vec<usize>,
) -> StarkProofWithPublicInputs<F, C, D> {
    let verifier_fri_params = real_config.fri_params(max_bits);
    let final_len = verifier_fri_params.final_poly_len();
    let max_steps = verifier_fri_params.reduction_arity_bits.len();

    let num_rows = 1 << k;
    let public_inputs = [F::ZERO, F::ONE, fibonacci(num_rows - 1, F::ZERO, F::ONE)];
    let stark = S::new(num_rows);
    let trace = stark.generate_trace(public_inputs[0], public_inputs[1]);

    let mut fake_config = real_config.clone();
    fake_config.fri_config.rate_bits = real_config.fri_config.rate_bits + max_bits - k;
    fake_config.fri_config.reduction_strategy = FriReductionStrategy::Fixed(active_arities);

    let mut timing = TimingTree::default();
    let trace_commitment = PolynomialBatch::<F, C, D>::from_values(
        trace.clone(),
        fake_config.fri_config.rate_bits,
        false,
        fake_config.fri_config.cap_height,
        &mut timing,
        None,
    );
    let mut challenger = Challenger::<F, <C as GenericConfig<D>>::Hasher>::new();
    challenger.observe_elements(&public_inputs);
    real_config.observe(&mut challenger); // the transcript sees the REAL config
    challenger.observe_cap(&trace_commitment.merkle_tree.cap);
    prove_with_commitment(
        &stark,
        &fake_config,
        &trace,
        &trace_commitment,
        None,
        None,
        &mut challenger,
        &public_inputs,
        Some(final_len),
        Some(max_steps),
        &mut timing,
    )
    .unwrap()
}

#[test]
fn c11_finding1_singleton_degree_range_does_not_pin_degree() {
    let real_config = StarkConfig::standard_fast_config(); // rate 1, cap 4, ConstantArityBits(4,5), 84 queries, 16 PoW bits
    let max_bits = 10;
    let verifier_fri_params = real_config.fri_params(max_bits);
    println!(
        "circuit: max_degree_bits = min_degree_bits_to_support = {max_bits}, arities {:?}, final poly len {}",
        verifier_fri_params.reduction_arity_bits,
        verifier_fri_params.final_poly_len()
    );

    // The statement the circuit is built for: a Fibonacci trace with exactly 2^10 rows.
    let stark = S::new(1 << max_bits);
    let true_res = fibonacci((1 << max_bits) - 1, F::ZERO, F::ONE);

    // Circuit that (supposedly) only supports degree_bits == 10.
    let mut builder = CircuitBuilder::<F, D>::new(CircuitConfig::standard_recursion_config());
    let zero = builder.zero();
    let pt = add_virtual_stark_proof_with_pis(&mut builder, &stark, &real_config, max_bits, 0, 0);
    verify_stark_proof_circuit::<F, C, S, D>(
        &mut builder,
        stark,
        pt.clone(),
        &real_config,
        Some(max_bits),
    );
    let data = builder.build::<C>();

    // Sanity: the honest 2^10-row proof is accepted natively and in the circuit.
    {
        let public_inputs = [F::ZERO, F::ONE, true_res];
        let trace = stark.generate_trace(F::ZERO, F::ONE);
        let honest = prove::<F, C, S, D>(
            stark,
            &real_config,
            trace,
            &public_inputs,
            Some(verifier_fri_params.clone()),
            &mut TimingTree::default(),
        )
        .unwrap();
        verify_stark_proof(
            stark,
            honest.clone(),
            &real_config,
            Some(verifier_fri_params.clone()),
        )
        .expect("native verifier accepts the honest proof");
        let mut pw = PartialWitness::new();
        set_stark_proof_with_pis_target(&mut pw, &pt, &honest, max_bits, zero).unwrap();
        let proof = data.prove(pw).expect("circuit accepts the honest proof");
        data.verify(proof).unwrap();
        println!("honest 2^{max_bits}-row proof: native ACCEPT, circuit ACCEPT");
    }

    // Attack: k = 5 (no reduction step active) and k = 8 (the single arity-4 step active).
    for (k, arities) in [(5usize, vec![]), (8usize, vec![4usize])] {
        let forged = forge(&real_config, max_bits, k, arities);
        assert_ne!(forged.public_inputs[2], true_res);
        println!(
            "forged claim: fib(2^{max_bits}-1) = {} (really {}; the claimed value is fib(2^{k}-1))",
            forged.public_inputs[2], true_res
        );

        let native = verify_stark_proof(
            stark,
            forged.clone(),
            &real_config,
            Some(verifier_fri_params.clone()),
        );
        println!("  native verifier: {:?}", native.as_ref().map_err(|e| e.to_string()));
        assert!(native.is_err(), "native verifier must reject");
        let native_plain = verify_stark_proof(stark, forged.clone(), &real_config, None);
        assert!(native_plain.is_err(), "native verifier must reject");

        // The library's own assignment routine; the only "malicious" input is `pis_degree_bits = k`.
        let mut pw = PartialWitness::new();
        set_stark_proof_with_pis_target(&mut pw, &pt, &forged, k, zero).unwrap();
        let proof = data.prove(pw);
        match proof {
            Ok(p) => {
                data.verify(p).unwrap();
                println!("  in-circuit verifier (min = max = {max_bits}), degree_bits witness = {k}: ACCEPT  <-- violation");
            }
            Err(e) => panic!("circuit rejected (no finding): {e}"),
        }
    }
}
