//! C16 audit sweep: compress/decompress round trip and verify/verify_compressed agreement over
//! many FRI configurations with heavy query-index / coset collisions.
//!
//! cargo +nightly test --offline --release -p plonky2 --test c16_sweep2 -- --nocapture

use std::collections::HashSet;
use std::sync::Arc;

use plonky2::field::types::Field;
use plonky2::fri::reduction_strategies::FriReductionStrategy;
use plonky2::fri::FriConfig;
use plonky2::gadgets::lookup::TIP5_TABLE;
use plonky2::gates::lookup_table::LookupTable;
use plonky2::gates::noop::NoopGate;
use plonky2::iop::witness::{PartialWitness, WitnessWrite};
use plonky2::plonk::circuit_builder::CircuitBuilder;
use plonky2::plonk::circuit_data::{CircuitConfig, CircuitData};
use plonky2::plonk::config::{GenericConfig, PoseidonGoldilocksConfig};
use plonky2::plonk::proof::{CompressedProofWithPublicInputs, ProofWithPublicInputs};

const D: usize = 2;
type F = <PoseidonGoldilocksConfig as GenericConfig<D>>::F;

fn build<C: GenericConfig<D, F = F>>(
    config: CircuitConfig,
    rows: usize,
    lookup: bool,
) -> (
    CircuitData<F, C, D>,
    plonky2::iop::target::Target,
    Option<plonky2::iop::target::Target>,
) {
    let mut builder = CircuitBuilder::<F, D>::new(config);
    let x = builder.add_virtual_target();
    builder.register_public_input(x);
    let y = builder.mul(x, x);
    let z = builder.add(y, x);
    builder.register_public_input(z);
    let mut lk = None;
    if lookup {
        let table: LookupTable = Arc::new((0..256u16).zip(TIP5_TABLE.to_vec()).collect());
        let ti = builder.add_lookup_table_from_pairs(table);
        let a = builder.add_virtual_target();
        let out = builder.add_lookup_from_index(a, ti);
        builder.register_public_input(out);
        lk = Some(a);
    }
    for _ in 0..rows {
        builder.add_gate(NoopGate, vec![]);
    }
    (builder.build::<C>(), x, lk)
}

struct Stats {
    proofs: usize,
    dup_index: usize,
    shared_coset: usize,
}

fn check_one<C: GenericConfig<D, F = F>>(
    data: &CircuitData<F, C, D>,
    proof: ProofWithPublicInputs<F, C, D>,
    stats: &mut Stats,
    label: &str,
) {
    data.verify(proof.clone())
        .unwrap_or_else(|e| panic!("{label}: honest proof rejected by verify: {e}"));
    let ch = proof
        .get_challenges(
            proof.get_public_inputs_hash(),
            &data.verifier_only.circuit_digest,
            &data.common,
        )
        .unwrap();
    let idx = ch.fri_challenges.fri_query_indices.clone();
    let uniq: HashSet<_> = idx.iter().copied().collect();
    if uniq.len() < idx.len() {
        stats.dup_index += 1;
    }
    // coset sharing among distinct indices at some layer
    let mut cur: Vec<usize> = uniq.iter().copied().collect();
    let mut shared = false;
    for &a in &data.common.fri_params.reduction_arity_bits {
        let before = cur.iter().copied().collect::<HashSet<_>>().len();
        cur.iter_mut().for_each(|v| *v >>= a);
        let after = cur.iter().copied().collect::<HashSet<_>>().len();
        if after < before {
            shared = true;
        }
        let s: HashSet<_> = cur.iter().copied().collect();
        cur = s.into_iter().collect();
    }
    if shared {
        stats.shared_coset += 1;
    }
    stats.proofs += 1;

    let compressed = data
        .compress(proof.clone())
        .unwrap_or_else(|e| panic!("{label}: compress failed: {e}"));
    let decompressed = data
        .decompress(compressed.clone())
        .unwrap_or_else(|e| panic!("{label}: decompress failed: {e}"));
    assert_eq!(proof, decompressed, "{label}: decompress(compress(p)) != p");
    data.verify_compressed(compressed.clone())
        .unwrap_or_else(|e| panic!("{label}: verify_compressed rejected honest: {e}"));

    // byte round trip of the compressed proof
    let bytes = compressed.to_bytes();
    let back = CompressedProofWithPublicInputs::<F, C, D>::from_bytes(bytes, &data.common)
        .unwrap_or_else(|e| panic!("{label}: from_bytes failed: {e}"));
    assert_eq!(compressed, back, "{label}: compressed byte round trip differs");
    data.verify_compressed(back).unwrap();

    // Negative agreement: tamper with one thing at a time in the plain proof, and with the
    // matching thing in the compressed proof; both verifiers must reject.
    {
        // a non-inferred step evaluation
        if !data.common.fri_params.reduction_arity_bits.is_empty() {
            let mut c2 = compressed.clone();
            let k = *c2.proof.opening_proof.query_round_proofs.steps[0]
                .keys()
                .next()
                .unwrap();
            let st = c2.proof.opening_proof.query_round_proofs.steps[0]
                .get_mut(&k)
                .unwrap();
            st.evals[0] += <F as plonky2::field::extension::Extendable<D>>::Extension::ONE;
            assert!(
                data.verify_compressed(c2).is_err(),
                "{label}: tampered compressed step eval accepted"
            );
        }
        // an initial leaf value
        let mut c3 = compressed.clone();
        let k = *c3
            .proof
            .opening_proof
            .query_round_proofs
            .initial_trees_proofs
            .keys()
            .next()
            .unwrap();
        let it = c3
            .proof
            .opening_proof
            .query_round_proofs
            .initial_trees_proofs
            .get_mut(&k)
            .unwrap();
        it.evals_proofs[1].0[0] += F::ONE;
        assert!(
            data.verify_compressed(c3).is_err(),
            "{label}: tampered compressed initial leaf accepted"
        );
        // an opening
        let mut c4 = compressed.clone();
        c4.proof.openings.wires[0] +=
            <F as plonky2::field::extension::Extendable<D>>::Extension::ONE;
        let r = std::panic::catch_unwind(std::panic::AssertUnwindSafe(|| {
            data.verify_compressed(c4)
        }));
        match r {
            Ok(Ok(())) => panic!("{label}: tampered opening accepted"),
            _ => {}
        }
        // final poly
        let mut c5 = compressed.clone();
        c5.proof.opening_proof.final_poly.coeffs[0] +=
            <F as plonky2::field::extension::Extendable<D>>::Extension::ONE;
        let r = std::panic::catch_unwind(std::panic::AssertUnwindSafe(|| {
            data.verify_compressed(c5)
        }));
        match r {
            Ok(Ok(())) => panic!("{label}: tampered final poly accepted"),
            _ => {}
        }
    }
}

fn sweep<C: GenericConfig<D, F = F>>(name: &str, zk: bool, lookup: bool) {
    let strategies: Vec<FriReductionStrategy> = if true {
        vec![
            FriReductionStrategy::Fixed(vec![4]),
            FriReductionStrategy::Fixed(vec![5]),
            FriReductionStrategy::Fixed(vec![3, 2]),
            FriReductionStrategy::Fixed(vec![2, 3]),
            FriReductionStrategy::Fixed(vec![1, 4]),
            FriReductionStrategy::Fixed(vec![2, 2, 2]),
            FriReductionStrategy::Fixed(vec![6]),
            FriReductionStrategy::ConstantArityBits(3, 0),
            FriReductionStrategy::MinSize(Some(5)),
        ]
    } else if zk {
        vec![
            FriReductionStrategy::ConstantArityBits(4, 5),
            FriReductionStrategy::ConstantArityBits(1, 2),
            FriReductionStrategy::ConstantArityBits(2, 3),
        ]
    } else {
        vec![
            FriReductionStrategy::ConstantArityBits(4, 5),
            FriReductionStrategy::ConstantArityBits(1, 0),
            FriReductionStrategy::ConstantArityBits(2, 1),
            FriReductionStrategy::ConstantArityBits(3, 2),
            FriReductionStrategy::Fixed(vec![]),
            FriReductionStrategy::Fixed(vec![1]),
            FriReductionStrategy::Fixed(vec![1, 1, 1]),
            FriReductionStrategy::Fixed(vec![2, 1]),
            FriReductionStrategy::Fixed(vec![1, 2]),
            FriReductionStrategy::Fixed(vec![3]),
            FriReductionStrategy::MinSize(None),
            FriReductionStrategy::MinSize(Some(2)),
        ]
    };
    let mut stats = Stats {
        proofs: 0,
        dup_index: 0,
        shared_coset: 0,
    };
    for strat in &strategies {
        for &cap_height in &[0usize, 3, 5] {
            for &rows in &[40usize, 100] {
                for &(rate_bits, queries) in &[(3usize, 28usize), (3, 90), (1, 80)] {
                    let config = CircuitConfig {
                        zero_knowledge: zk,
                        security_bits: 80,
                        fri_config: FriConfig {
                            rate_bits,
                            cap_height,
                            proof_of_work_bits: 4,
                            reduction_strategy: strat.clone(),
                            num_query_rounds: queries,
                        },
                        ..CircuitConfig::standard_recursion_config()
                    };
                    let label = format!(
                        "{name} zk={zk} lookup={lookup} {strat:?} cap={cap_height} rows={rows} rate={rate_bits} q={queries}"
                    );
                    let built = std::panic::catch_unwind(|| build::<C>(config, rows, lookup));
                    let (data, x, lk) = match built {
                        Ok(v) => v,
                        Err(_) => {
                            println!("SKIP (build panicked): {label}");
                            continue;
                        }
                    };
                    let db = data.common.degree_bits();
                    let total: usize = data.common.fri_params.reduction_arity_bits.iter().sum();
                    if total > db {
                        println!("SKIP (known F-C01-1 region): {label}");
                        continue;
                    }
                    for seed in 0..2u64 {
                        let mut pw = PartialWitness::new();
                        pw.set_target(x, F::from_canonical_u64(3 + seed)).unwrap();
                        if let Some(a) = lk {
                            pw.set_target(a, F::from_canonical_u64(5 + seed)).unwrap();
                        }
                        let proof = match std::panic::catch_unwind(
                            std::panic::AssertUnwindSafe(|| data.prove(pw)),
                        ) {
                            Ok(Ok(p)) => p,
                            Ok(Err(e)) => {
                                println!("SKIP (prove err {e}): {label}");
                                break;
                            }
                            Err(_) => {
                                println!("SKIP (prove panicked): {label}");
                                break;
                            }
                        };
                        let l2 = format!(
                            "{label} seed={seed} deg_bits={db} arities={:?}",
                            data.common.fri_params.reduction_arity_bits
                        );
                        check_one(&data, proof, &mut stats, &l2);
                    }
                }
            }
        }
    }
    println!(
        "{name} zk={zk} lookup={lookup}: {} proofs checked, {} with duplicate indices, {} with shared cosets among distinct indices",
        stats.proofs, stats.dup_index, stats.shared_coset
    );
    assert!(stats.proofs > 0);
}

#[test]
fn sweep2_poseidon_plain() {
    sweep::<PoseidonGoldilocksConfig>("poseidon", false, false);
}

#[test]
fn sweep2_poseidon_lookup() {
    sweep::<PoseidonGoldilocksConfig>("poseidon", false, true);
}
