//! C16 audit: behaviours that were examined and found to be OUTSIDE the stated property
//! (the property quantifies over accepted proofs only), recorded here so they are reproducible.
//!
//! cargo +nightly test --offline --release -p plonky2 --test c16_observations -- --nocapture

use plonky2::field::extension::Extendable;
use plonky2::field::types::Field;
use plonky2::fri::reduction_strategies::FriReductionStrategy;
use plonky2::fri::FriConfig;
use plonky2::gates::noop::NoopGate;
use plonky2::hash::hash_types::HashOut;
use plonky2::iop::witness::{PartialWitness, WitnessWrite};
use plonky2::plonk::circuit_builder::CircuitBuilder;
use plonky2::plonk::circuit_data::{CircuitConfig, CircuitData};
use plonky2::plonk::config::{GenericConfig, PoseidonGoldilocksConfig};
use plonky2::plonk::proof::ProofWithPublicInputs;

const D: usize = 2;
type C = PoseidonGoldilocksConfig;
type F = <C as GenericConfig<D>>::F;
type FE = <F as Extendable<D>>::Extension;

fn setup() -> (CircuitData<F, C, D>, ProofWithPublicInputs<F, C, D>, Vec<usize>) {
    let config = CircuitConfig {
        security_bits: 80,
        fri_config: FriConfig {
            rate_bits: 3,
            cap_height: 1,
            proof_of_work_bits: 4,
            reduction_strategy: FriReductionStrategy::Fixed(vec![1, 2]),
            num_query_rounds: 60,
        },
        ..CircuitConfig::standard_recursion_config()
    };
    let mut builder = CircuitBuilder::<F, D>::new(config);
    let x = builder.add_virtual_target();
    builder.register_public_input(x);
    let y = builder.mul(x, x);
    builder.register_public_input(y);
    for _ in 0..6 {
        builder.add_gate(NoopGate, vec![]);
    }
    let data = builder.build::<C>();
    let mut pw = PartialWitness::new();
    pw.set_target(x, F::from_canonical_u64(7)).unwrap();
    let proof = data.prove(pw).unwrap();
    data.verify(proof.clone()).unwrap();
    let idx = proof
        .get_challenges(
            proof.get_public_inputs_hash(),
            &data.verifier_only.circuit_digest,
            &data.common,
        )
        .unwrap()
        .fri_challenges
        .fri_query_indices;
    (data, proof, idx)
}

/// compress() silently repairs a REJECTED plain proof: everything it drops (the inferable coset
/// element, the data of a repeated query, Merkle siblings lying on another query's path) is never
/// looked at, so verify(p) = Err while verify_compressed(compress(p)) = Ok.
#[test]
fn compress_launders_rejected_proof() {
    let (data, proof, idx) = setup();
    println!("lde_bits = {}, indices = {:?}", data.common.fri_params.lde_bits(), idx);

    // (a) overwrite the inferable element of query 0, step 0.
    let mut p = proof.clone();
    let w = idx[0] & 1;
    p.proof.opening_proof.query_round_proofs[0].steps[0].evals[w] += FE::ONE;
    let plain = data.verify(p.clone());
    let comp = data.verify_compressed(data.compress(p.clone()).unwrap());
    println!("(a) inferable element overwritten: verify = {:?}, verify_compressed(compress) = {:?}",
        plain.as_ref().map_err(|e| e.to_string()), comp.as_ref().map_err(|e| e.to_string()));
    assert!(plain.is_err() && comp.is_ok());
    assert_ne!(data.decompress(data.compress(p.clone()).unwrap()).unwrap(), p);
    assert_eq!(data.decompress(data.compress(p).unwrap()).unwrap(), proof);

    // (b) garble the whole second occurrence of a repeated index.
    let dup = (0..idx.len())
        .find_map(|j| (0..j).find(|&i| idx[i] == idx[j]).map(|_| j))
        .expect("no repeated index with 60 queries over 2^6 points?");
    let mut p = proof.clone();
    for (leaf, mp) in p.proof.opening_proof.query_round_proofs[dup]
        .initial_trees_proof
        .evals_proofs
        .iter_mut()
    {
        leaf.iter_mut().for_each(|v| *v = F::ZERO);
        mp.siblings.iter_mut().for_each(|s| *s = HashOut::ZERO);
    }
    for st in p.proof.opening_proof.query_round_proofs[dup].steps.iter_mut() {
        st.evals.iter_mut().for_each(|v| *v = FE::ZERO);
        st.merkle_proof.siblings.iter_mut().for_each(|s| *s = HashOut::ZERO);
    }
    let plain = data.verify(p.clone());
    let comp = data.verify_compressed(data.compress(p).unwrap());
    println!("(b) repeated query (position {dup}) garbled: verify = {:?}, verify_compressed(compress) = {:?}",
        plain.as_ref().map_err(|e| e.to_string()), comp.as_ref().map_err(|e| e.to_string()));
    assert!(plain.is_err() && comp.is_ok());
}

/// A compressed proof is malleable: the `indices` field, surplus map entries and surplus Merkle
/// siblings are never read by decompress()/verify_compressed().
#[test]
fn compressed_proof_is_malleable() {
    let (data, proof, idx) = setup();
    let c = data.compress(proof.clone()).unwrap();
    data.verify_compressed(c.clone()).unwrap();

    // (a) `indices` is ignored by the struct-level API.
    let mut c1 = c.clone();
    c1.proof.opening_proof.query_round_proofs.indices = vec![12345; 3];
    assert_ne!(c, c1);
    data.verify_compressed(c1.clone()).unwrap();
    assert_eq!(data.decompress(c1).unwrap(), proof);
    println!("(a) indices field replaced by junk: accepted, decompresses to the original proof");

    // (b) surplus map entries under keys that are never queried.
    let mut c2 = c.clone();
    let q = &mut c2.proof.opening_proof.query_round_proofs;
    let free = (0..1usize << data.common.fri_params.lde_bits())
        .find(|i| !idx.contains(i))
        .unwrap();
    let any = q.initial_trees_proofs.values().next().unwrap().clone();
    q.initial_trees_proofs.insert(free, any);
    let any = q.steps[0].values().next().unwrap().clone();
    q.steps[0].insert(usize::MAX, any);
    data.verify_compressed(c2.clone()).unwrap();
    assert_eq!(data.decompress(c2).unwrap(), proof);
    println!("(b) surplus map entries: accepted, decompresses to the original proof");

    // (c) surplus siblings at the end of a compressed Merkle path.
    let mut c3 = c.clone();
    for it in c3
        .proof
        .opening_proof
        .query_round_proofs
        .initial_trees_proofs
        .values_mut()
    {
        for (_, mp) in it.evals_proofs.iter_mut() {
            mp.siblings.push(HashOut::ZERO);
        }
    }
    data.verify_compressed(c3.clone()).unwrap();
    assert_eq!(data.decompress(c3).unwrap(), proof);
    println!("(c) surplus trailing siblings: accepted, decompresses to the original proof");
}
