//! C08 audit scratch tests, part 2: adversarial witnesses.
use std::panic::{catch_unwind, AssertUnwindSafe};
use std::sync::Arc;

use plonky2::field::types::Field;
use plonky2::gates::lookup_table::LookupTable;
use plonky2::iop::generator::generate_partial_witness;
use plonky2::iop::target::Target;
use plonky2::iop::witness::{PartialWitness, PartitionWitness, WitnessWrite};
use plonky2::plonk::circuit_builder::CircuitBuilder;
use plonky2::plonk::circuit_data::{CircuitConfig, CircuitData};
use plonky2::plonk::config::{GenericConfig, PoseidonGoldilocksConfig};
use plonky2::plonk::prover::prove_with_partition_witness;
use plonky2::util::timing::TimingTree;

const D: usize = 2;
type C = PoseidonGoldilocksConfig;
type F = <C as GenericConfig<D>>::F;

struct Built {
    data: CircuitData<F, C, D>,
    ins: Vec<Vec<Target>>,
    outs: Vec<Vec<Target>>,
}

fn build(config: CircuitConfig, tables: &[Vec<(u16, u16)>], nlookups: &[usize]) -> Built {
    let mut builder = CircuitBuilder::<F, D>::new(config);
    let mut ins = vec![];
    let mut outs = vec![];
    for (k, t) in tables.iter().enumerate() {
        let table: LookupTable = Arc::new(t.clone());
        let idx = builder.add_lookup_table_from_pairs(table);
        assert_eq!(idx, k);
        let mut i = vec![];
        let mut o = vec![];
        for _ in 0..nlookups[k] {
            let x = builder.add_virtual_target();
            let y = builder.add_lookup_from_index(x, idx);
            builder.register_public_input(y);
            i.push(x);
            o.push(y);
        }
        ins.push(i);
        outs.push(o);
    }
    let data = builder.build::<C>();
    Built { data, ins, outs }
}

fn set(w: &mut PartitionWitness<F>, t: Target, v: F) {
    let rep = w.representative_map[t.index(w.num_wires, w.degree)];
    w.values[rep] = Some(v);
}

fn try_prove_verify(b: &Built, w: PartitionWitness<F>) -> String {
    let mut timing = TimingTree::default();
    let r = catch_unwind(AssertUnwindSafe(|| {
        prove_with_partition_witness(&b.data.prover_only, &b.data.common, w, &mut timing)
    }));
    match r {
        Err(_) => "REJECT(prover panicked)".into(),
        Ok(Err(e)) => format!("REJECT(prover error: {e})"),
        Ok(Ok(p)) => match b.data.verify(p) {
            Ok(()) => "ACCEPT".into(),
            Err(e) => format!("REJECT(verify: {e})"),
        },
    }
}

/// The logUp part is fully consistent (table row edited to contain the forged pair), so only the RE
/// polynomial / end selector can reject.
#[test]
fn forged_table_row_rejected_by_re() {
    for (name, tbl_len, slot_to_forge) in [
        ("first entry", 2usize, 0usize),
        ("second entry", 2, 1),
        ("padded slot", 2, 7),
        ("last slot of row", 2, 25),
        ("two-row table, top row", 30, 3),
        ("two-row table, bottom row", 30, 27),
        ("two-row table, bottom row pad", 30, 51),
    ] {
        let config = CircuitConfig::standard_recursion_config();
        let nslots = config.num_routed_wires / 2; // 40
        let nlut = config.num_routed_wires / 3; // 26
        let t: Vec<(u16, u16)> = (0..tbl_len).map(|i| (i as u16 + 1, 10 * (i as u16 + 1))).collect();
        let b = build(config, &[t.clone()], &[nslots]);
        // all lookups look input of the entry that sits in `slot_to_forge` (or entry 0 for padded slots).
        let entry = if slot_to_forge < tbl_len { slot_to_forge } else { 0 };
        let inp = t[entry].0;
        let mut pw = PartialWitness::new();
        for j in 0..nslots {
            pw.set_target(b.ins[0][j], F::from_canonical_u16(inp)).unwrap();
        }
        let mut w = generate_partial_witness(pw, &b.data.prover_only, &b.data.common).unwrap();
        // forge every output
        let forged = F::from_canonical_u16(4242);
        for j in 0..nslots {
            set(&mut w, b.outs[0][j], forged);
        }
        let lw = &b.data.prover_only.lookup_rows[0];
        if slot_to_forge < tbl_len {
            // The multiplicity will be credited (by set_lookup_wires) to this very slot: edit it in place.
            let row = lw.first_lut_gate - slot_to_forge / nlut;
            let col = slot_to_forge % nlut;
            set(&mut w, Target::wire(row, 3 * col + 1), forged);
            let res = try_prove_verify(&b, w);
            println!("[{name}] {}", res);
            assert!(res.starts_with("REJECT"));
        } else {
            // Padded slot: multiplicity of padded slot is never set by set_lookup_wires, so we can set it.
            let row = lw.first_lut_gate - slot_to_forge / nlut;
            let col = slot_to_forge % nlut;
            set(&mut w, Target::wire(row, 3 * col), F::from_canonical_u16(inp));
            set(&mut w, Target::wire(row, 3 * col + 1), forged);
            set(&mut w, Target::wire(row, 3 * col + 2), F::from_canonical_usize(nslots));
            // entry 0 gets multiplicity nslots from set_lookup_wires; cancel it with a NEGATIVE multiplicity
            // in another padded slot holding the same pair (padded slots hold entry 0).
            let other = if slot_to_forge % nlut == nlut - 1 { slot_to_forge - 1 } else { slot_to_forge + 1 };
            let row2 = lw.first_lut_gate - other / nlut;
            let col2 = other % nlut;
            set(&mut w, Target::wire(row2, 3 * col2 + 2), -F::from_canonical_usize(nslots));
            let res = try_prove_verify(&b, w);
            println!("[{name}] {}", res);
            assert!(res.starts_with("REJECT"));
            continue;
        }
    }
}

/// Sanity for the harness above: same edits but with a pair that IS in the table must be accepted
/// (negative multiplicities and all), so rejections above are due to RE and nothing else.
#[test]
fn harness_sanity_negative_multiplicity_accepted() {
    let config = CircuitConfig::standard_recursion_config();
    let nslots = config.num_routed_wires / 2;
    let t: Vec<(u16, u16)> = vec![(1, 10), (2, 20)];
    let b = build(config, &[t.clone()], &[nslots]);
    let mut pw = PartialWitness::new();
    for j in 0..nslots {
        pw.set_target(b.ins[0][j], F::from_canonical_u16(1)).unwrap();
    }
    let mut w = generate_partial_witness(pw, &b.data.prover_only, &b.data.common).unwrap();
    let lw = &b.data.prover_only.lookup_rows[0];
    // padded slot 7 holds (1,10): give it +40, padded slot 8 gets -40. Entry 0 gets 40 from set_lookup_wires.
    set(&mut w, Target::wire(lw.first_lut_gate, 3 * 7 + 2), F::from_canonical_usize(nslots));
    set(&mut w, Target::wire(lw.first_lut_gate, 3 * 8 + 2), -F::from_canonical_usize(nslots));
    let res = try_prove_verify(&b, w);
    println!("sanity: {}", res);
    assert_eq!(res, "ACCEPT");
}

/// Many tables, each with its own partially filled row; cross-table pair must be rejected for every ordered pair.
#[test]
fn many_tables_cross() {
    let config = CircuitConfig::standard_recursion_config();
    let k = 5;
    let tables: Vec<Vec<(u16, u16)>> = (0..k)
        .map(|t| (0..(3 + 20 * t)).map(|i| (i as u16, (100 * (t + 1) + i) as u16)).collect())
        .collect();
    let nl: Vec<usize> = (0..k).map(|t| 1 + 17 * t).collect();
    let b = build(config, &tables, &nl);
    // honest
    fn mk<'a>(b: &'a Built, k: usize, nl: &[usize]) -> PartitionWitness<'a, F> {
        let mut pw = PartialWitness::new();
        for t in 0..k {
            for j in 0..nl[t] {
                pw.set_target(b.ins[t][j], F::from_canonical_u16((j % 3) as u16)).unwrap();
            }
        }
        generate_partial_witness(pw, &b.data.prover_only, &b.data.common).unwrap()
    }
    let w = mk(&b, k, &nl);
    let res = try_prove_verify(&b, w);
    println!("honest many tables: {res}");
    assert_eq!(res, "ACCEPT");
    for src in 0..k {
        let dst = (src + 1) % k;
        // lookup 0 of table src outputs table dst's value for input 0
        let mut w = mk(&b, k, &nl);
        set(&mut w, b.outs[src][0], F::from_canonical_u16(tables[dst][0].1));
        let res = try_prove_verify(&b, w);
        println!("table {src} pair taken from table {dst}: {res}");
        assert!(res.starts_with("REJECT"));
    }
}

/// (input, output) both from the same table but not from the same entry; and a bare multiplicity corruption.
#[test]
fn mismatched_pair_and_multiplicity() {
    let config = CircuitConfig::standard_recursion_config();
    let t: Vec<(u16, u16)> = vec![(1, 10), (2, 20), (3, 10)];
    let b = build(config, &[t.clone()], &[2]);
    fn mk<'a>(b: &'a Built) -> PartitionWitness<'a, F> {
        let mut pw = PartialWitness::new();
        pw.set_target(b.ins[0][0], F::from_canonical_u16(1)).unwrap();
        pw.set_target(b.ins[0][1], F::from_canonical_u16(2)).unwrap();
        generate_partial_witness(pw, &b.data.prover_only, &b.data.common).unwrap()
    }
    let res = try_prove_verify(&b, mk(&b));
    assert_eq!(res, "ACCEPT");
    // swap outputs: (1,20),(2,10)
    let mut w = mk(&b);
    set(&mut w, b.outs[0][0], F::from_canonical_u16(20));
    set(&mut w, b.outs[0][1], F::from_canonical_u16(10));
    let res = try_prove_verify(&b, w);
    println!("swapped outputs within one table: {res}");
    assert!(res.starts_with("REJECT"));
    // multiplicity corruption on a padded table slot (never written by set_lookup_wires)
    let mut w = mk(&b);
    let lw = &b.data.prover_only.lookup_rows[0];
    set(&mut w, Target::wire(lw.first_lut_gate, 3 * 9 + 2), F::ONE);
    let res = try_prove_verify(&b, w);
    println!("multiplicity +1 on a padded table slot: {res}");
    assert!(res.starts_with("REJECT"));
    // garbage in the Noop row after the table and in the row before the first lookup row is harmless
    let mut w = mk(&b);
    for c in 0..80 {
        set(&mut w, Target::wire(lw.first_lut_gate + 1, c), F::from_canonical_usize(1000 + c));
    }
    let res = try_prove_verify(&b, w);
    println!("garbage wires in the Noop row after the table: {res}");
    assert_eq!(res, "ACCEPT");
}
