//! C08 audit: regression check of the repaired Sum/LDC initial-value constraint using the existing
//! adversarial-prover knob. Run with `--features verif_hooks`.
#![cfg(feature = "verif_hooks")]
use std::sync::atomic::Ordering;
use std::sync::Arc;

use plonky2::field::types::Field;
use plonky2::gates::lookup_table::LookupTable;
use plonky2::iop::generator::generate_partial_witness;
use plonky2::iop::witness::{PartialWitness, WitnessWrite};
use plonky2::plonk::circuit_builder::CircuitBuilder;
use plonky2::plonk::circuit_data::CircuitConfig;
use plonky2::plonk::config::{GenericConfig, PoseidonGoldilocksConfig};
use plonky2::plonk::prover::{prove_with_partition_witness, verif_hooks};
use plonky2::util::timing::TimingTree;

const D: usize = 2;
type C = PoseidonGoldilocksConfig;
type F = <C as GenericConfig<D>>::F;

#[test]
fn compensated_accumulator_is_rejected() {
    let mut configs = vec![("std", CircuitConfig::standard_recursion_config())];
    let mut c = CircuitConfig::standard_recursion_config();
    c.max_quotient_degree_factor = 16; // 3 SLDC polys
    c.fri_config.rate_bits = 4;
    configs.push(("qdf16", c));
    let mut c = CircuitConfig::standard_recursion_config();
    c.num_challenges = 1;
    configs.push(("1chal", c));
    for (name, config) in configs {
        for forge in [false, true] {
            let mut builder = CircuitBuilder::<F, D>::new(config.clone());
            let t0: LookupTable = Arc::new(vec![(1, 10), (2, 20)]);
            let t1: LookupTable = Arc::new((0..60).map(|i| (i, 7 * i + 1)).collect());
            let i0 = builder.add_lookup_table_from_pairs(t0);
            let i1 = builder.add_lookup_table_from_pairs(t1);
            let x = builder.add_virtual_target();
            let y = builder.add_lookup_from_index(x, i0);
            let x1 = builder.add_virtual_target();
            let y1 = builder.add_lookup_from_index(x1, i1);
            builder.register_public_input(y);
            builder.register_public_input(y1);
            let data = builder.build::<C>();
            let mut pw = PartialWitness::new();
            pw.set_target(x, F::ONE).unwrap();
            pw.set_target(x1, F::TWO).unwrap();
            let mut w = generate_partial_witness(pw, &data.prover_only, &data.common).unwrap();
            if forge {
                for t in [y, y1] {
                    let rep = w.representative_map[t.index(w.num_wires, w.degree)];
                    w.values[rep] = Some(F::from_canonical_u16(4242));
                }
            }
            verif_hooks::SLDC_COMPENSATE.store(true, Ordering::Relaxed);
            let mut timing = TimingTree::default();
            let p = prove_with_partition_witness(&data.prover_only, &data.common, w, &mut timing).unwrap();
            verif_hooks::SLDC_COMPENSATE.store(false, Ordering::Relaxed);
            let res = data.verify(p);
            println!("[{name}] forge={forge}: {}", if res.is_ok() { "ACCEPT" } else { "REJECT" });
            assert_eq!(res.is_ok(), !forge);
        }
    }
}
