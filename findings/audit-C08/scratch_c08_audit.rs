//! C08 audit scratch tests.
use std::panic::{catch_unwind, AssertUnwindSafe};
use std::sync::Arc;

use plonky2::field::types::Field;
use plonky2::gates::lookup_table::LookupTable;
use plonky2::iop::generator::generate_partial_witness;
use plonky2::iop::target::Target;
use plonky2::iop::witness::{PartialWitness, WitnessWrite};
use plonky2::plonk::circuit_builder::CircuitBuilder;
use plonky2::plonk::circuit_data::{CircuitConfig, CircuitData};
use plonky2::plonk::config::{GenericConfig, PoseidonGoldilocksConfig};
use plonky2::plonk::prover::prove_with_partition_witness;
use plonky2::util::timing::TimingTree;

const D: usize = 2;
type C = PoseidonGoldilocksConfig;
type F = <C as GenericConfig<D>>::F;

struct Built {
    data: CircuitData<F, C, D>,
    ins: Vec<Vec<Target>>,
    outs: Vec<Vec<Target>>,
}

/// tables[k] = pairs; lookups[k] = number of lookups into table k. Outputs are registered as public inputs.
fn build(config: CircuitConfig, tables: &[Vec<(u16, u16)>], nlookups: &[usize]) -> Built {
    let mut builder = CircuitBuilder::<F, D>::new(config);
    let mut ins = vec![];
    let mut outs = vec![];
    for (k, t) in tables.iter().enumerate() {
        let table: LookupTable = Arc::new(t.clone());
        let idx = builder.add_lookup_table_from_pairs(table);
        assert_eq!(idx, k);
        let mut i = vec![];
        let mut o = vec![];
        for _ in 0..nlookups[k] {
            let x = builder.add_virtual_target();
            let y = builder.add_lookup_from_index(x, idx);
            builder.register_public_input(y);
            i.push(x);
            o.push(y);
        }
        ins.push(i);
        outs.push(o);
    }
    let data = builder.build::<C>();
    Built { data, ins, outs }
}

fn honest(b: &Built, vals: &[Vec<u16>]) -> Result<Vec<F>, String> {
    let mut pw = PartialWitness::new();
    for (k, v) in vals.iter().enumerate() {
        for (j, x) in v.iter().enumerate() {
            pw.set_target(b.ins[k][j], F::from_canonical_u16(*x)).unwrap();
        }
    }
    let r = catch_unwind(AssertUnwindSafe(|| b.data.prove(pw)));
    match r {
        Err(_) => Err("prover panicked".into()),
        Ok(Err(e)) => Err(format!("prover error: {e}")),
        Ok(Ok(proof)) => {
            let pis = proof.public_inputs.clone();
            match b.data.verify(proof) {
                Ok(()) => Ok(pis),
                Err(e) => Err(format!("verify error: {e}")),
            }
        }
    }
}

#[test]
fn duplicate_input_table() {
    // Non-functional table: the same input with two different outputs.
    let config = CircuitConfig::standard_recursion_config();
    let t = vec![(5u16, 1u16), (5, 2), (9, 3)];
    let b = build(config, &[t], &[1]);
    let r = honest(&b, &[vec![5]]);
    println!("duplicate_input_table lookup 5 -> {:?}", r);
    let r = honest(&b, &[vec![9]]);
    println!("duplicate_input_table lookup 9 -> {:?}", r);
}

#[test]
fn duplicate_pair_table() {
    let config = CircuitConfig::standard_recursion_config();
    let t = vec![(5u16, 1u16), (5, 1), (9, 3), (5, 1)];
    let b = build(config, &[t], &[3]);
    let r = honest(&b, &[vec![5, 5, 9]]);
    println!("duplicate_pair_table -> {:?}", r);
    assert!(r.is_ok());
}

fn table_fn(seed: u32, n: usize) -> Vec<(u16, u16)> {
    // distinct inputs, arbitrary outputs with duplicates
    (0..n)
        .map(|i| {
            let inp = ((i as u32 * 7919 + seed * 31) % 65536) as u16;
            let out = ((i as u32 * i as u32 + seed) % 5) as u16 * 1000;
            (inp, out)
        })
        .collect::<std::collections::BTreeMap<_, _>>()
        .into_iter()
        .collect()
}

#[test]
fn completeness_sweep() {
    let mut configs = vec![("std", CircuitConfig::standard_recursion_config())];
    configs.push(("zk", CircuitConfig::standard_recursion_zk_config()));
    let mut c1 = CircuitConfig::standard_recursion_config();
    c1.num_challenges = 1;
    configs.push(("1chal", c1));
    let mut c3 = CircuitConfig::standard_recursion_config();
    c3.num_challenges = 3;
    configs.push(("3chal", c3));
    let mut cq = CircuitConfig::standard_recursion_config();
    cq.max_quotient_degree_factor = 16;
    cq.fri_config.rate_bits = 4;
    configs.push(("qdf16", cq));
    let mut cw = CircuitConfig::standard_recursion_config();
    cw.num_routed_wires = 61;
    configs.push(("routed61", cw));

    for (name, config) in configs {
        let nslots = config.num_routed_wires / 2;
        let nlut = config.num_routed_wires / 3;
        let cases: Vec<(Vec<usize>, Vec<usize>)> = vec![
            (vec![1], vec![1]),
            (vec![1], vec![nslots]),
            (vec![nlut], vec![nslots * 2]),
            (vec![nlut + 1], vec![nslots + 1]),
            (vec![3 * nlut, 1, 2 * nlut - 1], vec![nslots - 1, 2 * nslots, 3]),
        ];
        for (sizes, nl) in cases {
            let tables: Vec<Vec<(u16, u16)>> = sizes
                .iter()
                .enumerate()
                .map(|(k, s)| table_fn(k as u32 + 1, *s))
                .collect();
            let b = build(config.clone(), &tables, &nl);
            // heavy repetition on entry 0 and last entry
            let vals: Vec<Vec<u16>> = tables
                .iter()
                .zip(&nl)
                .map(|(t, n)| {
                    (0..*n)
                        .map(|j| if j % 3 == 0 { t[t.len() - 1].0 } else { t[(j * j) % t.len()].0 })
                        .collect()
                })
                .collect();
            let r = honest(&b, &vals);
            match &r {
                Ok(pis) => {
                    // check outputs
                    let mut idx = 0;
                    for (k, v) in vals.iter().enumerate() {
                        for x in v {
                            let want = tables[k].iter().find(|p| p.0 == *x).unwrap().1;
                            assert_eq!(pis[idx], F::from_canonical_u16(want));
                            idx += 1;
                        }
                    }
                    println!("[{name}] sizes {:?} lookups {:?}: OK", sizes, nl);
                }
                Err(e) => {
                    println!("[{name}] sizes {:?} lookups {:?}: FAIL {e}", sizes, nl);
                    panic!("completeness failure");
                }
            }
        }
    }
}

/// Adversarial: overwrite a looked-up output with an entry of the OTHER table and fix the multiplicities by hand.
#[test]
fn cross_table_forgery_rejected() {
    let config = CircuitConfig::standard_recursion_config();
    let t0 = vec![(1u16, 10u16), (2, 20)];
    let t1 = vec![(1u16, 11u16), (2, 21)];
    let b = build(config, &[t0, t1], &[1, 1]);
    let mut pw = PartialWitness::new();
    pw.set_target(b.ins[0][0], F::from_canonical_u16(1)).unwrap();
    pw.set_target(b.ins[1][0], F::from_canonical_u16(1)).unwrap();
    let mut w = generate_partial_witness(pw, &b.data.prover_only, &b.data.common).unwrap();
    // out of lookup 0 in table 0 := 11 (entry of table 1)
    let rep = w.representative_map[b.outs[0][0].index(w.num_wires, w.degree)];
    w.values[rep] = Some(F::from_canonical_u16(11));
    let mut timing = TimingTree::default();
    let r = catch_unwind(AssertUnwindSafe(|| {
        prove_with_partition_witness(&b.data.prover_only, &b.data.common, w, &mut timing)
    }));
    match r {
        Err(_) => println!("prover panicked (good)"),
        Ok(Err(e)) => println!("prover error (good): {e}"),
        Ok(Ok(p)) => {
            let v = b.data.verify(p);
            println!("verify: {:?}", v);
            assert!(v.is_err());
        }
    }
}
