//! finding1 demo: an honest proof is REJECTED when a lookup table lists the same input twice with
//! different outputs (LookupGenerator takes one entry, set_lookup_wires credits the other one).
//!
//! Copy to plonky2/tests/finding1_demo.rs and run (unmodified worktree):
//!   cargo test --offline --release -p plonky2 --test finding1_demo -- --nocapture
use std::sync::Arc;

use plonky2::field::types::Field;
use plonky2::gates::lookup_table::LookupTable;
use plonky2::iop::witness::{PartialWitness, WitnessWrite};
use plonky2::plonk::circuit_builder::CircuitBuilder;
use plonky2::plonk::circuit_data::CircuitConfig;
use plonky2::plonk::config::{GenericConfig, PoseidonGoldilocksConfig};

const D: usize = 2;
type C = PoseidonGoldilocksConfig;
type F = <C as GenericConfig<D>>::F;

fn run(table: Vec<(u16, u16)>, input: u16) -> Result<Vec<F>, String> {
    let mut builder = CircuitBuilder::<F, D>::new(CircuitConfig::standard_recursion_config());
    let lut: LookupTable = Arc::new(table);
    let idx = builder.add_lookup_table_from_pairs(lut);
    let x = builder.add_virtual_target();
    let y = builder.add_lookup_from_index(x, idx);
    builder.register_public_input(y);
    let data = builder.build::<C>();
    let mut pw = PartialWitness::new();
    pw.set_target(x, F::from_canonical_u16(input)).unwrap();
    let proof = data.prove(pw).map_err(|e| format!("prove: {e}"))?;
    let pis = proof.public_inputs.clone();
    data.verify(proof).map_err(|e| format!("verify: {e}"))?;
    Ok(pis)
}

#[test]
fn duplicate_input_table_honest_proof_rejected() {
    // input 5 IS an entry of the table (twice, with outputs 1 and 2).
    let t = vec![(5u16, 1u16), (5, 2), (9, 3)];
    let ok = run(t.clone(), 9);
    println!("lookup of 9 in {:?}: {:?}", t, ok);
    assert!(ok.is_ok());
    let bad = run(t.clone(), 5);
    println!("lookup of 5 in {:?}: {:?}", t, bad);
    // The honest prover's own proof does not verify.
    assert!(bad.is_err(), "expected the known defect");

    // Same table in the other order happens to work only through the generator's index fast path:
    // [(1,7),(1,8)]: input 1 < len and lut[1].0 == 1, so the generator takes entry #1 = (1,8), which is
    // also the entry set_lookup_wires credits (last occurrence).
    let t2 = vec![(1u16, 7u16), (1, 8)];
    println!("lookup of 1 in {:?}: {:?}", t2, run(t2.clone(), 1));
    // A repeated identical pair is fine.
    let t3 = vec![(5u16, 1u16), (5, 1), (9, 3)];
    let r3 = run(t3.clone(), 5);
    println!("lookup of 5 in {:?}: {:?}", t3, r3);
    assert!(r3.is_ok());
}
