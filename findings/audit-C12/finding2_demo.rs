//! C12 finding 2 (low severity, malleability only): `decompress_merkle_proofs` never checks that
//! the compressed sibling lists are fully consumed, and `CompressedFriProof::decompress` never
//! checks that the index -> proof maps contain only queried indices, nor reads
//! `CompressedFriQueryRounds::indices`. A compressed proof can therefore be padded with arbitrary
//! extra siblings / extra map entries / a bogus `indices` vector and still verifies, and
//! decompresses to the SAME proof as the untouched one.
//!
//! Run: cargo test --offline --release -p plonky2 --test c12_finding2_demo -- --nocapture

use plonky2::field::types::{Field, Sample};
use plonky2::hash::hash_types::HashOut;
use plonky2::iop::witness::{PartialWitness, WitnessWrite};
use plonky2::plonk::circuit_builder::CircuitBuilder;
use plonky2::plonk::circuit_data::CircuitConfig;
use plonky2::plonk::config::{GenericConfig, PoseidonGoldilocksConfig};

const D: usize = 2;
type C = PoseidonGoldilocksConfig;
type F = <C as GenericConfig<D>>::F;

#[test]
fn compressed_proof_with_junk_siblings_is_accepted() {
    let config = CircuitConfig::standard_recursion_config();
    let mut builder = CircuitBuilder::<F, D>::new(config);
    let x = builder.add_virtual_target();
    let mut y = x;
    for _ in 0..200 {
        y = builder.mul(y, x);
    }
    builder.register_public_input(x);
    builder.register_public_input(y);
    let data = builder.build::<C>();
    let mut pw = PartialWitness::new();
    pw.set_target(x, F::from_canonical_u64(3)).unwrap();
    let proof = data.prove(pw).unwrap();
    data.verify(proof.clone()).unwrap();

    let compressed = data.compress(proof.clone()).unwrap();
    data.verify_compressed(compressed.clone()).unwrap();

    let mut mangled = compressed.clone();
    let qr = &mut mangled.proof.opening_proof.query_round_proofs;
    let junk = || HashOut::<F> {
        elements: [F::rand(), F::rand(), F::rand(), F::rand()],
    };

    // (a) append junk siblings to EVERY compressed Merkle proof (initial trees and FRI steps)
    let mut added = 0;
    for itp in qr.initial_trees_proofs.values_mut() {
        for (_, mp) in itp.evals_proofs.iter_mut() {
            mp.siblings.push(junk());
            mp.siblings.push(junk());
            added += 2;
        }
    }
    for step in qr.steps.iter_mut() {
        for qs in step.values_mut() {
            qs.merkle_proof.siblings.push(junk());
            added += 1;
        }
    }
    // (b) add an entry for an index that was never queried
    let some = qr.initial_trees_proofs.values().next().unwrap().clone();
    let unused_index = (0..usize::MAX)
        .find(|i| !qr.initial_trees_proofs.contains_key(i))
        .unwrap();
    qr.initial_trees_proofs.insert(unused_index, some);
    // (c) the `indices` field is never read by the verifier
    qr.indices = vec![0xdead_beef; 3];

    assert_ne!(mangled, compressed);
    let res = data.verify_compressed(mangled.clone());
    println!("junk siblings appended: {added}; extra map entry at index {unused_index}; indices overwritten");
    println!("verify_compressed(mangled) = {res:?}");
    assert!(res.is_ok());
    // and it decompresses to exactly the honest proof
    assert_eq!(data.decompress(mangled).unwrap(), proof);
    println!("mangled compressed proof ACCEPTED and decompresses to the honest proof");

    // Control: altering a sibling that IS consumed is rejected.
    let mut bad = compressed.clone();
    let qr = &mut bad.proof.opening_proof.query_round_proofs;
    let mut done = false;
    for itp in qr.initial_trees_proofs.values_mut() {
        if let Some(s) = itp.evals_proofs[0].1.siblings.first_mut() {
            s.elements[0] += F::ONE;
            done = true;
            break;
        }
    }
    assert!(done);
    assert!(data.verify_compressed(bad).is_err());
    println!("control: altering a consumed sibling is rejected");
}
