//! C12 audit (ruled-out candidate): exhaustive round trip of the path compression on all index
//! sequences. `compress_merkle_proofs` / `decompress_merkle_proofs` are pub(crate), so the two
//! functions below are VERBATIM copies of plonky2/src/hash/path_compression.rs (only `pub(crate)` removed).
//! Run: cargo test --offline --release -p plonky2 --test c12_pathcomp -- --nocapture

use std::collections::HashMap;

use num::Integer;
use plonky2::field::goldilocks_field::GoldilocksField;
use plonky2::field::types::Sample;
use plonky2::hash::hash_types::RichField;
use plonky2::hash::keccak::KeccakHash;
use plonky2::hash::merkle_proofs::MerkleProof;
use plonky2::hash::merkle_tree::MerkleTree;
use plonky2::hash::poseidon::PoseidonHash;
use plonky2::plonk::config::Hasher;

type F = GoldilocksField;

/// Compress multiple Merkle proofs on the same tree by removing redundancy in the Merkle paths.
fn compress_merkle_proofs<F: RichField, H: Hasher<F>>(
    cap_height: usize,
    indices: &[usize],
    proofs: &[MerkleProof<F, H>],
) -> Vec<MerkleProof<F, H>> {
    assert!(!proofs.is_empty());
    let height = cap_height + proofs[0].siblings.len();
    let num_leaves = 1 << height;
    let mut compressed_proofs = Vec::with_capacity(proofs.len());
    // Holds the known nodes in the tree at a given time. The root is at index 1.
    // Valid indices are 1 through n, and each element at index `i` has
    // children at indices `2i` and `2i +1` its parent at index `floor(i ∕ 2)`.
    let mut known = vec![false; 2 * num_leaves];
    for &i in indices {
        // The path from a leaf to the cap is known.
        for j in 0..(height - cap_height) {
            known[(i + num_leaves) >> j] = true;
        }
    }
    // For each proof collect all the unknown proof elements.
    for (&i, p) in indices.iter().zip(proofs) {
        let mut compressed_proof = MerkleProof {
            siblings: Vec::new(),
        };
        let mut index = i + num_leaves;
        for &sibling in &p.siblings {
            let sibling_index = index ^ 1;
            if !known[sibling_index] {
                // If the sibling is not yet known, add it to the proof and set it to known.
                compressed_proof.siblings.push(sibling);
                known[sibling_index] = true;
            }
            // Go up the tree and set the parent to known.
            index >>= 1;
            known[index] = true;
        }
        compressed_proofs.push(compressed_proof);
    }

    compressed_proofs
}

/// Decompress compressed Merkle proofs.
/// Note: The data and indices must be in the same order as in `compress_merkle_proofs`.
fn decompress_merkle_proofs<F: RichField, H: Hasher<F>>(
    leaves_data: &[Vec<F>],
    leaves_indices: &[usize],
    compressed_proofs: &[MerkleProof<F, H>],
    height: usize,
    cap_height: usize,
) -> Vec<MerkleProof<F, H>> {
    let num_leaves = 1 << height;
    let compressed_proofs = compressed_proofs.to_vec();
    let mut decompressed_proofs = Vec::with_capacity(compressed_proofs.len());
    // Holds the already seen nodes in the tree along with their value.
    let mut seen = HashMap::new();

    for (&i, v) in leaves_indices.iter().zip(leaves_data) {
        // Observe the leaves.
        seen.insert(i + num_leaves, H::hash_or_noop(v));
    }

    // Iterators over the siblings.
    let mut siblings = compressed_proofs
        .iter()
        .map(|p| p.siblings.iter())
        .collect::<Vec<_>>();
    // Fill the `seen` map from the bottom of the tree to the cap.
    for layer_height in 0..height - cap_height {
        for (&i, p) in leaves_indices.iter().zip(siblings.iter_mut()) {
            let index = (i + num_leaves) >> layer_height;
            let current_hash = seen[&index];
            let sibling_index = index ^ 1;
            let sibling_hash = *seen
                .entry(sibling_index)
                .or_insert_with(|| *p.next().unwrap());
            let parent_hash = if index.is_even() {
                H::two_to_one(current_hash, sibling_hash)
            } else {
                H::two_to_one(sibling_hash, current_hash)
            };
            seen.insert(index >> 1, parent_hash);
        }
    }
    // For every index, go up the tree by querying `seen` to get node values.
    for &i in leaves_indices {
        let mut decompressed_proof = MerkleProof {
            siblings: Vec::new(),
        };
        let mut index = i + num_leaves;
        for _ in 0..height - cap_height {
            let sibling_index = index ^ 1;
            let h = seen[&sibling_index];
            decompressed_proof.siblings.push(h);
            index >>= 1;
        }

        decompressed_proofs.push(decompressed_proof);
    }

    decompressed_proofs
}


/// Number of siblings decompress consumes from each compressed proof = what compress emitted
/// (checked indirectly: dropping the last sibling of any non-empty compressed proof must panic,
/// i.e. every emitted sibling is consumed).
fn roundtrip<H: Hasher<F>>(h: usize, cap_height: usize, w: usize, indices: &[usize], tree: &MerkleTree<F, H>) {
    let _ = w;
    let proofs: Vec<_> = indices.iter().map(|&i| tree.prove(i)).collect();
    let comp = compress_merkle_proofs(cap_height, indices, &proofs);
    let data: Vec<Vec<F>> = indices.iter().map(|&i| tree.leaves[i].clone()).collect();
    let dec = decompress_merkle_proofs(&data, indices, &comp, h, cap_height);
    assert_eq!(dec, proofs, "h={h} cap={cap_height} idx={indices:?}");
    for (k, c) in comp.iter().enumerate() {
        if !c.siblings.is_empty() {
            let mut short = comp.clone();
            short[k].siblings.pop();
            let r = std::panic::catch_unwind(std::panic::AssertUnwindSafe(|| {
                decompress_merkle_proofs(&data, indices, &short, h, cap_height)
            }));
            assert!(r.is_err(), "a compressed sibling was not consumed");
        }
    }
}

fn all<H: Hasher<F>>(name: &str) {
    std::panic::set_hook(Box::new(|_| {}));
    let mut n = 0usize;
    for h in 0..=3usize {
        for w in [1usize, 4, 9] {
            let leaves: Vec<Vec<F>> = (0..1 << h).map(|_| F::rand_vec(w)).collect();
            for cap_height in 0..=h {
                let tree = MerkleTree::<F, H>::new(leaves.clone(), cap_height);
                let nl = 1usize << h;
                for len in 1..=4u32 {
                    for code in 0..nl.pow(len) {
                        let mut c = code;
                        let idx: Vec<usize> = (0..len).map(|_| { let d = c % nl; c /= nl; d }).collect();
                        roundtrip::<H>(h, cap_height, w, &idx, &tree);
                        n += 1;
                    }
                }
            }
        }
    }
    // random longer multisets on a taller tree
    use rand::Rng;
    let mut rng = rand::rngs::OsRng;
    let h = 6;
    let leaves: Vec<Vec<F>> = (0..1 << h).map(|_| F::rand_vec(5)).collect();
    for cap_height in 0..=h {
        let tree = MerkleTree::<F, H>::new(leaves.clone(), cap_height);
        for _ in 0..300 {
            let len = rng.gen_range(1..100);
            let idx: Vec<usize> = (0..len).map(|_| rng.gen_range(0..1 << h)).collect();
            roundtrip::<H>(h, cap_height, 5, &idx, &tree);
            n += 1;
        }
    }
    let _ = std::panic::take_hook();
    println!("{name}: {n} index sequences round-tripped, every emitted sibling consumed");
}

#[test]
fn pathcomp_poseidon() { all::<PoseidonHash>("poseidon"); }
#[test]
fn pathcomp_keccak() { all::<KeccakHash<25>>("keccak25"); }
