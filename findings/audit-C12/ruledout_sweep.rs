//! C12 audit: exhaustive sweep of the Merkle property on small parameters.
//! Run: cargo test --offline --release -p plonky2 --test c12_sweep -- --nocapture

use plonky2::field::goldilocks_field::GoldilocksField;
use plonky2::field::types::{Field, Sample};
use plonky2::hash::batch_merkle_tree::BatchMerkleTree;
use plonky2::hash::hash_types::RichField;
use plonky2::hash::keccak::KeccakHash;
use plonky2::hash::merkle_proofs::{
    verify_batch_merkle_proof_to_cap, verify_merkle_proof_to_cap, MerkleProof,
};
use plonky2::hash::merkle_tree::{MerkleCap, MerkleTree};
use plonky2::hash::poseidon::PoseidonHash;
use plonky2::plonk::config::{GenericHashOut, Hasher};
use plonky2_maybe_rayon::rayon;

type F = GoldilocksField;

fn naive_cap<H: Hasher<F>>(leaves: &[Vec<F>], cap_height: usize) -> Vec<H::Hash> {
    let mut layer: Vec<H::Hash> = leaves.iter().map(|l| H::hash_or_noop(l)).collect();
    while layer.len() > (1 << cap_height) {
        layer = layer
            .chunks(2)
            .map(|c| H::two_to_one(c[0], c[1]))
            .collect();
    }
    layer
}

fn catch<T>(f: impl FnOnce() -> anyhow::Result<T>) -> bool {
    // true = accepted
    matches!(
        std::panic::catch_unwind(std::panic::AssertUnwindSafe(f)),
        Ok(Ok(_))
    )
}

fn sweep<H: Hasher<F>>(name: &str, mutate_hash: impl Fn(H::Hash) -> H::Hash + Copy) {
    let widths = [0usize, 1, 2, 3, 4, 5, 7, 8, 9, 16, 17];
    let mut checks = 0usize;
    for k in 0..=5usize {
        let n = 1 << k;
        for &w in &widths {
            let leaves: Vec<Vec<F>> = (0..n).map(|_| F::rand_vec(w)).collect();
            for cap_height in 0..=k {
                let mut caps = vec![];
                for threads in [1usize, 2, 3, 8] {
                    let pool = rayon::ThreadPoolBuilder::new()
                        .num_threads(threads)
                        .build()
                        .unwrap();
                    let tree =
                        pool.install(|| MerkleTree::<F, H>::new(leaves.clone(), cap_height));
                    caps.push(tree.cap.clone());
                }
                let tree = MerkleTree::<F, H>::new(leaves.clone(), cap_height);
                let expect = naive_cap::<H>(&leaves, cap_height);
                assert_eq!(tree.cap.0, expect, "{name} cap k={k} w={w} h={cap_height}");
                for c in &caps {
                    assert_eq!(c.0, expect);
                }
                for i in 0..n {
                    let proof = tree.prove(i);
                    assert_eq!(proof.siblings.len(), k - cap_height);
                    assert!(
                        verify_merkle_proof_to_cap(leaves[i].clone(), i, &tree.cap, &proof)
                            .is_ok(),
                        "{name} honest k={k} w={w} h={cap_height} i={i}"
                    );
                    checks += 1;
                    // other positions
                    for j in 0..n {
                        if j == i || leaves[j] == leaves[i] {
                            continue;
                        }
                        let (l, c, p) = (leaves[i].clone(), tree.cap.clone(), proof.clone());
                        assert!(
                            !catch(move || verify_merkle_proof_to_cap(l, j, &c, &p)),
                            "{name} other position accepted k={k} w={w} h={cap_height} i={i} j={j}"
                        );
                        // other leaf at this position
                        let (l, c, p) = (leaves[j].clone(), tree.cap.clone(), proof.clone());
                        assert!(
                            !catch(move || verify_merkle_proof_to_cap(l, i, &c, &p)),
                            "{name} other leaf accepted"
                        );
                    }
                    if w > 0 {
                        for pos in 0..w {
                            let mut l = leaves[i].clone();
                            l[pos] += F::ONE;
                            let (c, p) = (tree.cap.clone(), proof.clone());
                            assert!(!catch(move || verify_merkle_proof_to_cap(l, i, &c, &p)));
                        }
                    }
                    // altered sibling
                    for s in 0..proof.siblings.len() {
                        let mut p = proof.clone();
                        p.siblings[s] = mutate_hash(p.siblings[s]);
                        let (l, c) = (leaves[i].clone(), tree.cap.clone());
                        assert!(!catch(move || verify_merkle_proof_to_cap(l, i, &c, &p)));
                    }
                    // altered cap entry (the one used)
                    let mut c = tree.cap.clone();
                    let ci = i >> (k - cap_height);
                    c.0[ci] = mutate_hash(c.0[ci]);
                    let (l, p) = (leaves[i].clone(), proof.clone());
                    assert!(!catch(move || verify_merkle_proof_to_cap(l, i, &c, &p)));
                }
            }
        }
    }
    println!("{name}: {checks} honest openings checked, all negatives rejected");
}

#[test]
fn sweep_poseidon() {
    sweep::<PoseidonHash>("poseidon", |mut h| {
        h.elements[2] += F::ONE;
        h
    });
}

#[test]
fn sweep_keccak() {
    sweep::<KeccakHash<25>>("keccak25", |mut h| {
        h.0[24] ^= 1;
        h
    });
}

fn naive_batch_cap<H: Hasher<F>>(mats: &[Vec<Vec<F>>], cap_height: usize) -> Vec<H::Hash> {
    let mut layer: Vec<H::Hash> = mats[0].iter().map(|l| H::hash_or_noop(l)).collect();
    let mut next = 1;
    loop {
        if next < mats.len() && mats[next].len() == layer.len() {
            layer = layer
                .iter()
                .zip(&mats[next])
                .map(|(d, row)| {
                    let mut v = d.to_vec();
                    v.extend_from_slice(row);
                    H::hash_or_noop(&v)
                })
                .collect();
            next += 1;
        }
        if layer.len() == 1 << cap_height {
            break;
        }
        layer = layer
            .chunks(2)
            .map(|c| H::two_to_one(c[0], c[1]))
            .collect();
    }
    assert_eq!(next, mats.len());
    layer
}

fn batch_sweep<H: Hasher<F>>(name: &str, mutate_hash: impl Fn(H::Hash) -> H::Hash + Copy) {
    let mut checks = 0;
    let widths = [0usize, 1, 3, 4, 5, 8, 9];
    // all strictly decreasing height sequences with top <= 4
    for mask in 1u32..32 {
        let heights: Vec<usize> = (0..5).rev().filter(|b| mask >> b & 1 == 1).collect();
        for (wi, _) in widths.iter().enumerate() {
            let mats: Vec<Vec<Vec<F>>> = heights
                .iter()
                .enumerate()
                .map(|(m, &h)| {
                    let w = widths[(wi + 3 * m) % widths.len()];
                    (0..1 << h).map(|_| F::rand_vec(w)).collect()
                })
                .collect();
            let min_h = *heights.last().unwrap();
            for cap_height in 0..=min_h {
                let tree = BatchMerkleTree::<F, H>::new(mats.clone(), cap_height);
                assert_eq!(tree.leaf_heights, heights);
                assert_eq!(tree.cap.0, naive_batch_cap::<H>(&mats, cap_height));
                for threads in [1usize, 3] {
                    let pool = rayon::ThreadPoolBuilder::new()
                        .num_threads(threads)
                        .build()
                        .unwrap();
                    let t2 =
                        pool.install(|| BatchMerkleTree::<F, H>::new(mats.clone(), cap_height));
                    assert_eq!(t2.cap, tree.cap);
                    assert_eq!(t2.digests, tree.digests);
                }
                let n = 1 << heights[0];
                for i in 0..n {
                    let proof = tree.open_batch(i);
                    let vals = tree.values(i);
                    assert_eq!(proof.siblings.len(), heights[0] - cap_height);
                    assert!(verify_batch_merkle_proof_to_cap(
                        &vals, &heights, i, &tree.cap, &proof
                    )
                    .is_ok());
                    checks += 1;
                    for j in 0..n {
                        if j == i {
                            continue;
                        }
                        if tree.values(j) != vals {
                            let (v, hs, c, p) =
                                (vals.clone(), heights.clone(), tree.cap.clone(), proof.clone());
                            // other position: only meaningful if path differs at a level that matters
                            let accepted = catch(move || {
                                verify_batch_merkle_proof_to_cap(&v, &hs, j, &c, &p)
                            });
                            assert!(!accepted, "{name} batch other pos accepted {heights:?} cap={cap_height} i={i} j={j}");
                            let (v, hs, c, p) = (
                                tree.values(j),
                                heights.clone(),
                                tree.cap.clone(),
                                proof.clone(),
                            );
                            let accepted = catch(move || {
                                verify_batch_merkle_proof_to_cap(&v, &hs, i, &c, &p)
                            });
                            assert!(!accepted, "{name} batch other leaf accepted");
                        }
                    }
                    for m in 0..vals.len() {
                        for pos in 0..vals[m].len() {
                            let mut v = vals.clone();
                            v[m][pos] += F::ONE;
                            let (hs, c, p) = (heights.clone(), tree.cap.clone(), proof.clone());
                            assert!(!catch(move || verify_batch_merkle_proof_to_cap(
                                &v, &hs, i, &c, &p
                            )));
                        }
                    }
                    for s in 0..proof.siblings.len() {
                        let mut p = proof.clone();
                        p.siblings[s] = mutate_hash(p.siblings[s]);
                        let (v, hs, c) = (vals.clone(), heights.clone(), tree.cap.clone());
                        assert!(!catch(move || verify_batch_merkle_proof_to_cap(
                            &v, &hs, i, &c, &p
                        )));
                    }
                    let mut c = tree.cap.clone();
                    let ci = i >> (heights[0] - cap_height);
                    c.0[ci] = mutate_hash(c.0[ci]);
                    let (v, hs, p) = (vals.clone(), heights.clone(), proof.clone());
                    assert!(!catch(move || verify_batch_merkle_proof_to_cap(
                        &v, &hs, i, &c, &p
                    )));
                }
            }
        }
    }
    println!("{name}: {checks} honest batch openings checked, all negatives rejected");
}

#[test]
fn batch_sweep_poseidon() {
    batch_sweep::<PoseidonHash>("poseidon", |mut h| {
        h.elements[0] += F::ONE;
        h
    });
}

#[test]
fn batch_sweep_keccak() {
    batch_sweep::<KeccakHash<25>>("keccak25", |mut h| {
        h.0[0] ^= 0x80;
        h
    });
}

#[allow(dead_code)]
fn unused<Fq: RichField, H: Hasher<Fq>>(_: MerkleCap<Fq, H>, _: MerkleProof<Fq, H>) {}
