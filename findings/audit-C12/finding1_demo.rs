//! C12 finding 1: `verify_merkle_proof_to_cap` / `verify_batch_merkle_proof_to_cap` take the depth
//! of the opened position from `proof.siblings.len()` and there is no leaf / inner-node domain
//! separation, so an INNER NODE of the committed tree opens as a "leaf" of the committed width.
//!
//! Run (from the workspace root):
//!   cargo test --offline --release -p plonky2 --test c12_finding1_demo -- --nocapture

use plonky2::field::goldilocks_field::GoldilocksField;
use plonky2::field::types::{Field, Field64, PrimeField64, Sample};
use plonky2::hash::batch_merkle_tree::BatchMerkleTree;
use plonky2::hash::keccak::KeccakHash;
use plonky2::hash::merkle_proofs::{
    verify_batch_merkle_proof_to_cap, verify_merkle_proof, verify_merkle_proof_to_cap, MerkleProof,
};
use plonky2::hash::merkle_tree::MerkleTree;
use plonky2::hash::poseidon::PoseidonHash;
use plonky2::plonk::config::{GenericHashOut, Hasher};

type F = GoldilocksField;

/// Poseidon, leaves of width 4 (<= digest, used verbatim by `hash_or_noop`): every inner node
/// digest is itself a valid width-4 leaf.
#[test]
fn poseidon_width4_inner_node_opens_as_leaf() {
    type H = PoseidonHash;
    let k = 5;
    for cap_height in 0..=3 {
        let leaves: Vec<Vec<F>> = (0..1 << k).map(|_| F::rand_vec(4)).collect();
        let tree = MerkleTree::<F, H>::new(leaves.clone(), cap_height);
        for i in 0..1 << k {
            let honest = tree.prove(i);
            verify_merkle_proof_to_cap(leaves[i].clone(), i, &tree.cap, &honest).unwrap();

            // forged opening: the parent of leaves (i & !1, i | 1), as a width-4 "leaf" at position i >> 1
            let l = H::hash_or_noop(&leaves[i & !1]);
            let r = H::hash_or_noop(&leaves[i | 1]);
            let forged_leaf: Vec<F> = H::two_to_one(l, r).to_vec();
            assert_eq!(forged_leaf.len(), 4);
            let pos = i >> 1;
            assert!(leaves.iter().all(|x| *x != forged_leaf)); // not a committed leaf at all
            let forged_proof = MerkleProof::<F, H> {
                siblings: honest.siblings[1..].to_vec(),
            };
            let res = verify_merkle_proof_to_cap(forged_leaf, pos, &tree.cap, &forged_proof);
            assert!(res.is_ok());
        }
        println!(
            "poseidon w=4 k={k} cap_height={cap_height}: non-committed width-4 leaf ACCEPTED at every position 0..{}",
            1 << (k - 1)
        );
    }

    // Also two levels up, against a plain root.
    let leaves: Vec<Vec<F>> = (0..8).map(|_| F::rand_vec(4)).collect();
    let tree = MerkleTree::<F, H>::new(leaves.clone(), 0);
    let h = |i: usize| H::hash_or_noop(&leaves[i]);
    let n01 = H::two_to_one(h(0), h(1));
    let n23 = H::two_to_one(h(2), h(3));
    let n = H::two_to_one(n01, n23);
    let p = MerkleProof::<F, H> {
        siblings: tree.prove(0).siblings[2..].to_vec(),
    };
    assert!(verify_merkle_proof::<F, H>(n.to_vec(), 0, tree.cap.0[0], &p).is_ok());
    println!("poseidon w=4: grand-parent node ACCEPTED as leaf 0 by verify_merkle_proof (root)");
}

/// Poseidon, leaves of width 8 (longer than a digest, hashed with `hash_no_pad`):
/// `hash_no_pad(a || b) == two_to_one(a, b)` for 4-element a, b, so `left_digest || right_digest`
/// is a width-8 "leaf" hashing to the parent.
#[test]
fn poseidon_width8_inner_node_opens_as_leaf() {
    type H = PoseidonHash;
    let a = <H as Hasher<F>>::hash_no_pad(&F::rand_vec(8));
    let b = <H as Hasher<F>>::hash_no_pad(&F::rand_vec(8));
    let cat: Vec<F> = [a.to_vec(), b.to_vec()].concat();
    assert_eq!(
        <H as Hasher<F>>::hash_or_noop(&cat),
        <H as Hasher<F>>::two_to_one(a, b)
    );

    let k = 4;
    let cap_height = 1;
    let leaves: Vec<Vec<F>> = (0..1 << k).map(|_| F::rand_vec(8)).collect();
    let tree = MerkleTree::<F, H>::new(leaves.clone(), cap_height);
    for i in 0..1 << k {
        let honest = tree.prove(i);
        let l = H::hash_or_noop(&leaves[i & !1]);
        let r = H::hash_or_noop(&leaves[i | 1]);
        let forged_leaf: Vec<F> = [l.to_vec(), r.to_vec()].concat();
        assert_eq!(forged_leaf.len(), 8);
        assert!(leaves.iter().all(|x| *x != forged_leaf));
        let forged_proof = MerkleProof::<F, H> {
            siblings: honest.siblings[1..].to_vec(),
        };
        assert!(verify_merkle_proof_to_cap(forged_leaf, i >> 1, &tree.cap, &forged_proof).is_ok());
    }
    println!("poseidon w=8 k={k} cap_height={cap_height}: non-committed width-8 leaf ACCEPTED at every position 0..8");
}

/// Keccak-25, leaves of width 3 (24 bytes <= 25, used verbatim, zero padded): an inner node whose
/// 25th byte is 0 (1 in 256) and whose three 8-byte words are canonical is a valid width-3 leaf.
#[test]
fn keccak_width3_inner_node_opens_as_leaf() {
    type H = KeccakHash<25>;
    let k = 12;
    let cap_height = 2;
    let leaves: Vec<Vec<F>> = (0..1 << k).map(|_| F::rand_vec(3)).collect();
    let tree = MerkleTree::<F, H>::new(leaves.clone(), cap_height);
    let mut hits = 0;
    for pair in 0..1 << (k - 1) {
        let l = <H as Hasher<F>>::hash_or_noop(&leaves[2 * pair]);
        let r = <H as Hasher<F>>::hash_or_noop(&leaves[2 * pair + 1]);
        let node = <H as Hasher<F>>::two_to_one(l, r);
        if node.0[24] != 0 {
            continue;
        }
        let words: Vec<u64> = node.0[..24]
            .chunks(8)
            .map(|c| u64::from_le_bytes(c.try_into().unwrap()))
            .collect();
        if words.iter().any(|&w| w >= F::ORDER) {
            continue;
        }
        let forged_leaf: Vec<F> = words.iter().map(|&w| F::from_canonical_u64(w)).collect();
        assert_eq!(forged_leaf.len(), 3);
        assert!(leaves.iter().all(|x| *x != forged_leaf));
        let honest = tree.prove(2 * pair);
        let forged_proof = MerkleProof::<F, H> {
            siblings: honest.siblings[1..].to_vec(),
        };
        assert!(
            verify_merkle_proof_to_cap(forged_leaf.clone(), pair, &tree.cap, &forged_proof).is_ok()
        );
        hits += 1;
        println!(
            "keccak25 w=3 k={k}: non-committed leaf {:?} ACCEPTED at position {pair}",
            forged_leaf
                .iter()
                .map(|x| x.to_canonical_u64())
                .collect::<Vec<_>>()
        );
    }
    assert!(hits > 0, "no inner node with a zero 25th byte among 2048 (p ~ 3e-4), rerun");
}

/// Same through the batch verifier (the function that actually implements the walk).
#[test]
fn batch_tree_inner_node_opens_as_leaf() {
    type H = PoseidonHash;
    let mat: Vec<Vec<F>> = (0..16).map(|_| F::rand_vec(4)).collect();
    let tree = BatchMerkleTree::<F, H>::new(vec![mat.clone()], 1);
    let i = 6;
    let honest = tree.open_batch(i);
    verify_batch_merkle_proof_to_cap(&tree.values(i), &tree.leaf_heights, i, &tree.cap, &honest)
        .unwrap();
    let node = H::two_to_one(H::hash_or_noop(&mat[6]), H::hash_or_noop(&mat[7]));
    let forged = MerkleProof::<F, H> {
        siblings: honest.siblings[1..].to_vec(),
    };
    // The verifier-side `leaf_heights` ([4]) is the honest one; it is not compared with the proof length.
    assert!(verify_batch_merkle_proof_to_cap(
        &[node.to_vec()],
        &tree.leaf_heights,
        i >> 1,
        &tree.cap,
        &forged
    )
    .is_ok());
    println!("batch tree (heights {:?}): inner node ACCEPTED as the height-4 leaf at position 3", tree.leaf_heights);
}
