// C17 finding 1 demo: a circuit built only from built-in gadgets (`split_le_base::<4>`, i.e. the
// built-in `BaseSumGate<4>` / `BaseSplitGenerator<4>`) cannot be encoded with the Default*Serializer.
//
// Run: cargo test --offline --release -p plonky2 --test finding1_demo -- --nocapture
use plonky2::iop::witness::{PartialWitness, WitnessWrite};
use plonky2::field::types::Field;
use plonky2::plonk::circuit_builder::CircuitBuilder;
use plonky2::plonk::circuit_data::CircuitConfig;
use plonky2::plonk::config::{GenericConfig, PoseidonGoldilocksConfig};
use plonky2::util::serialization::{DefaultGateSerializer, DefaultGeneratorSerializer};

const D: usize = 2;
type C = PoseidonGoldilocksConfig;
type F = <C as GenericConfig<D>>::F;

#[test]
fn base4_circuit_is_not_serializable() {
    let mut b = CircuitBuilder::<F, D>::new(CircuitConfig::standard_recursion_config());
    let x = b.add_virtual_target();
    let limbs = b.split_le_base::<4>(x, 10);
    b.register_public_inputs(&limbs);
    let data = b.build::<C>();

    // The circuit itself is perfectly fine: it proves and verifies.
    let mut pw = PartialWitness::new();
    pw.set_target(x, F::from_canonical_u64(0x1b3)).unwrap();
    let proof = data.prove(pw).unwrap();
    data.verify(proof).unwrap();

    let gs = DefaultGateSerializer;
    let ws = DefaultGeneratorSerializer::<C, D> { _phantom: core::marker::PhantomData };
    let v = data.verifier_data().to_bytes(&gs);
    let c = data.to_bytes(&gs, &ws);
    println!("verifier data to_bytes ok? {:?}", v.is_ok());
    println!("circuit data  to_bytes ok? {:?}", c.is_ok());
    assert!(v.is_err(), "verifier data (common data) unexpectedly serialized");
    assert!(c.is_err(), "circuit data unexpectedly serialized");
}
