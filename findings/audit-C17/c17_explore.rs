// Exploratory harness for C17 (serialization round trips / interchangeability).
use plonky2::field::extension::Extendable;
use plonky2::field::types::Field;
use plonky2::fri::reduction_strategies::FriReductionStrategy;
use plonky2::gates::noop::NoopGate;
use plonky2::hash::hash_types::RichField;
use plonky2::hash::poseidon::PoseidonHash;
use plonky2::iop::generator::generate_partial_witness;
use plonky2::iop::target::Target;
use plonky2::iop::witness::{PartialWitness, WitnessWrite};
use plonky2::plonk::circuit_builder::CircuitBuilder;
use plonky2::plonk::circuit_data::{
    CircuitConfig, CircuitData, CommonCircuitData, VerifierCircuitData,
};
use plonky2::plonk::config::{
    AlgebraicHasher, GenericConfig, KeccakGoldilocksConfig, PoseidonGoldilocksConfig,
};
use plonky2::plonk::proof::{CompressedProofWithPublicInputs, ProofWithPublicInputs};
use plonky2::util::serialization::{
    Buffer, DefaultGateSerializer, DefaultGeneratorSerializer, Read, Write,
};

const D: usize = 2;
type C = PoseidonGoldilocksConfig;
type F = <C as GenericConfig<D>>::F;

fn check<CC: GenericConfig<D, F = F> + 'static>(
    name: &str,
    data: &CircuitData<F, CC, D>,
    mk_pw: &dyn Fn() -> PartialWitness<F>,
    compare_witness: bool,
) where
    CC::Hasher: AlgebraicHasher<F>,
{
    println!("==== {name}: degree_bits={}", data.common.degree_bits());
    let gs = DefaultGateSerializer;
    let ws = DefaultGeneratorSerializer::<CC, D> { _phantom: core::marker::PhantomData };
    let bytes = data.to_bytes(&gs, &ws).expect("to_bytes");
    let data2 = CircuitData::<F, CC, D>::from_bytes(&bytes, &gs, &ws).expect("from_bytes");
    assert!(data == &data2, "{name}: restored != original (PartialEq)");
    let bytes2 = data2.to_bytes(&gs, &ws).expect("to_bytes 2");
    assert!(bytes == bytes2, "{name}: re-encoding differs");
    assert_eq!(
        data.verifier_only.circuit_digest,
        data2.verifier_only.circuit_digest
    );
    // generator ids in order
    for (a, b) in data
        .prover_only
        .generators
        .iter()
        .zip(&data2.prover_only.generators)
    {
        assert_eq!(a.0.id(), b.0.id());
        assert_eq!(a.0.watch_list(), b.0.watch_list(), "{name}: watch list {}", a.0.id());
    }
    for (a, b) in data.common.gates.iter().zip(&data2.common.gates) {
        assert_eq!(a.0.id(), b.0.id());
        assert_eq!(a.0.num_wires(), b.0.num_wires());
        assert_eq!(a.0.num_constants(), b.0.num_constants());
        assert_eq!(a.0.degree(), b.0.degree());
        assert_eq!(a.0.num_constraints(), b.0.num_constraints());
    }

    // common data alone
    {
        let mut buf = Vec::new();
        buf.write_common_circuit_data(&data.common, &gs).unwrap();
        let mut b = Buffer::new(&buf);
        let c2: CommonCircuitData<F, D> = b.read_common_circuit_data(&gs).unwrap();
        assert_eq!(&c2, &data.common);
        let mut buf2 = Vec::new();
        buf2.write_common_circuit_data(&c2, &gs).unwrap();
        assert!(buf == buf2);
    }
    // verifier data
    {
        let vd = data.verifier_data();
        let b = vd.to_bytes(&gs).unwrap();
        let vd2 = VerifierCircuitData::<F, CC, D>::from_bytes(b.clone(), &gs).unwrap();
        assert_eq!(vd, vd2);
        assert!(vd2.to_bytes(&gs).unwrap() == b);
    }

    // witness
    if compare_witness {
        let w1 = generate_partial_witness(mk_pw(), &data.prover_only, &data.common).unwrap();
        let w1b = generate_partial_witness(mk_pw(), &data.prover_only, &data.common).unwrap();
        let w2 = generate_partial_witness(mk_pw(), &data2.prover_only, &data2.common).unwrap();
        assert_eq!(w1.values.len(), w2.values.len());
        let mut nrandom = 0;
        for i in 0..w1.values.len() {
            assert_eq!(w1.values[i].is_some(), w2.values[i].is_some(), "{name}: set-ness differs at {i}");
            if w1.values[i] == w1b.values[i] {
                assert!(w1.values[i] == w2.values[i], "{name}: witnesses differ at {i}");
            } else {
                nrandom += 1;
            }
        }
        println!("     witness compared ({} slots, {} random)", w1.values.len(), nrandom);
    }
    let p1 = data.prove(mk_pw()).expect("prove orig");
    let p2 = data2.prove(mk_pw()).expect("prove restored");
    data.verify(p2.clone()).expect("orig verifies restored's proof");
    data2.verify(p1.clone()).expect("restored verifies orig's proof");
    assert_eq!(p1.public_inputs, p2.public_inputs);

    for (p, cd) in [(&p1, &data.common), (&p2, &data2.common), (&p1, &data2.common)] {
        let pb = p.to_bytes();
        let q = ProofWithPublicInputs::<F, CC, D>::from_bytes(pb.clone(), cd).expect("proof from_bytes");
        assert!(&q == p, "{name}: proof roundtrip");
        assert!(q.to_bytes() == pb);
        let cp = data.compress(p.clone()).expect("compress");
        {
            let js = serde_json::to_string(p).unwrap();
            let pj: ProofWithPublicInputs<F, CC, D> = serde_json::from_str(&js).unwrap();
            assert!(&pj == p, "{name}: serde_json proof roundtrip");
            let cb = serde_cbor::to_vec(p).unwrap();
            let pc: ProofWithPublicInputs<F, CC, D> = serde_cbor::from_slice(&cb).unwrap();
            assert!(&pc == p, "{name}: serde_cbor proof roundtrip");
            let cb = serde_cbor::to_vec(&cp).unwrap();
            let pc: CompressedProofWithPublicInputs<F, CC, D> = serde_cbor::from_slice(&cb).unwrap();
            assert!(pc == cp, "{name}: serde_cbor compressed proof roundtrip");
        }
        let cb = cp.to_bytes();
        let cq = CompressedProofWithPublicInputs::<F, CC, D>::from_bytes(cb.clone(), cd)
            .expect("compressed from_bytes");
        assert!(cq == cp, "{name}: compressed proof roundtrip");
        assert!(cq.to_bytes() == cb);
        data2.verify_compressed(cq.clone()).expect("verify compressed restored");
        let dp = data2.decompress(cq).expect("decompress");
        assert!(&dp == p, "{name}: decompress != original");
    }
    println!("     OK  (circuit bytes {}, proof bytes {})", bytes.len(), p1.to_bytes().len());
}

fn gadget_circuit<CC: GenericConfig<D, F = F> + 'static>(
    config: CircuitConfig,
    with_lookups: bool,
) -> (CircuitData<F, CC, D>, Vec<Target>)
where
    CC::Hasher: AlgebraicHasher<F>,
{
    let mut b = CircuitBuilder::<F, D>::new(config);
    let x = b.add_virtual_target();
    let y = b.add_virtual_target();
    let s = b.add(x, y);
    let m = b.mul(s, x);
    b.register_public_input(m);
    // range check / split
    let lo = b.add_virtual_target();
    b.range_check(lo, 20);
    let bits = b.split_le(lo, 24);
    let bits2 = b.split_le_base::<2>(lo, 24);
    b.connect(bits[3].target, bits2[3]);
    let (low, high) = b.split_low_high(lo, 7, 24);
    b.register_public_input(low);
    b.register_public_input(high);
    // equality
    let eq = b.is_equal(x, y);
    b.register_public_input(eq.target);
    // exp
    let e = b.exp(x, lo, 24);
    b.register_public_input(e);
    let e2 = b.exp_u64(y, 77);
    b.register_public_input(e2);
    // random access
    let idx = b.add_virtual_target();
    let v: Vec<Target> = (0..16).map(|i| b.constant(F::from_canonical_u64(100 + i))).collect();
    let ra = b.random_access(idx, v);
    b.register_public_input(ra);
    // hashing
    let h = b.hash_n_to_hash_no_pad::<PoseidonHash>(vec![x, y, lo, idx, m]);
    b.register_public_inputs(&h.elements);
    // extension stuff
    let xe = b.add_virtual_extension_target();
    let ye = b.convert_to_ext(y);
    let q = b.div_extension(xe, ye);
    let q2 = b.mul_extension(q, q);
    let q3 = b.arithmetic_extension(F::from_canonical_u64(3), F::from_canonical_u64(5), q2, xe, ye);
    b.register_public_inputs(&q3.0);
    let inv = b.inverse(y);
    b.register_public_input(inv);
    // reducing
    let alpha = b.add_virtual_extension_target();
    let mut rf = plonky2::util::reducing::ReducingFactorTarget::new(alpha);
    let terms: Vec<Target> = (0..50).map(|_| b.add_virtual_target()).collect();
    for t in &terms {
        b.connect(*t, x);
    }
    let red = rf.reduce_base(&terms, &mut b);
    b.register_public_inputs(&red.0);
    let mut rf2 = plonky2::util::reducing::ReducingFactorTarget::new(alpha);
    let eterms = vec![q, q2, q3, xe, ye, q, q2, q3, xe, ye, q, q2, q3, xe, ye];
    let red2 = rf2.reduce(&eterms, &mut b);
    b.register_public_inputs(&red2.0);
    b.add_gate(NoopGate, vec![]);

    let mut inputs = vec![x, y, lo, idx, xe.0[0], xe.0[1], alpha.0[0], alpha.0[1]];
    if with_lookups {
        let t1: Vec<u16> = (0..256).collect();
        let o1: Vec<u16> = (0..256u16).map(|i| (i * 7 + 3) % 256).collect();
        let l1 = b.add_lookup_table_from_table(&t1, &o1);
        let t2: Vec<u16> = (0..40).collect();
        let o2: Vec<u16> = (0..40u16).map(|i| i * i).collect();
        let l2 = b.add_lookup_table_from_table(&t2, &o2);
        let a = b.add_virtual_target();
        inputs.push(a);
        let mut cur = a;
        for _ in 0..70 {
            cur = b.add_lookup_from_index(cur, l1);
        }
        b.register_public_input(cur);
        let c = b.add_virtual_target();
        inputs.push(c);
        for _ in 0..5 {
            let o = b.add_lookup_from_index(c, l2);
            b.register_public_input(o);
        }
    }
    (b.build::<CC>(), inputs)
}

fn gadget_pw(inputs: &[Target]) -> PartialWitness<F> {
    let mut pw = PartialWitness::new();
    let vals = [11u64, 13, 0xabcde, 9, 5, 6, 7, 8, 17, 6];
    for (t, v) in inputs.iter().zip(vals) {
        pw.set_target(*t, F::from_canonical_u64(v)).unwrap();
    }
    pw
}

fn recursion_over<IC: GenericConfig<D, F = F> + 'static, OC: GenericConfig<D, F = F> + 'static>(
    config: CircuitConfig,
    inner: &CircuitData<F, IC, D>,
    inner_proof: &ProofWithPublicInputs<F, IC, D>,
) -> (CircuitData<F, OC, D>, PartialWitness<F>)
where
    IC::Hasher: AlgebraicHasher<F>,
    OC::Hasher: AlgebraicHasher<F>,
{
    let mut b = CircuitBuilder::<F, D>::new(config);
    let pt = b.add_virtual_proof_with_pis(&inner.common);
    let vd = b.add_virtual_verifier_data(inner.common.config.fri_config.cap_height);
    b.verify_proof::<IC>(&pt, &vd, &inner.common);
    b.register_public_inputs(&pt.public_inputs);
    let data = b.build::<OC>();
    let mut pw = PartialWitness::new();
    pw.set_proof_with_pis_target(&pt, inner_proof).unwrap();
    pw.set_verifier_data_target(&vd, &inner.verifier_only).unwrap();
    (data, pw)
}

#[test]
fn c17_gadgets_standard() {
    let (data, inputs) = gadget_circuit::<C>(CircuitConfig::standard_recursion_config(), false);
    check("gadgets/std", &data, &|| gadget_pw(&inputs), true);
}

#[test]
fn c17_gadgets_lookups() {
    let (data, inputs) = gadget_circuit::<C>(CircuitConfig::standard_recursion_config(), true);
    check("gadgets+lookups/std", &data, &|| gadget_pw(&inputs), true);
}

#[test]
fn c17_gadgets_lookups_zk() {
    let (data, inputs) = gadget_circuit::<C>(CircuitConfig::standard_recursion_zk_config(), true);
    check("gadgets+lookups/zk", &data, &|| gadget_pw(&inputs), false);
}

#[test]
fn c17_gadgets_configs() {
    let mut cfgs = vec![];
    let mut c = CircuitConfig::standard_recursion_config();
    c.num_challenges = 3;
    c.fri_config.cap_height = 0;
    c.fri_config.reduction_strategy = FriReductionStrategy::MinSize(Some(3));
    cfgs.push(("3chal-cap0-minsize", c));
    let mut c = CircuitConfig::standard_recursion_config();
    c.fri_config.cap_height = 1;
    c.fri_config.reduction_strategy = FriReductionStrategy::Fixed(vec![1, 2, 3]);
    c.zero_knowledge = true;
    cfgs.push(("cap1-fixed-zk", c));
    let mut c = CircuitConfig::wide_ecc_config();
    c.fri_config.reduction_strategy = FriReductionStrategy::Fixed(vec![]);
    c.fri_config.rate_bits = 4;
    c.use_base_arithmetic_gate = false;
    cfgs.push(("wide-noreduction", c));
    for (n, c) in cfgs {
        let zk = c.zero_knowledge;
        let (data, inputs) = gadget_circuit::<C>(c, true);
        check(n, &data, &|| gadget_pw(&inputs), !zk);
    }
}

#[test]
fn c17_recursion() {
    let (inner, inputs) = gadget_circuit::<C>(CircuitConfig::standard_recursion_config(), true);
    let ip = inner.prove(gadget_pw(&inputs)).unwrap();
    let (outer, pw) =
        recursion_over::<C, C>(CircuitConfig::standard_recursion_config(), &inner, &ip);
    check("recursion(lookups)", &outer, &|| pw.clone(), true);
    let op = outer.prove(pw.clone()).unwrap();
    let (outer2, pw2) =
        recursion_over::<C, C>(CircuitConfig::standard_recursion_config(), &outer, &op);
    check("recursion^2", &outer2, &|| pw2.clone(), true);
    // zk outer
    let (outer3, pw3) =
        recursion_over::<C, C>(CircuitConfig::standard_recursion_zk_config(), &outer, &op);
    check("recursion zk", &outer3, &|| pw3.clone(), false);
}

#[test]
fn c17_keccak_outer() {
    type KC = KeccakGoldilocksConfig;
    // KeccakGoldilocksConfig hasher is not algebraic, so only a plain circuit.
    let mut b = CircuitBuilder::<F, D>::new(CircuitConfig::standard_recursion_config());
    let x = b.add_virtual_target();
    let y = b.mul(x, x);
    b.register_public_input(y);
    let data = b.build::<KC>();
    let gs = DefaultGateSerializer;
    // No DefaultGeneratorSerializer for KC (needs AlgebraicHasher) -- check verifier data + proofs.
    let mut pw = PartialWitness::new();
    pw.set_target(x, F::from_canonical_u64(5)).unwrap();
    let p = data.prove(pw).unwrap();
    let vd = data.verifier_data();
    let vb = vd.to_bytes(&gs).unwrap();
    let vd2 = VerifierCircuitData::<F, KC, D>::from_bytes(vb, &gs).unwrap();
    assert_eq!(vd, vd2);
    let pb = p.to_bytes();
    let q = ProofWithPublicInputs::<F, KC, D>::from_bytes(pb, &vd2.common).unwrap();
    assert_eq!(p, q);
    vd2.verify(q.clone()).unwrap();
    let cp = data.compress(p.clone()).unwrap();
    let cq = CompressedProofWithPublicInputs::<F, KC, D>::from_bytes(cp.to_bytes(), &vd2.common)
        .unwrap();
    assert_eq!(cp, cq);
    vd2.verify_compressed(cq).unwrap();
}

#[test]
fn c17_dummy_proof_generator() {
    let (inner, inputs) = gadget_circuit::<C>(CircuitConfig::standard_recursion_config(), false);
    let ip = inner.prove(gadget_pw(&inputs)).unwrap();
    let mut b = CircuitBuilder::<F, D>::new(CircuitConfig::standard_recursion_config());
    let cond = b.add_virtual_bool_target_safe();
    let pt = b.add_virtual_proof_with_pis(&inner.common);
    let vd = b.add_virtual_verifier_data(inner.common.config.fri_config.cap_height);
    b.conditionally_verify_proof_or_dummy::<C>(cond, &pt, &vd, &inner.common)
        .unwrap();
    b.register_public_inputs(&pt.public_inputs);
    let data = b.build::<C>();
    for c in [true, false] {
        let mk = || {
            let mut pw = PartialWitness::new();
            pw.set_bool_target(cond, c).unwrap();
            pw.set_proof_with_pis_target(&pt, &ip).unwrap();
            pw.set_verifier_data_target(&vd, &inner.verifier_only).unwrap();
            pw
        };
        check(&format!("cond-or-dummy {c}"), &data, &mk, true);
    }
}

#[allow(dead_code)]
fn unused<FF: RichField + Extendable<D>>() {}

#[test]
fn c17_base4() {
    let mut b = CircuitBuilder::<F, D>::new(CircuitConfig::standard_recursion_config());
    let x = b.add_virtual_target();
    let limbs = b.split_le_base::<4>(x, 10);
    b.register_public_inputs(&limbs);
    let data = b.build::<C>();
    let gs = DefaultGateSerializer;
    let ws = DefaultGeneratorSerializer::<C, D> { _phantom: core::marker::PhantomData };
    println!("base4 common to_bytes ok? {:?}", data.verifier_data().to_bytes(&gs).is_ok());
    println!("base4 circuit to_bytes ok? {:?}", data.to_bytes(&gs, &ws).is_ok());
}

#[test]
fn c17_zero_pis_and_tiny() {
    let mut b = CircuitBuilder::<F, D>::new(CircuitConfig::standard_recursion_config());
    let x = b.add_virtual_target();
    let y = b.mul(x, x);
    b.assert_zero(y);
    let data = b.build::<C>();
    let mk = || {
        let mut pw = PartialWitness::new();
        pw.set_target(x, F::ZERO).unwrap();
        pw
    };
    check("tiny-zero-pis", &data, &mk, true);
}

#[test]
fn c17_cyclic() {
    use plonky2::recursion::cyclic_recursion::check_cyclic_proof_verifier_data;
    use plonky2::recursion::dummy_circuit::cyclic_base_proof;
    use hashbrown::HashMap;

    fn common_data_for_recursion() -> CommonCircuitData<F, D> {
        let config = CircuitConfig::standard_recursion_config();
        let builder = CircuitBuilder::<F, D>::new(config);
        let data = builder.build::<C>();
        let config = CircuitConfig::standard_recursion_config();
        let mut builder = CircuitBuilder::<F, D>::new(config);
        let proof = builder.add_virtual_proof_with_pis(&data.common);
        let verifier_data = builder.add_virtual_verifier_data(data.common.config.fri_config.cap_height);
        builder.verify_proof::<C>(&proof, &verifier_data, &data.common);
        let data = builder.build::<C>();
        let config = CircuitConfig::standard_recursion_config();
        let mut builder = CircuitBuilder::<F, D>::new(config);
        let proof = builder.add_virtual_proof_with_pis(&data.common);
        let verifier_data = builder.add_virtual_verifier_data(data.common.config.fri_config.cap_height);
        builder.verify_proof::<C>(&proof, &verifier_data, &data.common);
        while builder.num_gates() < 1 << 12 {
            builder.add_gate(NoopGate, vec![]);
        }
        builder.build::<C>().common
    }

    let config = CircuitConfig::standard_recursion_config();
    let mut builder = CircuitBuilder::<F, D>::new(config);
    let one = builder.one();
    let initial = builder.add_virtual_public_input();
    let current_in = builder.add_virtual_target();
    let current_out = builder.add(current_in, one);
    builder.register_public_input(current_out);
    let counter = builder.add_virtual_public_input();
    let mut common_data = common_data_for_recursion();
    let verifier_data_target = builder.add_verifier_data_public_inputs();
    common_data.num_public_inputs = builder.num_public_inputs();
    let condition = builder.add_virtual_bool_target_safe();
    let inner_cyclic_proof_with_pis = builder.add_virtual_proof_with_pis(&common_data);
    let inner_pis = &inner_cyclic_proof_with_pis.public_inputs;
    let inner_initial = inner_pis[0];
    let inner_latest = inner_pis[1];
    let inner_counter = inner_pis[2];
    builder.connect(initial, inner_initial);
    let actual_in = builder.select(condition, inner_latest, initial);
    builder.connect(current_in, actual_in);
    let new_counter = builder.mul_add(condition.target, inner_counter, one);
    builder.connect(counter, new_counter);
    builder
        .conditionally_verify_cyclic_proof_or_dummy::<C>(condition, &inner_cyclic_proof_with_pis, &common_data)
        .unwrap();
    let cyclic = builder.build::<C>();

    let mk0 = || {
        let mut pw = PartialWitness::new();
        pw.set_bool_target(condition, false).unwrap();
        pw.set_target(initial, F::from_canonical_u64(42)).unwrap();
        let m: HashMap<usize, F> = [(0usize, F::from_canonical_u64(42))].into_iter().collect();
        pw.set_proof_with_pis_target::<C, D>(
            &inner_cyclic_proof_with_pis,
            &cyclic_base_proof(&common_data, &cyclic.verifier_only, m),
        )
        .unwrap();
        pw.set_verifier_data_target(&verifier_data_target, &cyclic.verifier_only).unwrap();
        pw
    };
    check("cyclic base", &cyclic, &mk0, true);
    let p0 = cyclic.prove(mk0()).unwrap();
    check_cyclic_proof_verifier_data(&p0, &cyclic.verifier_only, &cyclic.common).unwrap();
    let mk1 = || {
        let mut pw = PartialWitness::new();
        pw.set_bool_target(condition, true).unwrap();
        pw.set_proof_with_pis_target(&inner_cyclic_proof_with_pis, &p0).unwrap();
        pw.set_verifier_data_target(&verifier_data_target, &cyclic.verifier_only).unwrap();
        pw
    };
    check("cyclic step", &cyclic, &mk1, true);
}
