//! C20 audit (ruled-out candidate): a condition that is NOT constrained to {0,1}
//! (BoolTarget::new_unsafe) turns the selection into a linear combination b*p0 + (1-b)*p1,
//! so with b = 2 a prover can get a proof verified that sits in neither slot.
//! This violates only the documented BoolTarget contract, not the library code.
use plonky2::field::types::{Field, Sample};
use plonky2::gates::noop::NoopGate;
use plonky2::iop::target::Target;
use plonky2::iop::witness::{PartialWitness, WitnessWrite};
use plonky2::plonk::circuit_builder::CircuitBuilder;
use plonky2::plonk::circuit_data::CircuitConfig;
use plonky2::plonk::config::{GenericConfig, PoseidonGoldilocksConfig};

const D: usize = 2;
type C = PoseidonGoldilocksConfig;
type F = <C as GenericConfig<D>>::F;

fn sorted(pw: &PartialWitness<F>) -> Vec<(usize, F)> {
    let mut v: Vec<(usize, F)> = pw
        .target_values
        .iter()
        .map(|(t, v)| match t {
            Target::VirtualTarget { index } => (*index, *v),
            _ => panic!(),
        })
        .collect();
    v.sort_by_key(|x| x.0);
    v
}

#[test]
fn c20_nonboolean_condition() {
    let config = CircuitConfig::standard_recursion_config();
    let mut builder = CircuitBuilder::<F, D>::new(config.clone());
    let mut pw = PartialWitness::new();
    let t = builder.add_virtual_target();
    pw.set_target(t, F::rand()).unwrap();
    builder.register_public_input(t);
    builder.square(t);
    for _ in 0..64 {
        builder.add_gate(NoopGate, vec![]);
    }
    let data = builder.build::<C>();
    let proof = data.prove(pw).unwrap();
    data.verify(proof.clone()).unwrap();

    for safe in [false, true] {
        let mut builder = CircuitBuilder::<F, D>::new(config.clone());
        let pt0 = builder.add_virtual_proof_with_pis(&data.common);
        let vd0 = builder.add_virtual_verifier_data(data.common.config.fri_config.cap_height);
        let pt1 = builder.add_virtual_proof_with_pis(&data.common);
        let vd1 = builder.add_virtual_verifier_data(data.common.config.fri_config.cap_height);
        let b = if safe { builder.add_virtual_bool_target_safe() } else { builder.add_virtual_bool_target_unsafe() };
        builder.conditionally_verify_proof::<C>(b, &pt0, &vd0, &pt1, &vd1, &data.common);
        let outer = builder.build::<C>();

        // slot-wise correspondence of targets
        let mut s0 = PartialWitness::new();
        s0.set_proof_with_pis_target(&pt0, &proof).unwrap();
        s0.set_verifier_data_target(&vd0, &data.verifier_only).unwrap();
        let mut s1 = PartialWitness::new();
        s1.set_proof_with_pis_target(&pt1, &proof).unwrap();
        s1.set_verifier_data_target(&vd1, &data.verifier_only).unwrap();
        let (s0, s1) = (sorted(&s0), sorted(&s1));
        assert_eq!(s0.len(), s1.len());

        // p0 = random garbage X, p1 = 2X - P  =>  2*p0 - p1 = P
        let mut pw = PartialWitness::new();
        for ((i0, v), (i1, v1)) in s0.iter().zip(&s1) {
            assert_eq!(v, v1);
            let x = F::rand();
            pw.set_target(Target::VirtualTarget { index: *i0 }, x).unwrap();
            pw.set_target(Target::VirtualTarget { index: *i1 }, x + x - *v).unwrap();
        }
        pw.set_target(b.target, F::TWO).unwrap();
        let accepted = match outer.prove(pw) {
            Ok(p) => outer.verify(p).is_ok(),
            Err(e) => { println!("   prove error: {e}"); false }
        };
        println!("condition constrained boolean = {safe}: b=2, both slots garbage, accepted = {accepted}");
        assert_eq!(accepted, !safe);
    }
}
