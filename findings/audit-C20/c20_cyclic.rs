//! C20 audit: cyclic recursion, adversarial prover / mangler.
use std::panic::{catch_unwind, AssertUnwindSafe};

use hashbrown::HashMap;
use plonky2::field::types::Field;
use plonky2::gates::noop::NoopGate;
use plonky2::hash::hash_types::HashOutTarget;
use plonky2::hash::poseidon::PoseidonHash;
use plonky2::iop::witness::{PartialWitness, WitnessWrite};
use plonky2::plonk::circuit_builder::CircuitBuilder;
use plonky2::plonk::circuit_data::{CircuitConfig, CommonCircuitData, VerifierOnlyCircuitData};
use plonky2::plonk::config::{GenericConfig, PoseidonGoldilocksConfig};
use plonky2::plonk::proof::ProofWithPublicInputs;
use plonky2::recursion::cyclic_recursion::check_cyclic_proof_verifier_data;
use plonky2::recursion::dummy_circuit::{cyclic_base_proof, dummy_circuit, dummy_proof};

const D: usize = 2;
type C = PoseidonGoldilocksConfig;
type F = <C as GenericConfig<D>>::F;

fn common_data_for_recursion() -> CommonCircuitData<F, D> {
    let config = CircuitConfig::standard_recursion_config();
    let builder = CircuitBuilder::<F, D>::new(config);
    let data = builder.build::<C>();
    let config = CircuitConfig::standard_recursion_config();
    let mut builder = CircuitBuilder::<F, D>::new(config);
    let proof = builder.add_virtual_proof_with_pis(&data.common);
    let verifier_data = builder.add_virtual_verifier_data(data.common.config.fri_config.cap_height);
    builder.verify_proof::<C>(&proof, &verifier_data, &data.common);
    let data = builder.build::<C>();

    let config = CircuitConfig::standard_recursion_config();
    let mut builder = CircuitBuilder::<F, D>::new(config);
    let proof = builder.add_virtual_proof_with_pis(&data.common);
    let verifier_data = builder.add_virtual_verifier_data(data.common.config.fri_config.cap_height);
    builder.verify_proof::<C>(&proof, &verifier_data, &data.common);
    while builder.num_gates() < 1 << 12 {
        builder.add_gate(NoopGate, vec![]);
    }
    builder.build::<C>().common
}

fn attempt<FN: FnOnce() -> anyhow::Result<ProofWithPublicInputs<F, C, D>>>(
    name: &str,
    f: FN,
) -> Option<ProofWithPublicInputs<F, C, D>> {
    match catch_unwind(AssertUnwindSafe(f)) {
        Ok(Ok(p)) => {
            println!("[{name}] prove: OK");
            Some(p)
        }
        Ok(Err(e)) => {
            println!("[{name}] prove: Err({e})");
            None
        }
        Err(_) => {
            println!("[{name}] prove: PANIC");
            None
        }
    }
}

#[test]
fn c20_cyclic_adversarial() {
    let config = CircuitConfig::standard_recursion_config();
    let mut builder = CircuitBuilder::<F, D>::new(config);
    let one = builder.one();

    let initial_hash_target = builder.add_virtual_hash();
    builder.register_public_inputs(&initial_hash_target.elements);
    let current_hash_in = builder.add_virtual_hash();
    let current_hash_out =
        builder.hash_n_to_hash_no_pad::<PoseidonHash>(current_hash_in.elements.to_vec());
    builder.register_public_inputs(&current_hash_out.elements);
    let counter = builder.add_virtual_public_input();

    let mut common_data = common_data_for_recursion();
    let verifier_data_target = builder.add_verifier_data_public_inputs();
    common_data.num_public_inputs = builder.num_public_inputs();

    let condition = builder.add_virtual_bool_target_safe();

    let inner = builder.add_virtual_proof_with_pis(&common_data);
    let inner_pis = &inner.public_inputs;
    let inner_initial_hash = HashOutTarget::try_from(&inner_pis[0..4]).unwrap();
    let inner_latest_hash = HashOutTarget::try_from(&inner_pis[4..8]).unwrap();
    let inner_counter = inner_pis[8];
    builder.connect_hashes(initial_hash_target, inner_initial_hash);
    // select_hash is pub(crate): do it by hand.
    let actual_hash_in = HashOutTarget {
        elements: core::array::from_fn(|i| {
            builder.select(condition, inner_latest_hash.elements[i], initial_hash_target.elements[i])
        }),
    };
    builder.connect_hashes(current_hash_in, actual_hash_in);
    let new_counter = builder.mul_add(condition.target, inner_counter, one);
    builder.connect(counter, new_counter);

    builder
        .conditionally_verify_cyclic_proof_or_dummy::<C>(condition, &inner, &common_data)
        .unwrap();
    let cyc = builder.build::<C>();
    assert_eq!(cyc.common, common_data);
    let real_vk = cyc.verifier_only.clone();
    let npi = common_data.num_public_inputs;
    let cap_len = common_data.config.fri_config.num_cap_elements();
    println!("num_public_inputs={npi} cap_len={cap_len}");

    let initial_hash = [F::ZERO, F::ONE, F::TWO, F::from_canonical_usize(3)];
    let initial_hash_pis: HashMap<usize, F> = initial_hash.into_iter().enumerate().collect();

    let prove_step = |cond: bool,
                      inner_proof: &ProofWithPublicInputs<F, C, D>,
                      vk: &VerifierOnlyCircuitData<C, D>| {
        let mut pw = PartialWitness::new();
        pw.set_bool_target(condition, cond)?;
        pw.set_proof_with_pis_target::<C, D>(&inner, inner_proof)?;
        pw.set_verifier_data_target(&verifier_data_target, vk)?;
        cyc.prove(pw)
    };

    // ---- (a) honest chain, lengths 1..=3
    let base = cyclic_base_proof(&common_data, &real_vk, initial_hash_pis.clone());
    let mut chain = vec![];
    let mut cur = attempt("a/base", || prove_step(false, &base, &real_vk)).unwrap();
    for k in 0..3 {
        cyc.verify(cur.clone()).expect("honest link verifies");
        check_cyclic_proof_verifier_data(&cur, &real_vk, &cyc.common).expect("honest link carries vk");
        assert_eq!(cur.public_inputs[8], F::from_canonical_usize(k + 1));
        chain.push(cur.clone());
        if k < 2 {
            cur = attempt(&format!("a/layer{}", k + 1), || prove_step(true, &cur, &real_vk)).unwrap();
        }
    }
    println!("(a) honest chain of 3 links: verify OK, check OK");

    // ---- (f) mangler: alter each element of the vk region of a valid proof
    let mut n_check_rej = 0;
    let mut n_verify_rej = 0;
    for pos in (npi - 4 - 4 * cap_len)..npi {
        let mut m = chain[2].clone();
        m.public_inputs[pos] += F::ONE;
        if check_cyclic_proof_verifier_data(&m, &real_vk, &cyc.common).is_err() { n_check_rej += 1; }
        if cyc.verify(m).is_err() { n_verify_rej += 1; }
    }
    println!("(f) vk-region positions altered: {} ; check rejected {} ; verify rejected {}", 4 + 4 * cap_len, n_check_rej, n_verify_rej);
    assert_eq!(n_check_rej, 4 + 4 * cap_len);
    assert_eq!(n_verify_rej, 4 + 4 * cap_len);
    // mangler: append / drop a public input
    {
        let mut m = chain[2].clone();
        m.public_inputs.push(F::ZERO);
        let c = check_cyclic_proof_verifier_data(&m, &real_vk, &cyc.common).is_ok();
        let v = catch_unwind(AssertUnwindSafe(|| cyc.verify(m).is_ok())).unwrap_or(false);
        println!("(f') appended PI: check ok={c} verify ok={v}");
        assert!(!(c && v));
        let mut m = chain[2].clone();
        m.public_inputs.remove(0);
        let c = check_cyclic_proof_verifier_data(&m, &real_vk, &cyc.common).is_ok();
        let v = catch_unwind(AssertUnwindSafe(|| cyc.verify(m).is_ok())).unwrap_or(false);
        println!("(f'') dropped first PI: check ok={c} verify ok={v}");
        assert!(!(c && v));
    }

    // attacker circuit X' with the same common data: the dummy circuit (all PIs free)
    let xp = dummy_circuit::<F, C, D>(&common_data);
    let xp_vk = xp.verifier_only.clone();
    assert_ne!(xp_vk.circuit_digest, real_vk.circuit_digest);

    // ---- (b) base case with foreign vk in the PIs
    let base_b = cyclic_base_proof(&common_data, &xp_vk, initial_hash_pis.clone());
    if let Some(p) = attempt("b", || prove_step(false, &base_b, &xp_vk)) {
        let v = cyc.verify(p.clone()).is_ok();
        let c = check_cyclic_proof_verifier_data(&p, &real_vk, &cyc.common).is_ok();
        println!("(b) foreign vk at base: verify ok={v} check ok={c}");
        assert!(!c, "check must reject foreign vk");
    }

    // ---- (c) layer with outer vk = foreign, inner = honest (carries real vk)
    if let Some(p) = attempt("c", || prove_step(true, &chain[0], &xp_vk)) {
        let v = cyc.verify(p.clone()).is_ok();
        let c = check_cyclic_proof_verifier_data(&p, &real_vk, &cyc.common).is_ok();
        println!("(c) verify ok={v} check ok={c}");
        assert!(!(v && c));
    }

    // ---- (d) inner = proof of X' claiming counter 1000, carrying vk(X'); outer vk targets = vk(X')
    let mut forged_pis: HashMap<usize, F> = initial_hash_pis.clone();
    for i in 4..8 { forged_pis.insert(i, F::from_canonical_usize(0xdead + i)); }
    forged_pis.insert(8, F::from_canonical_usize(1000));
    let mut pis_d = forged_pis.clone();
    let start = npi - 4 - 4 * cap_len;
    for j in 0..4 { pis_d.insert(start + j, xp_vk.circuit_digest.elements[j]); }
    for i in 0..cap_len { for j in 0..4 { pis_d.insert(start + 4 + 4 * i + j, xp_vk.constants_sigmas_cap.0[i].elements[j]); } }
    let forged_d = dummy_proof(&xp, pis_d).unwrap();
    xp.verify(forged_d.clone()).unwrap();
    if let Some(p) = attempt("d", || prove_step(true, &forged_d, &xp_vk)) {
        let v = cyc.verify(p.clone()).is_ok();
        let c = check_cyclic_proof_verifier_data(&p, &real_vk, &cyc.common).is_ok();
        println!("(d) forged inner under vk(X'): counter={} verify ok={v} check ok={c}", p.public_inputs[8]);
        assert!(!c, "check_cyclic_proof_verifier_data must reject");
        // and going one more layer with the real vk must be impossible
        if let Some(p2) = attempt("d/next", || prove_step(true, &p, &real_vk)) {
            let v2 = cyc.verify(p2.clone()).is_ok();
            let c2 = check_cyclic_proof_verifier_data(&p2, &real_vk, &cyc.common).is_ok();
            println!("(d/next) verify ok={v2} check ok={c2}");
            assert!(!(v2 && c2), "laundering a foreign link must fail");
        }
    }

    // ---- (e) inner = proof of X' carrying the REAL vk in its PIs; outer vk = real
    let mut pis_e = forged_pis.clone();
    for j in 0..4 { pis_e.insert(start + j, real_vk.circuit_digest.elements[j]); }
    for i in 0..cap_len { for j in 0..4 { pis_e.insert(start + 4 + 4 * i + j, real_vk.constants_sigmas_cap.0[i].elements[j]); } }
    let forged_e = dummy_proof(&xp, pis_e).unwrap();
    xp.verify(forged_e.clone()).unwrap();
    if let Some(p) = attempt("e", || prove_step(true, &forged_e, &real_vk)) {
        let v = cyc.verify(p.clone()).is_ok();
        let c = check_cyclic_proof_verifier_data(&p, &real_vk, &cyc.common).is_ok();
        println!("(e) forged inner of X' with real vk in PIs: verify ok={v} check ok={c}");
        assert!(!(v && c), "SOUNDNESS: foreign-circuit link accepted");
    }

    // ---- (g) condition = true on the (unverifiable) base proof
    if let Some(p) = attempt("g", || prove_step(true, &base, &real_vk)) {
        let v = cyc.verify(p.clone()).is_ok();
        let c = check_cyclic_proof_verifier_data(&p, &real_vk, &cyc.common).is_ok();
        println!("(g) condition=true on base proof: verify ok={v} check ok={c}");
        assert!(!(v && c));
    }

    // ---- (h) condition=false with the cyclic slot holding forged_e (PIs free): allowed, but counter must restart at 1
    if let Some(p) = attempt("h", || prove_step(false, &forged_e, &real_vk)) {
        let v = cyc.verify(p.clone()).is_ok();
        let c = check_cyclic_proof_verifier_data(&p, &real_vk, &cyc.common).is_ok();
        println!("(h) base case with arbitrary cyclic slot: verify ok={v} check ok={c} counter={}", p.public_inputs[8]);
        assert!(v && c);
        assert_eq!(p.public_inputs[8], F::ONE);
    }
}
