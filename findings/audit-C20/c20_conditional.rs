//! C20 audit: truth table of conditionally_verify_proof.
use std::panic::{catch_unwind, AssertUnwindSafe};

use hashbrown::HashMap;
use plonky2::field::extension::Extendable;
use plonky2::field::types::{Field, Sample};
use plonky2::gates::noop::NoopGate;
use plonky2::hash::hash_types::RichField;
use plonky2::iop::witness::{PartialWitness, WitnessWrite};
use plonky2::plonk::circuit_builder::CircuitBuilder;
use plonky2::plonk::circuit_data::{CircuitConfig, CircuitData};
use plonky2::plonk::config::{GenericConfig, PoseidonGoldilocksConfig};
use plonky2::plonk::proof::ProofWithPublicInputs;
use plonky2::recursion::dummy_circuit::{dummy_circuit, dummy_proof};

const D: usize = 2;
type C = PoseidonGoldilocksConfig;
type F = <C as GenericConfig<D>>::F;

fn inner(config: &CircuitConfig, with_lookup: bool) -> (CircuitData<F, C, D>, ProofWithPublicInputs<F, C, D>) {
    let mut builder = CircuitBuilder::<F, D>::new(config.clone());
    let mut pw = PartialWitness::new();
    let t = builder.add_virtual_target();
    pw.set_target(t, F::rand()).unwrap();
    builder.register_public_input(t);
    let _t2 = builder.square(t);
    if with_lookup {
        use std::sync::Arc;
        let table: Vec<(u16, u16)> = (0..16u16).map(|i| (i, (i * 3) % 16)).collect();
        let idx = builder.add_lookup_table_from_pairs(Arc::new(table));
        let a = builder.add_virtual_target();
        pw.set_target(a, F::from_canonical_u64(5)).unwrap();
        let out = builder.add_lookup_from_index(a, idx);
        builder.register_public_input(out);
    }
    for _ in 0..64 {
        builder.add_gate(NoopGate, vec![]);
    }
    let data = builder.build::<C>();
    let proof = data.prove(pw).unwrap();
    data.verify(proof.clone()).unwrap();
    (data, proof)
}

fn corrupt(p: &ProofWithPublicInputs<F, C, D>, how: usize) -> ProofWithPublicInputs<F, C, D> {
    let mut q = p.clone();
    match how {
        0 => q.proof.openings.wires[0] += <F as Extendable<D>>::Extension::ONE,
        1 => q.public_inputs[0] += F::ONE,
        2 => q.proof.opening_proof.pow_witness += F::ONE,
        3 => q.proof.openings.quotient_polys[0] += <F as Extendable<D>>::Extension::ONE,
        4 => {
            let l = q.proof.opening_proof.final_poly.coeffs.len();
            q.proof.opening_proof.final_poly.coeffs[l - 1] += <F as Extendable<D>>::Extension::ONE
        }
        5 => q.proof.opening_proof.query_round_proofs[0].initial_trees_proof.evals_proofs[0].0[0] += F::ONE,
        6 => {
            let qr = &mut q.proof.opening_proof.query_round_proofs;
            let l = qr.len();
            let s = qr[l - 1].steps.len();
            let m = qr[l - 1].steps[s - 1].merkle_proof.siblings.len();
            if m > 0 {
            qr[l - 1].steps[s - 1].merkle_proof.siblings[m - 1].elements[3] += F::ONE;
            } else {
            qr[l - 1].steps[s - 1].evals[0] += <F as Extendable<D>>::Extension::ONE;
            }
        }
        _ => unreachable!(),
    }
    q
}

fn run(with_lookup: bool) {
    let config = CircuitConfig::standard_recursion_config();
    let (data, proof) = inner(&config, with_lookup);
    let (data_b, proof_b) = if with_lookup {
        // a second circuit with the same shape: same builder, different witness -> same circuit. Use it with same data.
        let (d2, p2) = inner(&config, with_lookup);
        assert_eq!(d2.common, data.common);
        (d2, p2)
    } else {
        let dd = dummy_circuit::<F, C, D>(&data.common);
        let dp = dummy_proof(&dd, HashMap::new()).unwrap();
        dd.verify(dp.clone()).unwrap();
        (dd, dp)
    };
    if !with_lookup {
        assert_ne!(data.verifier_only.circuit_digest, data_b.verifier_only.circuit_digest);
    }

    let mut builder = CircuitBuilder::<F, D>::new(config);
    let pt0 = builder.add_virtual_proof_with_pis(&data.common);
    let pt1 = builder.add_virtual_proof_with_pis(&data.common);
    let vd0 = builder.add_virtual_verifier_data(data.common.config.fri_config.cap_height);
    let vd1 = builder.add_virtual_verifier_data(data.common.config.fri_config.cap_height);
    let b = builder.add_virtual_bool_target_safe();
    builder.register_public_input(b.target);
    builder.conditionally_verify_proof::<C>(b, &pt0, &vd0, &pt1, &vd1, &data.common);
    let outer = builder.build::<C>();

    // (p0 variant, p1 variant): None = valid, Some(k) = corrupted in way k, 100 = swapped vk
    let mut n_ok = 0;
    let mut n_bad = 0;
    let variants: Vec<Option<usize>> = vec![None, Some(0), Some(1), Some(2), Some(3), Some(4), Some(5), Some(6), Some(100)];
    for cond in [true, false] {
        for v0 in &variants {
            for v1 in &variants {
                // limit: at least one of them is None or both equal kind to keep run time sane
                if v0.is_some() && v1.is_some() && v0 != v1 { continue; }
                let mut pw = PartialWitness::new();
                let (p0, k0) = match v0 {
                    None => (proof.clone(), &data.verifier_only),
                    Some(100) => (proof.clone(), &data_b.verifier_only),
                    Some(k) => (corrupt(&proof, *k), &data.verifier_only),
                };
                let (p1, k1) = match v1 {
                    None => (proof_b.clone(), &data_b.verifier_only),
                    Some(100) => (proof_b.clone(), &data.verifier_only),
                    Some(k) => (corrupt(&proof_b, *k), &data_b.verifier_only),
                };
                pw.set_proof_with_pis_target(&pt0, &p0).unwrap();
                pw.set_proof_with_pis_target(&pt1, &p1).unwrap();
                pw.set_verifier_data_target(&vd0, k0).unwrap();
                pw.set_verifier_data_target(&vd1, k1).unwrap();
                pw.set_bool_target(b, cond).unwrap();
                let expected = if cond { v0.is_none() } else { v1.is_none() };
                // with_lookup: the two circuits are identical, so swapped vk is still valid
                let expected = if with_lookup {
                    if cond { v0.is_none() || *v0 == Some(100) } else { v1.is_none() || *v1 == Some(100) }
                } else { expected };
                let res = catch_unwind(AssertUnwindSafe(|| {
                    let pr = outer.prove(pw);
                    match pr {
                        Ok(pr) => outer.verify(pr).is_ok(),
                        Err(_) => false,
                    }
                }));
                let accepted = matches!(res, Ok(true));
                println!("lookup={with_lookup} cond={cond} v0={v0:?} v1={v1:?} expected={expected} accepted={accepted}");
                if accepted == expected { n_ok += 1 } else { n_bad += 1 }
            }
        }
    }
    println!("SUMMARY lookup={with_lookup}: agree={n_ok} disagree={n_bad}");
    assert_eq!(n_bad, 0);
}

#[test]
fn c20_truth_table_plain() { run(false) }

#[test]
fn c20_truth_table_lookup() { run(true) }

#[allow(dead_code)]
fn _unused<FF: RichField>() {}
