//! C20 audit, finding 1: `dummy_circuit` cannot produce a dummy circuit for perfectly legitimate
//! inner circuit shapes (lookup tables; power-of-two circuits without a NoopGate), so
//! `conditionally_verify_proof_or_dummy` / `conditionally_verify_cyclic_proof_or_dummy` /
//! `cyclic_base_proof` abort for them.
//!
//! Run: cargo test --offline --release -p plonky2 --test finding1_demo -- --nocapture --test-threads=1
use std::panic::{catch_unwind, AssertUnwindSafe};
use std::sync::Arc;

use hashbrown::HashMap;
use plonky2::field::types::Field;
use plonky2::gates::constant::ConstantGate;
use plonky2::gates::noop::NoopGate;
use plonky2::iop::witness::{PartialWitness, WitnessWrite};
use plonky2::plonk::circuit_builder::CircuitBuilder;
use plonky2::plonk::circuit_data::{CircuitConfig, CircuitData, CommonCircuitData};
use plonky2::plonk::config::{GenericConfig, PoseidonGoldilocksConfig};
use plonky2::recursion::dummy_circuit::{dummy_circuit, dummy_proof};

const D: usize = 2;
type C = PoseidonGoldilocksConfig;
type F = <C as GenericConfig<D>>::F;

fn quiet_panics() {
    std::panic::set_hook(Box::new(|info| {
        let loc = info.location().map(|l| format!("{}:{}", l.file(), l.line())).unwrap_or_default();
        let msg = info.to_string();
        let first = msg.lines().nth(1).unwrap_or("").chars().take(60).collect::<String>();
        println!("      panic at {loc}: {first}");
    }));
}

/// A legitimate, provable inner circuit; returns its common data.
fn shape(n_pis: usize, n_noops: usize, lookup: bool) -> CommonCircuitData<F, D> {
    let mut builder = CircuitBuilder::<F, D>::new(CircuitConfig::standard_recursion_config());
    let mut pw = PartialWitness::<F>::new();
    for _ in 0..n_pis {
        let t = builder.add_virtual_public_input();
        pw.set_target(t, F::ONE).unwrap();
    }
    let x = builder.add_virtual_target();
    pw.set_target(x, F::TWO).unwrap();
    builder.mul(x, x); // one ArithmeticGate
    if lookup {
        let table: Vec<(u16, u16)> = (0..16u16).map(|i| (i, (i * 3) % 16)).collect();
        let idx = builder.add_lookup_table_from_pairs(Arc::new(table));
        let a = builder.add_virtual_target();
        pw.set_target(a, F::from_canonical_u64(5)).unwrap();
        builder.add_lookup_from_index(a, idx);
    }
    for _ in 0..n_noops {
        builder.add_gate(NoopGate, vec![]);
    }
    let data = builder.build::<C>();
    let proof = data.prove(pw).unwrap();
    data.verify(proof).unwrap(); // the inner circuit itself is fine
    println!(
        "   inner circuit: degree={} pis={} has_noop={} luts={}",
        data.common.degree(),
        data.common.num_public_inputs,
        data.common.gates.iter().any(|g| g.0.id() == "NoopGate"),
        data.common.luts.len()
    );
    data.common
}

fn try_dummy(name: &str, common: &CommonCircuitData<F, D>) -> bool {
    let r = catch_unwind(AssertUnwindSafe(|| {
        let dc = dummy_circuit::<F, C, D>(common);
        let p = dummy_proof(&dc, HashMap::new()).unwrap();
        dc.verify(p).is_ok()
    }));
    let ok = matches!(r, Ok(true));
    println!("[{name}] dummy_circuit + dummy_proof + verify: {}", if ok { "OK" } else { "FAILED" });
    ok
}

/// Suggested repair for the "no NoopGate" case: pad with ConstantGate rows (a ConstantGate is
/// part of every circuit because PI hashing needs the constant zero) when the goal gate set has
/// no NoopGate.
fn dummy_circuit_repaired(common_data: &CommonCircuitData<F, D>) -> CircuitData<F, C, D> {
    let config = common_data.config.clone();
    let degree = common_data.degree();
    let has_noop = common_data.gates.iter().any(|g| g.0.id() == "NoopGate");
    let mut builder = CircuitBuilder::<F, D>::new(config.clone());
    if has_noop {
        for _ in 0..degree - common_data.num_public_inputs.div_ceil(8) - 2 {
            builder.add_gate(NoopGate, vec![]);
        }
    } else {
        // the filler ConstantGates also provide the constant generator, so no extra one is added
        for _ in 0..degree - common_data.num_public_inputs.div_ceil(8) - 1 {
            builder.add_gate(ConstantGate::new(config.num_constants), vec![]);
        }
    }
    for gate in &common_data.gates {
        builder.add_gate_to_gate_set(gate.clone());
    }
    for _ in 0..common_data.num_public_inputs {
        builder.add_virtual_public_input();
    }
    let circuit = builder.build::<C>();
    assert_eq!(&circuit.common, common_data);
    circuit
}

#[test]
fn finding1_dummy_circuit_incomplete() {
    quiet_panics();
    println!("--- control: padded circuit with NoopGate");
    let c = shape(1, 64, false);
    assert!(try_dummy("control", &c));

    println!("--- (A) power-of-two circuit without NoopGate (1 PI: Poseidon+PI+Constant+Arithmetic = 4 rows)");
    let c = shape(1, 0, false);
    let a = try_dummy("A", &c);
    println!("--- (A') same, 8 PIs");
    let c8 = shape(8, 0, false);
    let a8 = try_dummy("A'", &c8);

    println!("--- (B) circuit with a lookup table");
    let cl = shape(2, 10, true);
    let b = try_dummy("B", &cl);

    println!("--- (B') consequence: conditionally_verify_proof_or_dummy on the lookup shape");
    let r = catch_unwind(AssertUnwindSafe(|| {
        let mut builder = CircuitBuilder::<F, D>::new(CircuitConfig::standard_recursion_config());
        let pt = builder.add_virtual_proof_with_pis(&cl);
        let vd = builder.add_virtual_verifier_data(cl.config.fri_config.cap_height);
        let cond = builder.add_virtual_bool_target_safe();
        builder.conditionally_verify_proof_or_dummy::<C>(cond, &pt, &vd, &cl).is_ok()
    }));
    println!("[B'] conditionally_verify_proof_or_dummy: {:?}", r.as_ref().map_err(|_| "PANIC"));

    println!("--- repair check for (A): pad with ConstantGate when the gate set has no NoopGate");
    for (n, cc) in [("A", &c), ("A'", &c8)] {
        let dc = dummy_circuit_repaired(cc);
        let p = dummy_proof(&dc, HashMap::new()).unwrap();
        dc.verify(p).unwrap();
        println!("[{n}] repaired dummy circuit matches the common data and its dummy proof verifies");
    }

    // The finding is confirmed iff the unmodified code fails on these legitimate shapes.
    assert!(!a && !a8 && !b && r.is_err(), "finding 1 not reproduced");
}
