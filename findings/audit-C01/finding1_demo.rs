//! Finding 1 demo: `CircuitBuilder::exp_from_bits` (and therefore `exp_u64`, `exp`, `exp_power_of_2`)
//! accepts one more exponent bit than the `ExponentiationGate` has; the extra bit is wired onto the
//! gate's OUTPUT wire. With a narrow-routed (admissible) config, `exp_power_of_2(x, routed-2)`
//! proves + verifies and the public output is the constant 1 instead of x^(2^k).
//!
//! Copy to plonky2/tests/finding1_demo.rs and run (unmodified worktree):
//!   cargo test --offline --release -p plonky2 --test finding1_demo -- --nocapture
use plonky2::field::types::Field;
use plonky2::iop::witness::{PartialWitness, WitnessWrite};
use plonky2::plonk::circuit_builder::CircuitBuilder;
use plonky2::plonk::circuit_data::CircuitConfig;
use plonky2::plonk::config::{GenericConfig, PoseidonGoldilocksConfig};

const D: usize = 2;
type C = PoseidonGoldilocksConfig;
type F = <C as GenericConfig<D>>::F;

#[test]
fn exp_power_of_2_returns_one() {
    let mut violations = 0;
    for (routed, power_log) in [(50usize, 47usize), (50, 48), (40, 38), (30, 28), (65, 63)] {
        let config = CircuitConfig {
            num_routed_wires: routed, // num_wires stays 135 (PoseidonGate needs it)
            ..CircuitConfig::standard_recursion_config()
        };
        let mut b = CircuitBuilder::<F, D>::new(config);
        let x = b.add_virtual_target();
        let y = b.exp_power_of_2(x, power_log);
        b.register_public_input(y);
        let data = b.build::<C>();
        for v in [3u64, 7, 0xdead_beef] {
            let v = F::from_canonical_u64(v);
            let mut pw = PartialWitness::new();
            pw.set_target(x, v).unwrap();
            let proof = data.prove(pw).expect("prove");
            let got = proof.public_inputs[0];
            let expected = v.exp_power_of_2(power_log);
            let verified = data.verify(proof).is_ok();
            println!(
                "routed={routed} power_log={power_log} x={v}: circuit={got} native={expected} equal={} verified={verified}",
                got == expected
            );
            if verified && got != expected {
                violations += 1;
            }
        }
    }
    println!("violations (verified proof, wrong output): {violations}");
    assert_eq!(violations, 0, "C01 violated: verified proofs carry a wrong exp_power_of_2 output");
}
