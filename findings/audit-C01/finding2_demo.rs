//! Finding 2 demo: `CircuitBuilder::exp_power_of_2(base, power_log)` computes `1 << power_log` in u64
//! when it falls back to `exp_u64`. For power_log >= 64 the shift wraps in release builds
//! (it panics only with overflow checks on), so the circuit computes base^(2^(power_log mod 64)).
//!
//! Copy to plonky2/tests/finding2_demo.rs and run (unmodified worktree):
//!   cargo test --offline --release -p plonky2 --test finding2_demo -- --nocapture
use plonky2::field::types::Field;
use plonky2::iop::witness::{PartialWitness, WitnessWrite};
use plonky2::plonk::circuit_builder::CircuitBuilder;
use plonky2::plonk::circuit_data::CircuitConfig;
use plonky2::plonk::config::{GenericConfig, PoseidonGoldilocksConfig};

const D: usize = 2;
type C = PoseidonGoldilocksConfig;
type F = <C as GenericConfig<D>>::F;

#[test]
fn exp_power_of_2_ge_64() {
    let mut violations = 0;
    for power_log in [21usize, 40, 63, 64, 65, 70] {
        let mut b = CircuitBuilder::<F, D>::new(CircuitConfig::standard_recursion_config());
        let x = b.add_virtual_target();
        let y = b.exp_power_of_2(x, power_log);
        b.register_public_input(y);
        let data = b.build::<C>();
        let v = F::from_canonical_u64(3);
        let mut pw = PartialWitness::new();
        pw.set_target(x, v).unwrap();
        let proof = data.prove(pw).expect("prove");
        let got = proof.public_inputs[0];
        let expected = v.exp_power_of_2(power_log); // field library: power_log squarings
        let verified = data.verify(proof).is_ok();
        println!(
            "power_log={power_log}: circuit={got} native={expected} equal={} verified={verified}",
            got == expected
        );
        if verified && got != expected {
            violations += 1;
        }
    }
    assert_eq!(violations, 0, "C01 violated: verified proofs carry a wrong exp_power_of_2 output");
}
