//! Finding 3 demo: a lookup table that lists the same input twice with different outputs is accepted
//! by the builder; the `LookupGenerator` resolves the input to the FIRST matching entry while
//! `set_lookup_wires` credits the multiplicity to the LAST one, so `prove` returns Ok(proof) but the
//! proof is rejected by the verifier.
//!
//! Copy to plonky2/tests/finding3_demo.rs and run (unmodified worktree):
//!   cargo test --offline --release -p plonky2 --test finding3_demo -- --nocapture
use std::sync::Arc;

use plonky2::field::types::Field;
use plonky2::iop::witness::{PartialWitness, WitnessWrite};
use plonky2::plonk::circuit_builder::CircuitBuilder;
use plonky2::plonk::circuit_data::CircuitConfig;
use plonky2::plonk::config::{GenericConfig, PoseidonGoldilocksConfig};

const D: usize = 2;
type C = PoseidonGoldilocksConfig;
type F = <C as GenericConfig<D>>::F;

#[test]
fn lut_duplicate_inputs() {
    let mut b = CircuitBuilder::<F, D>::new(CircuitConfig::standard_recursion_config());
    // (0,5) and (0,7): both pairs are in the table, so looking up input 0 with output 5 is a
    // satisfiable statement.
    let table = Arc::new(vec![(0u16, 5u16), (0u16, 7u16), (1, 9)]);
    let idx = b.add_lookup_table_from_pairs(table);
    let x = b.add_virtual_target();
    let y = b.add_lookup_from_index(x, idx);
    b.register_public_input(y);
    let data = b.build::<C>();
    let mut pw = PartialWitness::new();
    pw.set_target(x, F::ZERO).unwrap();
    let proof = data.prove(pw).expect("prove returned Err");
    println!("prove OK, public output = {}", proof.public_inputs[0]);
    let res = data.verify(proof);
    println!("verify: {:?}", res.as_ref().map_err(|e| e.to_string()));
    assert!(res.is_ok(), "C01 violated: honest proof of a satisfiable lookup is rejected");
}
