//! C05 audit scratch tests (FRI opening proofs).
//! Run: cargo test --offline --release -p plonky2 --test c05_audit -- --nocapture --test-threads=1

use anyhow::Result;
use plonky2::batch_fri::oracle::BatchFriOracle;
use plonky2::batch_fri::verifier::verify_batch_fri_proof;
use plonky2::field::extension::Extendable;
use plonky2::field::polynomial::{PolynomialCoeffs, PolynomialValues};
use plonky2::field::types::{Field, Sample};
use plonky2::fri::oracle::PolynomialBatch;
use plonky2::fri::prover::fri_proof;
use plonky2::fri::reduction_strategies::FriReductionStrategy;
use plonky2::fri::structure::{
    FriBatchInfo, FriInstanceInfo, FriOpeningBatch, FriOpenings, FriOracleInfo, FriPolynomialInfo,
};
use plonky2::fri::verifier::verify_fri_proof;
use plonky2::fri::{FriConfig, FriParams};
use plonky2::hash::merkle_tree::MerkleTree;
use plonky2::iop::challenger::Challenger;
use plonky2::plonk::config::{GenericConfig, PoseidonGoldilocksConfig};
use plonky2::util::timing::TimingTree;
use plonky2::util::{reverse_index_bits_in_place, transpose};

const D: usize = 2;
type C = PoseidonGoldilocksConfig;
type F = <C as GenericConfig<D>>::F;
type FE = <F as Extendable<D>>::Extension;
type H = <C as GenericConfig<D>>::Hasher;

fn params(k: usize, rate_bits: usize, cap_height: usize, arities: Vec<usize>, hiding: bool) -> FriParams {
    FriParams {
        config: FriConfig {
            rate_bits,
            cap_height,
            proof_of_work_bits: 2,
            reduction_strategy: FriReductionStrategy::Fixed(arities.clone()),
            num_query_rounds: 12,
        },
        hiding,
        degree_bits: k,
        reduction_arity_bits: arities,
    }
}

/// Candidate 1: a committed function of degree exactly n = 2^degree_bits (one more than allowed).
/// `extra` = number of coefficients beyond n (extra = 1 -> degree n; extra = 2 -> degree n+1).
fn degree_slack(extra: usize) -> Result<()> {
    let k = 6;
    let rate_bits = 2;
    let n = 1usize << k;
    let fri_params = params(k, rate_bits, 1, vec![2, 1], false);
    let mut timing = TimingTree::default();

    // f has n + extra coefficients, top coefficient non-zero.
    let mut coeffs = F::rand_vec(n + extra);
    *coeffs.last_mut().unwrap() = F::ONE;
    let f = PolynomialCoeffs::new(coeffs);
    assert_eq!(f.degree_plus_one(), n + extra);

    // Commit to the evaluations of f on the LDE coset (the verifier only ever sees the cap).
    let lde_vals = f
        .padded(n << rate_bits)
        .coset_fft(F::coset_shift())
        .values;
    let mut leaves = transpose(&[lde_vals]);
    reverse_index_bits_in_place(&mut leaves);
    let tree = MerkleTree::<F, H>::new(leaves, fri_params.config.cap_height);

    let mut challenger = Challenger::<F, H>::new();
    challenger.observe_cap(&tree.cap);
    let zeta = challenger.get_extension_challenge::<D>();
    let f_zeta = f.to_extension::<D>().eval(zeta); // TRUE evaluation
    let openings = FriOpenings {
        batches: vec![FriOpeningBatch {
            values: vec![f_zeta],
        }],
    };
    challenger.observe_openings(&openings);
    let mut verifier_challenger = challenger.clone();

    let instance = FriInstanceInfo::<F, D> {
        oracles: vec![FriOracleInfo {
            num_polys: 1,
            blinding: false,
        }],
        batches: vec![FriBatchInfo {
            point: zeta,
            polynomials: vec![FriPolynomialInfo {
                oracle_index: 0,
                polynomial_index: 0,
            }],
        }],
    };

    // Prover side, by hand (what prove_openings does, without the power-of-two padding).
    let _alpha = challenger.get_extension_challenge::<D>();
    let quotient = f.to_extension::<D>().divide_by_linear(zeta); // n + extra - 1 coefficients
    println!(
        "deg f = {}, quotient degree_plus_one = {}, n = {}",
        n + extra - 1,
        quotient.degree_plus_one(),
        n
    );
    if quotient.len() > n {
        // Cannot even be represented with n coefficients: fold it anyway by reducing mod X^n? No -
        // the honest-folding adversary just runs FRI on the true (too long) quotient, truncated to
        // the n*2^rate_bits LDE domain.
    }
    let lde_final_poly = quotient.padded(n << rate_bits);
    let lde_final_values = lde_final_poly.coset_fft(F::coset_shift().into());
    let proof = fri_proof::<F, C, D>(
        &[&tree],
        lde_final_poly,
        lde_final_values,
        &mut challenger,
        &fri_params,
        None,
        None,
        &mut timing,
    );

    let fri_challenges = verifier_challenger.fri_challenges::<C, D>(
        &proof.commit_phase_merkle_caps,
        &proof.final_poly,
        proof.pow_witness,
        k,
        &fri_params.config,
        None,
        None,
    );
    verify_fri_proof::<F, C, D>(
        &instance,
        &openings,
        &fri_challenges,
        &[tree.cap.clone()],
        &proof,
        &fri_params,
    )
}

#[test]
fn cand1_degree_exactly_n_is_accepted() {
    let r = degree_slack(1);
    println!("degree n   (one above the bound): verifier says {:?}", r);
    let r2 = degree_slack(2);
    println!("degree n+1 (two above the bound): verifier says {:?}", r2);
    let r0 = degree_slack(0);
    println!("degree n-1 (honest)             : verifier says {:?}", r0);
}

/// Candidate 2: batch FRI with blinding (hiding) - honest proof.
fn batch_honest(hiding: bool) -> Result<()> {
    let mut timing = TimingTree::default();
    let k0 = 7;
    let k1 = 6;
    let k2 = 4;
    let reduction_arity_bits = vec![1, 2, 1];
    let fri_params = FriParams {
        config: FriConfig {
            rate_bits: 1,
            cap_height: 0,
            proof_of_work_bits: 0,
            reduction_strategy: FriReductionStrategy::Fixed(reduction_arity_bits.clone()),
            num_query_rounds: 10,
        },
        hiding,
        degree_bits: k0,
        reduction_arity_bits,
    };
    let n0 = 1 << k0;
    let n1 = 1 << k1;
    let n2 = 1 << k2;
    let trace0 = PolynomialValues::new(F::rand_vec(n0));
    let trace1_0 = PolynomialValues::new(F::rand_vec(n1));
    let trace1_1 = PolynomialValues::new(F::rand_vec(n1));
    let trace2 = PolynomialValues::new(F::rand_vec(n2));

    let trace_oracle: BatchFriOracle<F, C, D> = BatchFriOracle::from_values(
        vec![trace0, trace1_0, trace1_1, trace2],
        fri_params.config.rate_bits,
        fri_params.hiding,
        fri_params.config.cap_height,
        &mut timing,
        &[None; 4],
    );

    let mut challenger = Challenger::<F, H>::new();
    challenger.observe_cap(&trace_oracle.batch_merkle_tree.cap);
    let zeta = challenger.get_extension_challenge::<D>();
    let poly0 = &trace_oracle.polynomials[0];
    let poly1_0 = &trace_oracle.polynomials[1];
    let poly1_1 = &trace_oracle.polynomials[2];
    let poly2 = &trace_oracle.polynomials[3];

    let mk = |num_polys: usize, idx: Vec<usize>| FriInstanceInfo::<F, D> {
        oracles: vec![FriOracleInfo {
            num_polys,
            blinding: hiding,
        }],
        batches: vec![FriBatchInfo {
            point: zeta,
            polynomials: idx
                .into_iter()
                .map(|polynomial_index| FriPolynomialInfo {
                    oracle_index: 0,
                    polynomial_index,
                })
                .collect(),
        }],
    };
    let fri_instances = vec![mk(1, vec![0]), mk(2, vec![1, 2]), mk(1, vec![3])];
    let ev = |p: &PolynomialCoeffs<F>| p.to_extension::<D>().eval(zeta);
    let fri_openings = vec![
        FriOpenings {
            batches: vec![FriOpeningBatch {
                values: vec![ev(poly0)],
            }],
        },
        FriOpenings {
            batches: vec![FriOpeningBatch {
                values: vec![ev(poly1_0), ev(poly1_1)],
            }],
        },
        FriOpenings {
            batches: vec![FriOpeningBatch {
                values: vec![ev(poly2)],
            }],
        },
    ];
    for o in &fri_openings {
        challenger.observe_openings(o);
    }
    let mut verifier_challenger = challenger.clone();

    let proof = BatchFriOracle::prove_openings(
        &[k0, k1, k2],
        &fri_instances,
        &[&trace_oracle],
        &mut challenger,
        &fri_params,
        &mut timing,
    );
    let fri_challenges = verifier_challenger.fri_challenges::<C, D>(
        &proof.commit_phase_merkle_caps,
        &proof.final_poly,
        proof.pow_witness,
        k0,
        &fri_params.config,
        None,
        None,
    );
    verify_batch_fri_proof::<F, C, D>(
        &[k0, k1, k2],
        &fri_instances,
        &fri_openings,
        &fri_challenges,
        &[trace_oracle.batch_merkle_tree.cap.clone()],
        &proof,
        &fri_params,
    )
}

#[test]
fn cand2_batch_fri_with_blinding_honest() {
    println!("batch FRI, hiding = false: {:?}", batch_honest(false));
    let r = std::panic::catch_unwind(|| batch_honest(true));
    println!("batch FRI, hiding = true : {:?}", r);
}

/// Baseline for the plain (single-degree) FRI with hiding, several oracles with mixed blinding.
fn plain_honest(hiding: bool, tamper: usize) -> Result<()> {
    let mut timing = TimingTree::default();
    let k = 6;
    let n = 1 << k;
    let fri_params = params(k, 2, 2, vec![1, 2], hiding);
    let blind = [false, true, true];
    let npolys = [3usize, 2, 4];
    let oracles: Vec<PolynomialBatch<F, C, D>> = (0..3)
        .map(|i| {
            PolynomialBatch::from_values(
                (0..npolys[i])
                    .map(|_| PolynomialValues::new(F::rand_vec(n)))
                    .collect(),
                fri_params.config.rate_bits,
                hiding && blind[i],
                fri_params.config.cap_height,
                &mut timing,
                None,
            )
        })
        .collect();
    let mut challenger = Challenger::<F, H>::new();
    for o in &oracles {
        challenger.observe_cap(&o.merkle_tree.cap);
    }
    let zeta = challenger.get_extension_challenge::<D>();
    let g = FE::primitive_root_of_unity(k);
    let all: Vec<FriPolynomialInfo> = (0..3)
        .flat_map(|i| FriPolynomialInfo::from_range(i, 0..npolys[i]))
        .collect();
    let next: Vec<FriPolynomialInfo> = FriPolynomialInfo::from_range(2, 1..3);
    let instance = FriInstanceInfo::<F, D> {
        oracles: (0..3)
            .map(|i| FriOracleInfo {
                num_polys: npolys[i],
                blinding: blind[i],
            })
            .collect(),
        batches: vec![
            FriBatchInfo {
                point: zeta,
                polynomials: all.clone(),
            },
            FriBatchInfo {
                point: g * zeta,
                polynomials: next.clone(),
            },
        ],
    };
    let ev = |p: &FriPolynomialInfo, z: FE| {
        oracles[p.oracle_index].polynomials[p.polynomial_index]
            .to_extension::<D>()
            .eval(z)
    };
    let mut openings = FriOpenings {
        batches: vec![
            FriOpeningBatch {
                values: all.iter().map(|p| ev(p, zeta)).collect(),
            },
            FriOpeningBatch {
                values: next.iter().map(|p| ev(p, g * zeta)).collect(),
            },
        ],
    };
    match tamper {
        1 => openings.batches[0].values[4] += FE::ONE,
        2 => openings.batches[1].values[1] += FE::ONE,
        _ => {}
    }
    challenger.observe_openings(&openings);
    let mut verifier_challenger = challenger.clone();
    let proof = PolynomialBatch::<F, C, D>::prove_openings(
        &instance,
        &oracles.iter().collect::<Vec<_>>(),
        &mut challenger,
        &fri_params,
        None,
        None,
        &mut timing,
    );
    let fri_challenges = verifier_challenger.fri_challenges::<C, D>(
        &proof.commit_phase_merkle_caps,
        &proof.final_poly,
        proof.pow_witness,
        k,
        &fri_params.config,
        None,
        None,
    );
    let caps: Vec<_> = oracles.iter().map(|o| o.merkle_tree.cap.clone()).collect();
    verify_fri_proof::<F, C, D>(&instance, &openings, &fri_challenges, &caps, &proof, &fri_params)
}

#[test]
fn baseline_plain_fri() {
    for hiding in [false, true] {
        println!("plain hiding={hiding} honest: {:?}", plain_honest(hiding, 0));
        println!("plain hiding={hiding} wrong opening zeta: {:?}", plain_honest(hiding, 1));
        println!("plain hiding={hiding} wrong opening g*zeta: {:?}", plain_honest(hiding, 2));
    }
}
