//! C05 finding 2 demo: FRI accepts a committed function of degree exactly n = 2^degree_bits
//! (one above the advertised bound deg < n), with true openings, from an honestly folding prover.
//! Copy to plonky2/tests/c05_finding2.rs and run:
//!   RUST_BACKTRACE=0 cargo test --offline --release -p plonky2 --test c05_finding2 -- --nocapture
#![allow(unused_imports)]

use anyhow::Result;
use plonky2::batch_fri::oracle::BatchFriOracle;
use plonky2::batch_fri::verifier::verify_batch_fri_proof;
use plonky2::field::extension::Extendable;
use plonky2::field::polynomial::{PolynomialCoeffs, PolynomialValues};
use plonky2::field::types::{Field, Sample};
use plonky2::fri::oracle::PolynomialBatch;
use plonky2::fri::prover::fri_proof;
use plonky2::fri::reduction_strategies::FriReductionStrategy;
use plonky2::fri::structure::{
    FriBatchInfo, FriInstanceInfo, FriOpeningBatch, FriOpenings, FriOracleInfo, FriPolynomialInfo,
};
use plonky2::fri::verifier::verify_fri_proof;
use plonky2::fri::{FriConfig, FriParams};
use plonky2::hash::merkle_tree::MerkleTree;
use plonky2::iop::challenger::Challenger;
use plonky2::plonk::config::{GenericConfig, PoseidonGoldilocksConfig};
use plonky2::util::timing::TimingTree;
use plonky2::util::{reverse_index_bits_in_place, transpose};

const D: usize = 2;
type C = PoseidonGoldilocksConfig;
type F = <C as GenericConfig<D>>::F;
type FE = <F as Extendable<D>>::Extension;
type H = <C as GenericConfig<D>>::Hasher;

fn params(k: usize, rate_bits: usize, cap_height: usize, arities: Vec<usize>, hiding: bool) -> FriParams {
    FriParams {
        config: FriConfig {
            rate_bits,
            cap_height,
            proof_of_work_bits: 2,
            reduction_strategy: FriReductionStrategy::Fixed(arities.clone()),
            num_query_rounds: 12,
        },
        hiding,
        degree_bits: k,
        reduction_arity_bits: arities,
    }
}

/// Candidate 1: a committed function of degree exactly n = 2^degree_bits (one more than allowed).
/// `extra` = number of coefficients beyond n (extra = 1 -> degree n; extra = 2 -> degree n+1).
fn degree_slack(extra: usize) -> Result<()> {
    degree_slack_k(6, 1, vec![2, 1], extra)
}

fn degree_slack_k(k: usize, cap_height: usize, arities: Vec<usize>, extra: usize) -> Result<()> {
    let rate_bits = 2;
    let n = 1usize << k;
    let fri_params = params(k, rate_bits, cap_height, arities, false);
    let mut timing = TimingTree::default();

    // f has n + extra coefficients, top coefficient non-zero.
    let mut coeffs = F::rand_vec(n + extra);
    *coeffs.last_mut().unwrap() = F::ONE;
    let f = PolynomialCoeffs::new(coeffs);
    assert_eq!(f.degree_plus_one(), n + extra);

    // Commit to the evaluations of f on the LDE coset (the verifier only ever sees the cap).
    let lde_vals = f
        .padded(n << rate_bits)
        .coset_fft(F::coset_shift())
        .values;
    let mut leaves = transpose(&[lde_vals]);
    reverse_index_bits_in_place(&mut leaves);
    let tree = MerkleTree::<F, H>::new(leaves, fri_params.config.cap_height);

    let mut challenger = Challenger::<F, H>::new();
    challenger.observe_cap(&tree.cap);
    let zeta = challenger.get_extension_challenge::<D>();
    let f_zeta = f.to_extension::<D>().eval(zeta); // TRUE evaluation
    let openings = FriOpenings {
        batches: vec![FriOpeningBatch {
            values: vec![f_zeta],
        }],
    };
    challenger.observe_openings(&openings);
    let mut verifier_challenger = challenger.clone();

    let instance = FriInstanceInfo::<F, D> {
        oracles: vec![FriOracleInfo {
            num_polys: 1,
            blinding: false,
        }],
        batches: vec![FriBatchInfo {
            point: zeta,
            polynomials: vec![FriPolynomialInfo {
                oracle_index: 0,
                polynomial_index: 0,
            }],
        }],
    };

    // Prover side, by hand (what prove_openings does, without the power-of-two padding).
    let _alpha = challenger.get_extension_challenge::<D>();
    let quotient = f.to_extension::<D>().divide_by_linear(zeta); // n + extra - 1 coefficients
    println!(
        "deg f = {}, quotient degree_plus_one = {}, n = {}",
        n + extra - 1,
        quotient.degree_plus_one(),
        n
    );
    let lde_final_poly = quotient.padded(n << rate_bits);
    let lde_final_values = lde_final_poly.coset_fft(F::coset_shift().into());
    let proof = fri_proof::<F, C, D>(
        &[&tree],
        lde_final_poly,
        lde_final_values,
        &mut challenger,
        &fri_params,
        None,
        None,
        &mut timing,
    );

    let fri_challenges = verifier_challenger.fri_challenges::<C, D>(
        &proof.commit_phase_merkle_caps,
        &proof.final_poly,
        proof.pow_witness,
        k,
        &fri_params.config,
        None,
        None,
    );
    verify_fri_proof::<F, C, D>(
        &instance,
        &openings,
        &fri_challenges,
        &[tree.cap.clone()],
        &proof,
        &fri_params,
    )
}

#[test]
fn degree_exactly_n_is_accepted() {
    let r0 = degree_slack(0);
    println!("degree n-1 (honest, within bound) : verifier says {:?}", r0.as_ref().map_err(|e| e.to_string()));
    let r1 = degree_slack(1);
    println!("degree n   (one above the bound)  : verifier says {:?}", r1.as_ref().map_err(|e| e.to_string()));
    let r2 = degree_slack(2);
    println!("degree n+1 (two above the bound)  : verifier says {:?}", r2.as_ref().map_err(|e| e.to_string()));
    assert!(r0.is_ok());
    // DEFECT: a committed function with n+1 coefficients (degree n) passes the low-degree test.
    assert!(r1.is_ok(), "defect not present: degree-n function was rejected");
    assert!(r2.is_err());

    // degree_bits = 0: the oracle is supposed to hold a CONSTANT; a non-constant linear function passes.
    let c0 = degree_slack_k(0, 0, vec![], 0);
    let c1 = degree_slack_k(0, 0, vec![], 1);
    println!("degree_bits=0, constant function   : verifier says {:?}", c0.as_ref().map_err(|e| e.to_string()));
    println!("degree_bits=0, f = a + X (deg 1)   : verifier says {:?}", c1.as_ref().map_err(|e| e.to_string()));
    assert!(c0.is_ok());
    assert!(c1.is_ok(), "defect not present for degree_bits = 0");
}

