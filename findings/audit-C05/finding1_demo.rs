//! C05 finding 1 demo: the batch FRI verifier rejects every honest proof when blinding (hiding)
//! is enabled, although oracle, prover and shape validation all support it.
//! Copy to plonky2/tests/c05_finding1.rs and run:
//!   RUST_BACKTRACE=0 cargo test --offline --release -p plonky2 --test c05_finding1 -- --nocapture
#![allow(unused_imports)]

use anyhow::Result;
use plonky2::batch_fri::oracle::BatchFriOracle;
use plonky2::batch_fri::verifier::verify_batch_fri_proof;
use plonky2::field::extension::Extendable;
use plonky2::field::polynomial::{PolynomialCoeffs, PolynomialValues};
use plonky2::field::types::{Field, Sample};
use plonky2::fri::oracle::PolynomialBatch;
use plonky2::fri::prover::fri_proof;
use plonky2::fri::reduction_strategies::FriReductionStrategy;
use plonky2::fri::structure::{
    FriBatchInfo, FriInstanceInfo, FriOpeningBatch, FriOpenings, FriOracleInfo, FriPolynomialInfo,
};
use plonky2::fri::verifier::verify_fri_proof;
use plonky2::fri::{FriConfig, FriParams};
use plonky2::hash::merkle_tree::MerkleTree;
use plonky2::iop::challenger::Challenger;
use plonky2::plonk::config::{GenericConfig, PoseidonGoldilocksConfig};
use plonky2::util::timing::TimingTree;
use plonky2::util::{reverse_index_bits_in_place, transpose};

const D: usize = 2;
type C = PoseidonGoldilocksConfig;
type F = <C as GenericConfig<D>>::F;
type FE = <F as Extendable<D>>::Extension;
type H = <C as GenericConfig<D>>::Hasher;

fn params(k: usize, rate_bits: usize, cap_height: usize, arities: Vec<usize>, hiding: bool) -> FriParams {
    FriParams {
        config: FriConfig {
            rate_bits,
            cap_height,
            proof_of_work_bits: 2,
            reduction_strategy: FriReductionStrategy::Fixed(arities.clone()),
            num_query_rounds: 12,
        },
        hiding,
        degree_bits: k,
        reduction_arity_bits: arities,
    }
}

/// Candidate 2: batch FRI with blinding (hiding) - honest proof.
fn batch_honest(hiding: bool) -> Result<()> {
    let mut timing = TimingTree::default();
    let k0 = 7;
    let k1 = 6;
    let k2 = 4;
    let reduction_arity_bits = vec![1, 2, 1];
    let fri_params = FriParams {
        config: FriConfig {
            rate_bits: 1,
            cap_height: 0,
            proof_of_work_bits: 0,
            reduction_strategy: FriReductionStrategy::Fixed(reduction_arity_bits.clone()),
            num_query_rounds: 10,
        },
        hiding,
        degree_bits: k0,
        reduction_arity_bits,
    };
    let n0 = 1 << k0;
    let n1 = 1 << k1;
    let n2 = 1 << k2;
    let trace0 = PolynomialValues::new(F::rand_vec(n0));
    let trace1_0 = PolynomialValues::new(F::rand_vec(n1));
    let trace1_1 = PolynomialValues::new(F::rand_vec(n1));
    let trace2 = PolynomialValues::new(F::rand_vec(n2));

    let trace_oracle: BatchFriOracle<F, C, D> = BatchFriOracle::from_values(
        vec![trace0, trace1_0, trace1_1, trace2],
        fri_params.config.rate_bits,
        fri_params.hiding,
        fri_params.config.cap_height,
        &mut timing,
        &[None; 4],
    );

    let mut challenger = Challenger::<F, H>::new();
    challenger.observe_cap(&trace_oracle.batch_merkle_tree.cap);
    let zeta = challenger.get_extension_challenge::<D>();
    let poly0 = &trace_oracle.polynomials[0];
    let poly1_0 = &trace_oracle.polynomials[1];
    let poly1_1 = &trace_oracle.polynomials[2];
    let poly2 = &trace_oracle.polynomials[3];

    let mk = |num_polys: usize, idx: Vec<usize>| FriInstanceInfo::<F, D> {
        oracles: vec![FriOracleInfo {
            num_polys,
            blinding: hiding,
        }],
        batches: vec![FriBatchInfo {
            point: zeta,
            polynomials: idx
                .into_iter()
                .map(|polynomial_index| FriPolynomialInfo {
                    oracle_index: 0,
                    polynomial_index,
                })
                .collect(),
        }],
    };
    let fri_instances = vec![mk(1, vec![0]), mk(2, vec![1, 2]), mk(1, vec![3])];
    let ev = |p: &PolynomialCoeffs<F>| p.to_extension::<D>().eval(zeta);
    let fri_openings = vec![
        FriOpenings {
            batches: vec![FriOpeningBatch {
                values: vec![ev(poly0)],
            }],
        },
        FriOpenings {
            batches: vec![FriOpeningBatch {
                values: vec![ev(poly1_0), ev(poly1_1)],
            }],
        },
        FriOpenings {
            batches: vec![FriOpeningBatch {
                values: vec![ev(poly2)],
            }],
        },
    ];
    for o in &fri_openings {
        challenger.observe_openings(o);
    }
    let mut verifier_challenger = challenger.clone();

    let proof = BatchFriOracle::prove_openings(
        &[k0, k1, k2],
        &fri_instances,
        &[&trace_oracle],
        &mut challenger,
        &fri_params,
        &mut timing,
    );
    let fri_challenges = verifier_challenger.fri_challenges::<C, D>(
        &proof.commit_phase_merkle_caps,
        &proof.final_poly,
        proof.pow_witness,
        k0,
        &fri_params.config,
        None,
        None,
    );
    verify_batch_fri_proof::<F, C, D>(
        &[k0, k1, k2],
        &fri_instances,
        &fri_openings,
        &fri_challenges,
        &[trace_oracle.batch_merkle_tree.cap.clone()],
        &proof,
        &fri_params,
    )
}

#[test]
fn batch_fri_with_blinding_honest_proof_is_rejected() {
    let plain = batch_honest(false);
    println!("batch FRI, hiding = false, honest proof: {:?}", plain.as_ref().map_err(|e| e.to_string()));
    let blinded = batch_honest(true);
    println!("batch FRI, hiding = true , honest proof: {:?}", blinded.as_ref().map_err(|e| e.to_string()));
    assert!(plain.is_ok());
    // DEFECT: the same honest prover, same data, only blinding switched on -> rejected.
    assert!(blinded.is_err(), "defect not present: blinded batch proof was accepted");
}

