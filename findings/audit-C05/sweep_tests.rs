//! C05 audit: per-element edit sweep under fixed challenges, plain and batch FRI,
//! plus a completeness sweep over strategies.
//! Run: cargo test --offline --release -p plonky2 --test c05_sweep -- --nocapture --test-threads=1

use plonky2::batch_fri::oracle::BatchFriOracle;
use plonky2::batch_fri::verifier::verify_batch_fri_proof;
use plonky2::field::extension::{Extendable, FieldExtension};
use plonky2::field::polynomial::{PolynomialCoeffs, PolynomialValues};
use plonky2::field::types::{Field, Sample};
use plonky2::fri::oracle::PolynomialBatch;
use plonky2::fri::proof::{FriChallenges, FriProof};
use plonky2::fri::reduction_strategies::FriReductionStrategy;
use plonky2::fri::structure::{
    FriBatchInfo, FriInstanceInfo, FriOpeningBatch, FriOpenings, FriOracleInfo, FriPolynomialInfo,
};
use plonky2::fri::verifier::verify_fri_proof;
use plonky2::fri::{FriConfig, FriParams};
use plonky2::hash::merkle_tree::MerkleCap;
use plonky2::iop::challenger::Challenger;
use plonky2::plonk::config::{GenericConfig, PoseidonGoldilocksConfig};
use plonky2::util::timing::TimingTree;

const D: usize = 2;
type C = PoseidonGoldilocksConfig;
type F = <C as GenericConfig<D>>::F;
type FE = <F as Extendable<D>>::Extension;
type H = <C as GenericConfig<D>>::Hasher;

struct Batch {
    degree_bits: Vec<usize>,
    instances: Vec<FriInstanceInfo<F, D>>,
    openings: Vec<FriOpenings<F, D>>,
    challenges: FriChallenges<F, D>,
    cap: MerkleCap<F, H>,
    proof: FriProof<F, H, D>,
    params: FriParams,
}

fn batch_setup(ks: [usize; 3], fri_params: FriParams) -> Batch {
    let mut timing = TimingTree::default();
    let [k0, k1, k2] = ks;
    let trace0 = PolynomialValues::new(F::rand_vec(1 << k0));
    let trace1_0 = PolynomialValues::new(F::rand_vec(1 << k1));
    let trace1_1 = PolynomialValues::new(F::rand_vec(1 << k1));
    let trace2 = PolynomialValues::new(F::rand_vec(1 << k2));
    let oracle: BatchFriOracle<F, C, D> = BatchFriOracle::from_values(
        vec![trace0, trace1_0, trace1_1, trace2],
        fri_params.config.rate_bits,
        false,
        fri_params.config.cap_height,
        &mut timing,
        &[None; 4],
    );
    let mut challenger = Challenger::<F, H>::new();
    challenger.observe_cap(&oracle.batch_merkle_tree.cap);
    let zeta = challenger.get_extension_challenge::<D>();
    let eta = challenger.get_extension_challenge::<D>();
    let mk = |num_polys: usize, b: Vec<(FE, Vec<usize>)>| FriInstanceInfo::<F, D> {
        oracles: vec![FriOracleInfo {
            num_polys,
            blinding: false,
        }],
        batches: b
            .into_iter()
            .map(|(point, idx)| FriBatchInfo {
                point,
                polynomials: idx
                    .into_iter()
                    .map(|polynomial_index| FriPolynomialInfo {
                        oracle_index: 0,
                        polynomial_index,
                    })
                    .collect(),
            })
            .collect(),
    };
    let instances = vec![
        mk(1, vec![(zeta, vec![0]), (eta, vec![0])]),
        mk(2, vec![(zeta, vec![1, 2]), (eta, vec![2])]),
        mk(1, vec![(zeta, vec![3])]),
    ];
    let openings: Vec<FriOpenings<F, D>> = instances
        .iter()
        .map(|inst| FriOpenings {
            batches: inst
                .batches
                .iter()
                .map(|b| FriOpeningBatch {
                    values: b
                        .polynomials
                        .iter()
                        .map(|p| {
                            oracle.polynomials[p.polynomial_index]
                                .to_extension::<D>()
                                .eval(b.point)
                        })
                        .collect(),
                })
                .collect(),
        })
        .collect();
    for o in &openings {
        challenger.observe_openings(o);
    }
    let mut vch = challenger.clone();
    let proof = BatchFriOracle::prove_openings(
        &ks,
        &instances,
        &[&oracle],
        &mut challenger,
        &fri_params,
        &mut timing,
    );
    let challenges = vch.fri_challenges::<C, D>(
        &proof.commit_phase_merkle_caps,
        &proof.final_poly,
        proof.pow_witness,
        k0,
        &fri_params.config,
        None,
        None,
    );
    Batch {
        degree_bits: ks.to_vec(),
        instances,
        openings,
        challenges,
        cap: oracle.batch_merkle_tree.cap.clone(),
        proof,
        params: fri_params,
    }
}

fn batch_verify(b: &Batch, proof: &FriProof<F, H, D>, openings: &[FriOpenings<F, D>]) -> bool {
    let r = std::panic::catch_unwind(std::panic::AssertUnwindSafe(|| {
        verify_batch_fri_proof::<F, C, D>(
            &b.degree_bits,
            &b.instances,
            openings,
            &b.challenges,
            &[b.cap.clone()],
            proof,
            &b.params,
        )
    }));
    matches!(r, Ok(Ok(())))
}

fn bump(x: FE, limb: usize) -> FE {
    let mut a: [F; D] = <FE as FieldExtension<D>>::to_basefield_array(&x);
    a[limb] += F::ONE;
    <FE as FieldExtension<D>>::from_basefield_array(a)
}

/// Enumerate every field element of a FRI proof; `f(proof, idx)` edits element idx, returns false
/// once idx is past the end.
fn edit(proof: &mut FriProof<F, H, D>, mut idx: usize) -> Option<String> {
    macro_rules! hit {
        ($len:expr, $body:expr, $name:expr) => {
            if idx < $len {
                $body(idx);
                return Some(format!("{}[{}]", $name, idx));
            } else {
                idx -= $len;
            }
        };
    }
    for (ci, cap) in proof.commit_phase_merkle_caps.iter_mut().enumerate() {
        let l = cap.0.len() * 4;
        hit!(l, |i: usize| cap.0[i / 4].elements[i % 4] += F::ONE, format!("cap{ci}"));
    }
    {
        let l = proof.final_poly.coeffs.len() * D;
        let fp = &mut proof.final_poly.coeffs;
        hit!(
            l,
            |i: usize| fp[i / D] = bump(fp[i / D], i % D),
            "final_poly"
        );
    }
    for (qi, q) in proof.query_round_proofs.iter_mut().enumerate() {
        for (oi, (evals, mp)) in q.initial_trees_proof.evals_proofs.iter_mut().enumerate() {
            let l = evals.len();
            hit!(l, |i: usize| evals[i] += F::ONE, format!("q{qi}.init{oi}.evals"));
            let l = mp.siblings.len() * 4;
            hit!(
                l,
                |i: usize| mp.siblings[i / 4].elements[i % 4] += F::ONE,
                format!("q{qi}.init{oi}.siblings")
            );
        }
        for (si, s) in q.steps.iter_mut().enumerate() {
            let l = s.evals.len() * D;
            let ev = &mut s.evals;
            hit!(
                l,
                |i: usize| ev[i / D] = bump(ev[i / D], i % D),
                format!("q{qi}.step{si}.evals")
            );
            let l = s.merkle_proof.siblings.len() * 4;
            let mp = &mut s.merkle_proof;
            hit!(
                l,
                |i: usize| mp.siblings[i / 4].elements[i % 4] += F::ONE,
                format!("q{qi}.step{si}.siblings")
            );
        }
    }
    None
}

#[test]
fn batch_element_edit_sweep() {
    let arities = vec![1, 2, 1];
    let p = FriParams {
        config: FriConfig {
            rate_bits: 1,
            cap_height: 0,
            proof_of_work_bits: 1,
            reduction_strategy: FriReductionStrategy::Fixed(arities.clone()),
            num_query_rounds: 3,
        },
        hiding: false,
        degree_bits: 7,
        reduction_arity_bits: arities,
    };
    let b = batch_setup([7, 6, 4], p);
    assert!(batch_verify(&b, &b.proof, &b.openings), "honest batch proof rejected");
    let mut accepted = vec![];
    let mut total = 0;
    for idx in 0.. {
        let mut pr = b.proof.clone();
        match edit(&mut pr, idx) {
            None => break,
            Some(name) => {
                total += 1;
                if batch_verify(&b, &pr, &b.openings) {
                    accepted.push(name);
                }
            }
        }
    }
    println!("batch: {} single-element edits, accepted: {:?}", total, accepted);
    // opening edits
    let mut acc_open = vec![];
    for i in 0..b.openings.len() {
        for j in 0..b.openings[i].batches.len() {
            for l in 0..b.openings[i].batches[j].values.len() {
                let mut o: Vec<FriOpenings<F, D>> = b
                    .openings
                    .iter()
                    .map(|o| FriOpenings {
                        batches: o
                            .batches
                            .iter()
                            .map(|x| FriOpeningBatch {
                                values: x.values.clone(),
                            })
                            .collect(),
                    })
                    .collect();
                o[i].batches[j].values[l] += FE::ONE;
                if batch_verify(&b, &b.proof, &o) {
                    acc_open.push((i, j, l));
                }
            }
        }
    }
    println!("batch: opening edits accepted: {:?}", acc_open);
    // dropping trailing opening batches / instances
    let mut o: Vec<FriOpenings<F, D>> = b
        .openings
        .iter()
        .map(|o| FriOpenings {
            batches: o
                .batches
                .iter()
                .map(|x| FriOpeningBatch {
                    values: x.values.clone(),
                })
                .collect(),
        })
        .collect();
    o[1].batches.pop();
    println!(
        "batch: honest proof, instance-1 openings with the eta batch DROPPED: accepted = {}",
        batch_verify(&b, &b.proof, &o)
    );
}

#[test]
fn batch_completeness_sweep() {
    let mut bad = vec![];
    let mut n = 0;
    for rate_bits in 1..=3 {
        for cap_height in 0..=4 {
            for (ks, ar) in [
                ([7usize, 6, 4], vec![1usize, 2, 1]),
                ([7, 6, 4], vec![1, 2]),
                ([7, 6, 4], vec![1, 1, 1, 1, 1, 1]),
                ([6, 3, 1], vec![3, 2]),
                ([6, 3, 1], vec![3, 2, 1]),
                ([5, 4, 3], vec![1, 1, 3]),
            ] {
                let p = FriParams {
                    config: FriConfig {
                        rate_bits,
                        cap_height,
                        proof_of_work_bits: 1,
                        reduction_strategy: FriReductionStrategy::Fixed(ar.clone()),
                        num_query_rounds: 4,
                    },
                    hiding: false,
                    degree_bits: ks[0],
                    reduction_arity_bits: ar.clone(),
                };
                n += 1;
                let r = std::panic::catch_unwind(|| {
                    let b = batch_setup(ks, p);
                    batch_verify(&b, &b.proof, &b.openings)
                });
                match r {
                    Ok(true) => {}
                    Ok(false) => bad.push(format!("REJECT rate={rate_bits} cap={cap_height} ks={ks:?} ar={ar:?}")),
                    Err(_) => bad.push(format!("panic  rate={rate_bits} cap={cap_height} ks={ks:?} ar={ar:?}")),
                }
            }
        }
    }
    println!("batch completeness: {} configs; non-accepted:", n);
    for b in bad {
        println!("  {b}");
    }
}

// ---------- plain FRI ----------

struct Plain {
    instance: FriInstanceInfo<F, D>,
    openings: FriOpenings<F, D>,
    challenges: FriChallenges<F, D>,
    caps: Vec<MerkleCap<F, H>>,
    proof: FriProof<F, H, D>,
    params: FriParams,
}

fn plain_setup(k: usize, fri_params: FriParams) -> Plain {
    let mut timing = TimingTree::default();
    let hiding = fri_params.hiding;
    let n = 1 << k;
    let blind = [false, true, true];
    let npolys = [3usize, 2, 4];
    let oracles: Vec<PolynomialBatch<F, C, D>> = (0..3)
        .map(|i| {
            PolynomialBatch::from_values(
                (0..npolys[i])
                    .map(|_| PolynomialValues::new(F::rand_vec(n)))
                    .collect(),
                fri_params.config.rate_bits,
                hiding && blind[i],
                fri_params.config.cap_height,
                &mut timing,
                None,
            )
        })
        .collect();
    let mut challenger = Challenger::<F, H>::new();
    for o in &oracles {
        challenger.observe_cap(&o.merkle_tree.cap);
    }
    let zeta = challenger.get_extension_challenge::<D>();
    let g = FE::primitive_root_of_unity(k);
    let all: Vec<FriPolynomialInfo> = (0..3)
        .flat_map(|i| FriPolynomialInfo::from_range(i, 0..npolys[i]))
        .collect();
    let next: Vec<FriPolynomialInfo> = FriPolynomialInfo::from_range(2, 1..3);
    let instance = FriInstanceInfo::<F, D> {
        oracles: (0..3)
            .map(|i| FriOracleInfo {
                num_polys: npolys[i],
                blinding: blind[i],
            })
            .collect(),
        batches: vec![
            FriBatchInfo {
                point: zeta,
                polynomials: all.clone(),
            },
            FriBatchInfo {
                point: g * zeta,
                polynomials: next.clone(),
            },
        ],
    };
    let ev = |p: &FriPolynomialInfo, z: FE| {
        let c: &PolynomialCoeffs<F> = &oracles[p.oracle_index].polynomials[p.polynomial_index];
        c.to_extension::<D>().eval(z)
    };
    let openings = FriOpenings {
        batches: vec![
            FriOpeningBatch {
                values: all.iter().map(|p| ev(p, zeta)).collect(),
            },
            FriOpeningBatch {
                values: next.iter().map(|p| ev(p, g * zeta)).collect(),
            },
        ],
    };
    challenger.observe_openings(&openings);
    let mut vch = challenger.clone();
    let proof = PolynomialBatch::<F, C, D>::prove_openings(
        &instance,
        &oracles.iter().collect::<Vec<_>>(),
        &mut challenger,
        &fri_params,
        None,
        None,
        &mut timing,
    );
    let challenges = vch.fri_challenges::<C, D>(
        &proof.commit_phase_merkle_caps,
        &proof.final_poly,
        proof.pow_witness,
        k,
        &fri_params.config,
        None,
        None,
    );
    Plain {
        instance,
        openings,
        challenges,
        caps: oracles.iter().map(|o| o.merkle_tree.cap.clone()).collect(),
        proof,
        params: fri_params,
    }
}

fn plain_verify(p: &Plain, proof: &FriProof<F, H, D>, openings: &FriOpenings<F, D>) -> bool {
    let r = std::panic::catch_unwind(std::panic::AssertUnwindSafe(|| {
        verify_fri_proof::<F, C, D>(&p.instance, openings, &p.challenges, &p.caps, proof, &p.params)
    }));
    matches!(r, Ok(Ok(())))
}

#[test]
fn plain_element_edit_sweep() {
    for hiding in [false, true] {
        let cfg = FriConfig {
            rate_bits: 2,
            cap_height: 0,
            proof_of_work_bits: 1,
            reduction_strategy: FriReductionStrategy::Fixed(vec![2, 1]),
            num_query_rounds: 3,
        };
        let p = plain_setup(5, cfg.fri_params(5, hiding));
        assert!(plain_verify(&p, &p.proof, &p.openings));
        let mut accepted = vec![];
        let mut total = 0;
        for idx in 0.. {
            let mut pr = p.proof.clone();
            match edit(&mut pr, idx) {
                None => break,
                Some(name) => {
                    total += 1;
                    if plain_verify(&p, &pr, &p.openings) {
                        accepted.push(name);
                    }
                }
            }
        }
        println!("plain hiding={hiding}: {} single-element edits, accepted: {:?}", total, accepted);
        // drop second opening batch
        let o = FriOpenings {
            batches: vec![FriOpeningBatch {
                values: p.openings.batches[0].values.clone(),
            }],
        };
        println!(
            "plain hiding={hiding}: openings with the g*zeta batch DROPPED: accepted = {}",
            plain_verify(&p, &p.proof, &o)
        );
    }
}

#[test]
fn plain_completeness_sweep() {
    let mut bad = vec![];
    let mut n = 0;
    for k in 1..=8usize {
        for rate_bits in 1..=3usize {
            for cap_height in 0..=4usize {
                for strat in [
                    FriReductionStrategy::ConstantArityBits(1, 0),
                    FriReductionStrategy::ConstantArityBits(2, 1),
                    FriReductionStrategy::ConstantArityBits(3, 2),
                    FriReductionStrategy::ConstantArityBits(4, 5),
                    FriReductionStrategy::MinSize(None),
                    FriReductionStrategy::MinSize(Some(3)),
                    FriReductionStrategy::Fixed(vec![]),
                    FriReductionStrategy::Fixed(vec![1]),
                ] {
                    for hiding in [false, true] {
                        for q in [1usize, 5] {
                            if cap_height > k + rate_bits {
                                continue;
                            }
                            let cfg = FriConfig {
                                rate_bits,
                                cap_height,
                                proof_of_work_bits: 1,
                                reduction_strategy: strat.clone(),
                                num_query_rounds: q,
                            };
                            n += 1;
                            let desc = format!(
                                "k={k} rate={rate_bits} cap={cap_height} {strat:?} hiding={hiding} q={q}"
                            );
                            let r = std::panic::catch_unwind(|| {
                                let fp = cfg.fri_params(k, hiding);
                                let ar = fp.reduction_arity_bits.clone();
                                let p = plain_setup(k, fp);
                                (plain_verify(&p, &p.proof, &p.openings), ar)
                            });
                            match r {
                                Ok((true, _)) => {}
                                Ok((false, ar)) => bad.push(format!("REJECT {desc} arities={ar:?}")),
                                Err(_) => {
                                    let ar = std::panic::catch_unwind(|| {
                                        cfg.fri_params(k, hiding).reduction_arity_bits
                                    });
                                    bad.push(format!("panic  {desc} arities={ar:?}"))
                                }
                            }
                        }
                    }
                }
            }
        }
    }
    println!("plain completeness: {} configs; non-accepted:", n);
    for b in bad {
        println!("  {b}");
    }
}
