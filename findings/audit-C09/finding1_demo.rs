//! C09 finding 1: the recursive STARK verifier never ties the witness target
//! `StarkProofTarget::degree_bits` to the degree the circuit was built for when
//! `min_degree_bits_to_support == None`.
//!
//! Run:
//!   cargo test --offline --release -p starky --features verif_hooks \
//!       --test c09_recursive_degree_bits -- --nocapture
#![cfg(feature = "verif_hooks")]

use std::marker::PhantomData;

use anyhow::Result;
use plonky2::field::extension::{Extendable, FieldExtension};
use plonky2::field::packed::PackedField;
use plonky2::field::polynomial::{PolynomialCoeffs, PolynomialValues};
use plonky2::field::types::Field;
use plonky2::fri::oracle::PolynomialBatch;
use plonky2::hash::hash_types::RichField;
use plonky2::iop::challenger::Challenger;
use plonky2::iop::ext_target::ExtensionTarget;
use plonky2::iop::witness::PartialWitness;
use plonky2::plonk::circuit_builder::CircuitBuilder;
use plonky2::plonk::circuit_data::CircuitConfig;
use plonky2::plonk::config::{GenericConfig, PoseidonGoldilocksConfig};
use plonky2::util::timing::TimingTree;
use starky::config::StarkConfig;
use starky::constraint_consumer::{ConstraintConsumer, RecursiveConstraintConsumer};
use starky::evaluation_frame::{StarkEvaluationFrame, StarkFrame};
use starky::proof::StarkProofWithPublicInputs;
use starky::prover::{prove, prove_with_commitment};
use starky::recursive_verifier::{
    add_virtual_stark_proof_with_pis, set_stark_proof_with_pis_target, verify_stark_proof_circuit,
};
use starky::stark::Stark;
use starky::util::trace_rows_to_poly_values;
use starky::verifier::verify_stark_proof;

const D: usize = 2;
type C = PoseidonGoldilocksConfig;
type F = <C as GenericConfig<D>>::F;

/// Verbatim copy of the (private) `starky::fibonacci_stark::FibonacciStark` constraints.
/// Public inputs: [x0, x1, x1 of the LAST row].
#[derive(Copy, Clone)]
struct Fib<F: RichField + Extendable<D>, const D: usize>(PhantomData<F>);

impl<F: RichField + Extendable<D>, const D: usize> Stark<F, D> for Fib<F, D> {
    type EvaluationFrame<FE, P, const D2: usize>
        = StarkFrame<P, P::Scalar, 2, 3>
    where
        FE: FieldExtension<D2, BaseField = F>,
        P: PackedField<Scalar = FE>;
    type EvaluationFrameTarget = StarkFrame<ExtensionTarget<D>, ExtensionTarget<D>, 2, 3>;

    fn eval_packed_generic<FE, P, const D2: usize>(
        &self,
        vars: &Self::EvaluationFrame<FE, P, D2>,
        yc: &mut ConstraintConsumer<P>,
    ) where
        FE: FieldExtension<D2, BaseField = F>,
        P: PackedField<Scalar = FE>,
    {
        let l = vars.get_local_values();
        let n = vars.get_next_values();
        let pi = vars.get_public_inputs();
        yc.constraint_first_row(l[0] - pi[0]);
        yc.constraint_first_row(l[1] - pi[1]);
        yc.constraint_last_row(l[1] - pi[2]);
        yc.constraint_transition(n[0] - l[1]);
        yc.constraint_transition(n[1] - l[0] - l[1]);
    }

    fn eval_ext_circuit(
        &self,
        b: &mut CircuitBuilder<F, D>,
        vars: &Self::EvaluationFrameTarget,
        yc: &mut RecursiveConstraintConsumer<F, D>,
    ) {
        let l = vars.get_local_values();
        let n = vars.get_next_values();
        let pi = vars.get_public_inputs();
        let c0 = b.sub_extension(l[0], pi[0]);
        let c1 = b.sub_extension(l[1], pi[1]);
        let c2 = b.sub_extension(l[1], pi[2]);
        yc.constraint_first_row(b, c0);
        yc.constraint_first_row(b, c1);
        yc.constraint_last_row(b, c2);
        let t0 = b.sub_extension(n[0], l[1]);
        yc.constraint_transition(b, t0);
        let t1 = {
            let t = b.sub_extension(n[1], l[0]);
            b.sub_extension(t, l[1])
        };
        yc.constraint_transition(b, t1);
    }

    fn constraint_degree(&self) -> usize {
        2
    }
}

type S = Fib<F, D>;

fn fib_rows(n: usize) -> Vec<[F; 2]> {
    let mut rows = vec![];
    let (mut a, mut b) = (F::ZERO, F::ONE);
    for _ in 0..n {
        rows.push([a, b]);
        (a, b) = (b, a + b);
    }
    rows
}

/// Builds the recursive verifier circuit for traces of `2^circuit_degree_bits` rows (the plain,
/// fixed-degree flavour: `min_degree_bits_to_support = None`), feeds it `proof` while assigning
/// `witness_degree_bits` to the `degree_bits` witness target, proves and verifies the outer proof.
fn recursive_accepts(
    proof: &StarkProofWithPublicInputs<F, C, D>,
    config: &StarkConfig,
    circuit_degree_bits: usize,
    witness_degree_bits: usize,
) -> Result<()> {
    let stark = Fib(PhantomData);
    let mut builder = CircuitBuilder::<F, D>::new(CircuitConfig::standard_recursion_config());
    let mut pw = PartialWitness::new();
    let pt =
        add_virtual_stark_proof_with_pis(&mut builder, &stark, config, circuit_degree_bits, 0, 0);
    set_stark_proof_with_pis_target(&mut pw, &pt, proof, witness_degree_bits, builder.zero())?;
    verify_stark_proof_circuit::<F, C, S, D>(&mut builder, stark, pt, config, None);
    let data = builder.build::<C>();
    let r = std::panic::catch_unwind(std::panic::AssertUnwindSafe(|| {
        let outer = data.prove(pw)?;
        data.verify(outer)
    }));
    match r {
        Ok(r) => r,
        Err(_) => Err(anyhow::anyhow!("outer prover panicked (unsatisfiable witness)")),
    }
}

#[test]
fn recursive_verifier_accepts_proof_for_other_trace_length() -> Result<()> {
    let config = StarkConfig::standard_fast_config();
    let stark: S = Fib(PhantomData);

    // The recursive circuit is built for traces of 2^5 = 32 rows.
    const BIG: usize = 5;
    // The adversary only has (and only wants to have) a trace of 2^3 = 8 rows.
    const SMALL: usize = 3;
    let n_small = 1 << SMALL;
    let n_big = 1 << BIG;

    let rows_small = fib_rows(n_small);
    let rows_big = fib_rows(n_big);
    let res_small = rows_small[n_small - 1][1]; // F_8  = 21
    let res_big = rows_big[n_big - 1][1]; // F_32 = 2178309
    assert_ne!(res_small, res_big);
    // Claim: "x1 of the last row is 21".
    let pis = [F::ZERO, F::ONE, res_small];

    // Sanity: with the honest 32-row trace this claim is unprovable (prover output is rejected).
    {
        let trace = trace_rows_to_poly_values(rows_big.clone());
        let r = prove::<F, C, S, D>(stark, &config, trace, &pis, None, &mut TimingTree::default());
        if let Ok(p) = r {
            assert!(verify_stark_proof(stark, p, &config, None).is_err());
        }
        println!("[sanity] 32-row Fibonacci trace with claimed result {res_small}: rejected");
    }

    // --- adversarial prover -------------------------------------------------------------
    // Interpolate the 8-row trace, zero-pad the coefficient vectors to length 32 and commit to
    // them on the LDE domain of a 32-row trace: every Merkle path / FRI layer then has exactly
    // the shape the 32-row circuit expects, but the polynomials encode an 8-row trace.
    let trace_small: Vec<PolynomialValues<F>> = trace_rows_to_poly_values(rows_small);
    let padded: Vec<PolynomialCoeffs<F>> = trace_small
        .iter()
        .map(|v| {
            let mut c = v.clone().ifft();
            c.coeffs.resize(n_big, F::ZERO);
            c
        })
        .collect();
    let mut timing = TimingTree::default();
    let trace_commitment = PolynomialBatch::<F, C, D>::from_coeffs(
        padded,
        config.fri_config.rate_bits,
        false,
        config.fri_config.cap_height,
        &mut timing,
        None,
    );
    let mut challenger = Challenger::<F, <C as GenericConfig<D>>::Hasher>::new();
    challenger.observe_elements(&pis);
    config.observe(&mut challenger);
    challenger.observe_cap(&trace_commitment.merkle_tree.cap);
    // (verif_hooks: prove_with_commitment pads the quotient chunks the same way and runs FRI
    // for the degree of the commitment; everything else is the stock prover for an 8-row trace.)
    let forged = prove_with_commitment::<F, C, S, D>(
        &stark,
        &config,
        &trace_small,
        &trace_commitment,
        None,
        None,
        &mut challenger,
        &pis,
        None,
        None,
        &mut timing,
    )?;
    assert_eq!(forged.proof.recover_degree_bits(&config), BIG);

    // Native verifier: derives degree_bits = 5 from the proof shape and rejects.
    let native = verify_stark_proof(stark, forged.clone(), &config, None);
    println!("[native]    verify_stark_proof(forged) = {native:?}");
    assert!(native.is_err());

    // Recursive verifier built for 32 rows, honest assignment degree_bits := 5: rejects.
    let honest_assign = recursive_accepts(&forged, &config, BIG, BIG);
    println!(
        "[recursive] circuit for 2^{BIG} rows, degree_bits witness = {BIG}: {}",
        if honest_assign.is_ok() { "ACCEPTED" } else { "rejected" }
    );
    assert!(honest_assign.is_err());

    // Recursive verifier built for 32 rows, adversarial assignment degree_bits := 3: ACCEPTS.
    let adv_assign = recursive_accepts(&forged, &config, BIG, SMALL);
    println!(
        "[recursive] circuit for 2^{BIG} rows, degree_bits witness = {SMALL}: {}",
        if adv_assign.is_ok() { "ACCEPTED" } else { "rejected" }
    );
    assert!(
        adv_assign.is_ok(),
        "expected the fixed-degree recursive verifier to accept: {adv_assign:?}"
    );
    println!(
        "==> the 2^{BIG}-row recursive verifier accepted public inputs {:?} (F_32 would be {res_big})",
        pis
    );
    Ok(())
}
