//! C09 audit harness: a parametrised STARK plus completeness / soundness sweeps.
//! Run: cargo +nightly test --offline --release -p starky --test c09_audit -- --nocapture --test-threads=1

use std::marker::PhantomData;
use std::panic::{catch_unwind, AssertUnwindSafe};

use plonky2::field::extension::{Extendable, FieldExtension};
use plonky2::field::packed::PackedField;
use plonky2::field::polynomial::PolynomialValues;
use plonky2::field::types::Field;
use plonky2::fri::reduction_strategies::FriReductionStrategy;
use plonky2::fri::FriConfig;
use plonky2::hash::hash_types::RichField;
use plonky2::iop::ext_target::ExtensionTarget;
use plonky2::plonk::circuit_builder::CircuitBuilder;
use plonky2::plonk::config::{GenericConfig, PoseidonGoldilocksConfig};
use plonky2::util::timing::TimingTree;
use starky::config::StarkConfig;
use starky::constraint_consumer::{ConstraintConsumer, RecursiveConstraintConsumer};
use starky::evaluation_frame::{StarkEvaluationFrame, StarkFrame};
use starky::proof::StarkProofWithPublicInputs;
use starky::prover::prove;
use starky::stark::Stark;
use starky::util::trace_rows_to_poly_values;
use starky::verifier::verify_stark_proof;

const D: usize = 2;
type C = PoseidonGoldilocksConfig;
type F = <C as GenericConfig<D>>::F;

/// columns: c0 = counter, c1 = nonlinear recurrence, c2 = c0^d (all rows).
/// public inputs: [c0(first), c1(first), c1(last)]
#[derive(Copy, Clone)]
pub struct GenStark<F: RichField + Extendable<D>, const D: usize> {
    pub d: usize,
    _p: PhantomData<F>,
}

impl<F: RichField + Extendable<D>, const D: usize> GenStark<F, D> {
    pub fn new(d: usize) -> Self {
        Self { d, _p: PhantomData }
    }
    pub fn trace_rows(&self, n: usize, x0: F, x1: F) -> Vec<[F; 3]> {
        let d = self.d;
        let mut rows = Vec::with_capacity(n);
        let mut c0 = x0;
        let mut c1 = x1;
        for _ in 0..n {
            let c2 = if d >= 1 { c0.exp_u64(d as u64) } else { F::ZERO };
            rows.push([c0, c1, c2]);
            let nc1 = if d >= 2 {
                c1.exp_u64((d - 1) as u64) + c0
            } else {
                c1
            };
            c0 += F::ONE;
            c1 = nc1;
        }
        rows
    }
}

fn pow<P: PackedField>(x: P, e: usize) -> P {
    let mut r = P::ONES;
    for _ in 0..e {
        r *= x;
    }
    r
}

impl<F: RichField + Extendable<D>, const D: usize> Stark<F, D> for GenStark<F, D> {
    type EvaluationFrame<FE, P, const D2: usize>
        = StarkFrame<P, P::Scalar, 3, 3>
    where
        FE: FieldExtension<D2, BaseField = F>,
        P: PackedField<Scalar = FE>;
    type EvaluationFrameTarget = StarkFrame<ExtensionTarget<D>, ExtensionTarget<D>, 3, 3>;

    fn eval_packed_generic<FE, P, const D2: usize>(
        &self,
        vars: &Self::EvaluationFrame<FE, P, D2>,
        yc: &mut ConstraintConsumer<P>,
    ) where
        FE: FieldExtension<D2, BaseField = F>,
        P: PackedField<Scalar = FE>,
    {
        let l = vars.get_local_values();
        let n = vars.get_next_values();
        let pi = vars.get_public_inputs();
        let d = self.d;
        if d == 0 {
            return;
        }
        // degree d, all rows
        yc.constraint(l[2] - pow(l[0], d));
        if d >= 2 {
            yc.constraint_first_row(l[0] - pi[0]);
            yc.constraint_first_row(pow(l[1], d - 1) - pow(P::from(pi[1]), d - 1));
            yc.constraint_first_row(l[1] - pi[1]);
            yc.constraint_last_row(l[1] - pi[2]);
            yc.constraint_transition(n[0] - l[0] - P::ONES);
            yc.constraint_transition(n[1] - pow(l[1], d - 1) - l[0]);
        } else {
            // d == 1: only unfiltered linear constraints are possible.
            yc.constraint(l[1] - pi[1]);
        }
    }

    fn eval_ext_circuit(
        &self,
        _builder: &mut CircuitBuilder<F, D>,
        _vars: &Self::EvaluationFrameTarget,
        _yc: &mut RecursiveConstraintConsumer<F, D>,
    ) {
        unimplemented!()
    }

    fn constraint_degree(&self) -> usize {
        self.d
    }
}

type S = GenStark<F, D>;

fn cfg(rate_bits: usize, cap_height: usize, strat: FriReductionStrategy) -> StarkConfig {
    StarkConfig::new(
        100,
        2,
        FriConfig {
            rate_bits,
            cap_height,
            proof_of_work_bits: 10,
            reduction_strategy: strat,
            num_query_rounds: 90usize.div_ceil(rate_bits),
        },
    )
}

fn pis_for(stark: &S, n: usize, rows: &[[F; 3]]) -> [F; 3] {
    let _ = stark;
    [rows[0][0], rows[0][1], rows[n - 1][1]]
}

fn try_prove(
    stark: S,
    config: &StarkConfig,
    rows: Vec<[F; 3]>,
    pis: &[F],
) -> Result<Result<StarkProofWithPublicInputs<F, C, D>, String>, String> {
    let trace: Vec<PolynomialValues<F>> = trace_rows_to_poly_values(rows);
    let r = catch_unwind(AssertUnwindSafe(|| {
        prove::<F, C, S, D>(stark, config, trace, pis, None, &mut TimingTree::default())
    }));
    match r {
        Err(e) => Err(panic_msg(e)),
        Ok(Err(e)) => Ok(Err(format!("{e:?}"))),
        Ok(Ok(p)) => Ok(Ok(p)),
    }
}

fn panic_msg(e: Box<dyn std::any::Any + Send>) -> String {
    if let Some(s) = e.downcast_ref::<String>() {
        s.clone()
    } else if let Some(s) = e.downcast_ref::<&str>() {
        s.to_string()
    } else {
        "panic".into()
    }
}

fn try_verify(
    stark: S,
    config: &StarkConfig,
    proof: StarkProofWithPublicInputs<F, C, D>,
) -> Result<(), String> {
    let r = catch_unwind(AssertUnwindSafe(|| {
        verify_stark_proof(stark, proof, config, None)
    }));
    match r {
        Err(e) => Err(format!("PANIC {}", panic_msg(e))),
        Ok(Err(e)) => Err(format!("{e}")),
        Ok(Ok(())) => Ok(()),
    }
}

#[test]
fn completeness_sweep() {
    std::panic::set_hook(Box::new(|_| {}));
    let mut bad = 0;
    for rate_bits in 1..=3usize {
        for d in 0..=(1 << rate_bits) + 1 {
            for log_n in 0..=7usize {
                for cap_height in [0usize, 1, 4] {
                    if cap_height > log_n + rate_bits {
                        continue;
                    }
                    for strat in [
                        FriReductionStrategy::ConstantArityBits(4, 5),
                        FriReductionStrategy::ConstantArityBits(1, 0),
                        FriReductionStrategy::MinSize(None),
                    ] {
                        let config = cfg(rate_bits, cap_height, strat.clone());
                        let stark = S::new(d);
                        let n = 1 << log_n;
                        let rows = stark.trace_rows(n, F::from_canonical_u64(3), F::from_canonical_u64(5));
                        let pis = pis_for(&stark, n, &rows);
                        let tag = format!("rate_bits={rate_bits} d={d} log_n={log_n} cap={cap_height} strat={strat:?}");
                        match try_prove(stark, &config, rows, &pis) {
                            Err(p) => {
                                bad += 1;
                                println!("PROVE PANIC  {tag}: {p}");
                            }
                            Ok(Err(e)) => {
                                bad += 1;
                                println!("PROVE ERR    {tag}: {e}");
                            }
                            Ok(Ok(proof)) => {
                                if let Err(e) = try_verify(stark, &config, proof) {
                                    bad += 1;
                                    println!("VERIFY FAIL  {tag}: {e}");
                                }
                            }
                        }
                    }
                }
            }
        }
    }
    println!("completeness_sweep: {bad} failures");
}

#[test]
fn soundness_cell_corruption() {
    std::panic::set_hook(Box::new(|_| {}));
    let mut accepted = 0;
    let mut total = 0;
    for rate_bits in 1..=2usize {
        for d in 1..=(1 << rate_bits) + 1 {
            for log_n in [1usize, 3, 5] {
                let config = cfg(rate_bits, 0, FriReductionStrategy::ConstantArityBits(2, 2));
                let stark = S::new(d);
                let n = 1 << log_n;
                let rows = stark.trace_rows(n, F::from_canonical_u64(3), F::from_canonical_u64(5));
                let pis = pis_for(&stark, n, &rows);
                let mut rset = vec![0, 1, n / 2, n - 2, n - 1];
                rset.sort();
                rset.dedup();
                for &r in &rset {
                    for c in 0..3 {
                        let mut rows2 = rows.clone();
                        rows2[r][c] += F::from_canonical_u64(7);
                        total += 1;
                        let tag = format!("rate_bits={rate_bits} d={d} log_n={log_n} row={r} col={c}");
                        match try_prove(stark, &config, rows2, &pis) {
                            Ok(Ok(proof)) => {
                                if try_verify(stark, &config, proof).is_ok() {
                                    accepted += 1;
                                    println!("ACCEPTED corrupted trace: {tag}");
                                }
                            }
                            _ => {}
                        }
                    }
                }
                // public input mismatch
                for k in 0..3 {
                    let mut pis2 = pis;
                    pis2[k] += F::ONE;
                    total += 1;
                    if let Ok(Ok(proof)) = try_prove(stark, &config, rows.clone(), &pis2) {
                        if try_verify(stark, &config, proof).is_ok() {
                            accepted += 1;
                            println!("ACCEPTED wrong PI at prove time: rate_bits={rate_bits} d={d} log_n={log_n} pi={k}");
                        }
                    }
                    if let Ok(Ok(mut proof)) = try_prove(stark, &config, rows.clone(), &pis) {
                        proof.public_inputs[k] += F::ONE;
                        if try_verify(stark, &config, proof).is_ok() {
                            accepted += 1;
                            println!("ACCEPTED PI tampered after proving: rate_bits={rate_bits} d={d} log_n={log_n} pi={k}");
                        }
                    }
                }
            }
        }
    }
    println!("soundness_cell_corruption: {accepted} accepted of {total}");
}

/// Every single field element of an accepted proof is perturbed in turn (+1); every structural
/// component is dropped / duplicated in turn. Nothing may be accepted.
#[test]
fn proof_mangling_sweep() {
    use plonky2::field::extension::quadratic::QuadraticExtension;
    std::panic::set_hook(Box::new(|_| {}));
    type E = QuadraticExtension<F>;
    let mut accepted = 0usize;
    let mut total = 0usize;
    for (rate_bits, d, log_n, strat) in [
        (1usize, 2usize, 5usize, FriReductionStrategy::ConstantArityBits(2, 1)),
        (2, 5, 4, FriReductionStrategy::ConstantArityBits(1, 2)),
        (1, 3, 3, FriReductionStrategy::ConstantArityBits(4, 5)),
    ] {
        let mut config = cfg(rate_bits, 1, strat);
        config.fri_config.num_query_rounds = 40;
        let stark = S::new(d);
        let n = 1 << log_n;
        let rows = stark.trace_rows(n, F::from_canonical_u64(3), F::from_canonical_u64(5));
        let pis = pis_for(&stark, n, &rows);
        let proof = try_prove(stark, &config, rows, &pis).unwrap().unwrap();
        assert!(try_verify(stark, &config, proof.clone()).is_ok());

        let mut check = |name: String, p: StarkProofWithPublicInputs<F, C, D>| {
            total += 1;
            if try_verify(stark, &config, p).is_ok() {
                accepted += 1;
                println!("ACCEPTED mangled proof: {name}");
            }
        };
        let bump_e = |e: &mut E, j: usize| e.0[j] += F::ONE;

        // caps
        for i in 0..proof.proof.trace_cap.0.len() {
            for j in 0..4 {
                let mut p = proof.clone();
                p.proof.trace_cap.0[i].elements[j] += F::ONE;
                check(format!("trace_cap[{i}][{j}]"), p);
            }
        }
        for i in 0..proof.proof.quotient_polys_cap.as_ref().unwrap().0.len() {
            for j in 0..4 {
                let mut p = proof.clone();
                p.proof.quotient_polys_cap.as_mut().unwrap().0[i].elements[j] += F::ONE;
                check(format!("quotient_cap[{i}][{j}]"), p);
            }
        }
        // openings
        for i in 0..3 {
            for j in 0..2 {
                let mut p = proof.clone();
                bump_e(&mut p.proof.openings.local_values[i], j);
                check(format!("local[{i}].{j}"), p);
                let mut p = proof.clone();
                bump_e(&mut p.proof.openings.next_values[i], j);
                check(format!("next[{i}].{j}"), p);
            }
        }
        for i in 0..proof.proof.openings.quotient_polys.as_ref().unwrap().len() {
            for j in 0..2 {
                let mut p = proof.clone();
                bump_e(&mut p.proof.openings.quotient_polys.as_mut().unwrap()[i], j);
                check(format!("quotient_open[{i}].{j}"), p);
            }
        }
        // swap two openings
        {
            let mut p = proof.clone();
            p.proof.openings.local_values.swap(0, 1);
            check("swap local 0,1".into(), p);
            let mut p = proof.clone();
            let (a, b) = (p.proof.openings.local_values.clone(), p.proof.openings.next_values.clone());
            p.proof.openings.local_values = b;
            p.proof.openings.next_values = a;
            check("swap local/next".into(), p);
        }
        // structural
        {
            let mut p = proof.clone();
            p.proof.quotient_polys_cap = None;
            check("drop quotient cap".into(), p);
            let mut p = proof.clone();
            p.proof.openings.quotient_polys = None;
            check("drop quotient openings".into(), p);
            let mut p = proof.clone();
            p.proof.auxiliary_polys_cap = Some(p.proof.trace_cap.clone());
            check("add aux cap".into(), p);
            let mut p = proof.clone();
            p.proof.openings.auxiliary_polys = Some(vec![]);
            p.proof.openings.auxiliary_polys_next = Some(vec![]);
            check("add empty aux openings".into(), p);
            let mut p = proof.clone();
            p.proof.openings.ctl_zs_first = Some(vec![]);
            check("add empty ctl_zs_first".into(), p);
            let mut p = proof.clone();
            p.proof.openings.quotient_polys.as_mut().unwrap().push(E::ZERO);
            check("extra quotient opening".into(), p);
            let mut p = proof.clone();
            p.proof.openings.local_values.push(E::ZERO);
            check("extra local opening".into(), p);
            let mut p = proof.clone();
            p.public_inputs.push(F::ZERO);
            check("extra PI".into(), p);
            let mut p = proof.clone();
            p.proof.opening_proof.query_round_proofs.pop();
            check("drop last query round".into(), p);
            let mut p = proof.clone();
            let q = p.proof.opening_proof.query_round_proofs[0].clone();
            p.proof.opening_proof.query_round_proofs.push(q);
            check("dup query round".into(), p);
            let mut p = proof.clone();
            p.proof.opening_proof.query_round_proofs.swap(0, 1);
            check("swap query rounds 0,1".into(), p);
            let mut p = proof.clone();
            let q = p.proof.opening_proof.query_round_proofs[0].clone();
            for r in p.proof.opening_proof.query_round_proofs.iter_mut() {
                *r = q.clone();
            }
            check("all query rounds := round 0".into(), p);
            let mut p = proof.clone();
            p.proof.opening_proof.final_poly.coeffs.push(E::ZERO);
            check("final_poly + trailing zero".into(), p);
            if !proof.proof.opening_proof.commit_phase_merkle_caps.is_empty() {
                let mut p = proof.clone();
                p.proof.opening_proof.commit_phase_merkle_caps.pop();
                check("drop commit cap".into(), p);
                let mut p = proof.clone();
                let c = p.proof.opening_proof.commit_phase_merkle_caps[0].clone();
                p.proof.opening_proof.commit_phase_merkle_caps.push(c);
                check("dup commit cap".into(), p);
            }
        }
        // FRI proof elements
        {
            let fp = &proof.proof.opening_proof;
            for i in 0..fp.commit_phase_merkle_caps.len() {
                for k in 0..fp.commit_phase_merkle_caps[i].0.len() {
                    for j in 0..4 {
                        let mut p = proof.clone();
                        p.proof.opening_proof.commit_phase_merkle_caps[i].0[k].elements[j] += F::ONE;
                        check(format!("commit_cap[{i}][{k}][{j}]"), p);
                    }
                }
            }
            for i in 0..fp.final_poly.coeffs.len() {
                for j in 0..2 {
                    let mut p = proof.clone();
                    bump_e(&mut p.proof.opening_proof.final_poly.coeffs[i], j);
                    check(format!("final_poly[{i}].{j}"), p);
                }
            }
            {
                let mut p = proof.clone();
                p.proof.opening_proof.pow_witness += F::ONE;
                check("pow_witness".into(), p);
            }
            let nr = fp.query_round_proofs.len();
            for r in [0, 1, nr - 1] {
                let q = &fp.query_round_proofs[r];
                for (k, (ev, mp)) in q.initial_trees_proof.evals_proofs.iter().enumerate() {
                    for i in 0..ev.len() {
                        let mut p = proof.clone();
                        p.proof.opening_proof.query_round_proofs[r].initial_trees_proof.evals_proofs[k].0[i] += F::ONE;
                        check(format!("q{r}.init[{k}].eval[{i}]"), p);
                    }
                    for i in 0..mp.siblings.len() {
                        for j in 0..4 {
                            let mut p = proof.clone();
                            p.proof.opening_proof.query_round_proofs[r].initial_trees_proof.evals_proofs[k].1.siblings[i].elements[j] += F::ONE;
                            check(format!("q{r}.init[{k}].sib[{i}][{j}]"), p);
                        }
                    }
                }
                for (s, st) in q.steps.iter().enumerate() {
                    for i in 0..st.evals.len() {
                        for j in 0..2 {
                            let mut p = proof.clone();
                            bump_e(&mut p.proof.opening_proof.query_round_proofs[r].steps[s].evals[i], j);
                            check(format!("q{r}.step[{s}].eval[{i}].{j}"), p);
                        }
                    }
                    for i in 0..st.merkle_proof.siblings.len() {
                        for j in 0..4 {
                            let mut p = proof.clone();
                            p.proof.opening_proof.query_round_proofs[r].steps[s].merkle_proof.siblings[i].elements[j] += F::ONE;
                            check(format!("q{r}.step[{s}].sib[{i}][{j}]"), p);
                        }
                    }
                }
            }
        }
    }
    println!("proof_mangling_sweep: {accepted} accepted of {total}");
    assert_eq!(accepted, 0);
}
