//! C09 finding 2: for a STARK with `constraint_degree() == 0` (no quotient polynomials) neither
//! verifier ever looks at the constraint accumulator, so degree-0 constraints -- constraints on
//! the public inputs only -- are silently ignored.
//!
//! Run:
//!   cargo test --offline --release -p starky --test c09_degree0_constraints -- --nocapture

use std::marker::PhantomData;

use anyhow::Result;
use plonky2::field::extension::{Extendable, FieldExtension};
use plonky2::field::packed::PackedField;
use plonky2::field::types::Field;
use plonky2::hash::hash_types::RichField;
use plonky2::iop::ext_target::ExtensionTarget;
use plonky2::iop::witness::PartialWitness;
use plonky2::plonk::circuit_builder::CircuitBuilder;
use plonky2::plonk::circuit_data::CircuitConfig;
use plonky2::plonk::config::{GenericConfig, PoseidonGoldilocksConfig};
use plonky2::util::timing::TimingTree;
use starky::config::StarkConfig;
use starky::constraint_consumer::{ConstraintConsumer, RecursiveConstraintConsumer};
use starky::evaluation_frame::{StarkEvaluationFrame, StarkFrame};
use starky::prover::prove;
use starky::recursive_verifier::{
    add_virtual_stark_proof_with_pis, set_stark_proof_with_pis_target, verify_stark_proof_circuit,
};
use starky::stark::Stark;
use starky::util::trace_rows_to_poly_values;
use starky::verifier::verify_stark_proof;

const D: usize = 2;
type C = PoseidonGoldilocksConfig;
type F = <C as GenericConfig<D>>::F;

/// One unconstrained column; two public inputs which must satisfy `pi[1] == pi[0] + 1`.
/// The single constraint does not involve the trace, i.e. it has degree 0, and the STARK
/// honestly reports `constraint_degree() == 0`.  `DEG` lets us compare with degree 1.
#[derive(Copy, Clone)]
struct PiOnly<F: RichField + Extendable<D>, const D: usize, const DEG: usize>(PhantomData<F>);

impl<F: RichField + Extendable<D>, const D: usize, const DEG: usize> Stark<F, D>
    for PiOnly<F, D, DEG>
{
    type EvaluationFrame<FE, P, const D2: usize>
        = StarkFrame<P, P::Scalar, 1, 2>
    where
        FE: FieldExtension<D2, BaseField = F>,
        P: PackedField<Scalar = FE>;
    type EvaluationFrameTarget = StarkFrame<ExtensionTarget<D>, ExtensionTarget<D>, 1, 2>;

    fn eval_packed_generic<FE, P, const D2: usize>(
        &self,
        vars: &Self::EvaluationFrame<FE, P, D2>,
        yc: &mut ConstraintConsumer<P>,
    ) where
        FE: FieldExtension<D2, BaseField = F>,
        P: PackedField<Scalar = FE>,
    {
        let pi = vars.get_public_inputs();
        yc.constraint(P::from(pi[1] - pi[0] - FE::ONE));
    }

    fn eval_ext_circuit(
        &self,
        b: &mut CircuitBuilder<F, D>,
        vars: &Self::EvaluationFrameTarget,
        yc: &mut RecursiveConstraintConsumer<F, D>,
    ) {
        let pi = vars.get_public_inputs();
        let one = b.one_extension();
        let t = b.sub_extension(pi[1], pi[0]);
        let c = b.sub_extension(t, one);
        yc.constraint(b, c);
    }

    fn constraint_degree(&self) -> usize {
        DEG
    }
}

fn run<const DEG: usize>(pis: [F; 2]) -> (bool, bool) {
    type S<const DEG: usize> = PiOnly<F, D, DEG>;
    let config = StarkConfig::standard_fast_config();
    let stark: S<DEG> = PiOnly(PhantomData);
    let rows: Vec<[F; 1]> = (0..32).map(|i| [F::from_canonical_usize(i * i)]).collect();
    let trace = trace_rows_to_poly_values(rows);
    let proof = std::panic::catch_unwind(std::panic::AssertUnwindSafe(|| {
        prove::<F, C, S<DEG>, D>(stark, &config, trace, &pis, None, &mut TimingTree::default())
    }));
    let proof = match proof {
        Ok(Ok(p)) => p,
        _ => return (false, false), // no proof obtained
    };
    let native = verify_stark_proof(stark, proof.clone(), &config, None).is_ok();

    let recursive = std::panic::catch_unwind(std::panic::AssertUnwindSafe(|| -> Result<()> {
        let mut builder = CircuitBuilder::<F, D>::new(CircuitConfig::standard_recursion_config());
        let mut pw = PartialWitness::new();
        let db = proof.proof.recover_degree_bits(&config);
        let pt = add_virtual_stark_proof_with_pis(&mut builder, &stark, &config, db, 0, 0);
        set_stark_proof_with_pis_target(&mut pw, &pt, &proof, db, builder.zero())?;
        verify_stark_proof_circuit::<F, C, S<DEG>, D>(&mut builder, stark, pt, &config, None);
        let data = builder.build::<C>();
        let outer = data.prove(pw)?;
        data.verify(outer)
    }));
    let recursive = matches!(recursive, Ok(Ok(())));
    (native, recursive)
}

#[test]
fn degree0_constraints_are_never_checked() {
    std::panic::set_hook(Box::new(|_| {}));
    let good = [F::from_canonical_u64(41), F::from_canonical_u64(42)];
    let bad = [F::from_canonical_u64(41), F::from_canonical_u64(1000)];

    let (n, r) = run::<1>(good);
    println!("constraint_degree=1, pi = [41, 42]   (satisfying): native accepted={n} recursive accepted={r}");
    assert!(n && r);
    let (n, r) = run::<1>(bad);
    println!("constraint_degree=1, pi = [41, 1000] (violating):  native accepted={n} recursive accepted={r}");
    assert!(!n && !r);

    let (n, r) = run::<0>(good);
    println!("constraint_degree=0, pi = [41, 42]   (satisfying): native accepted={n} recursive accepted={r}");
    assert!(n && r);
    let (n, r) = run::<0>(bad);
    println!("constraint_degree=0, pi = [41, 1000] (violating):  native accepted={n} recursive accepted={r}");
    assert!(n && r, "expected the defect: violating public inputs accepted");
    println!("==> with constraint_degree()==0 the violated constraint pi[1] == pi[0]+1 was accepted by both verifiers");
}
