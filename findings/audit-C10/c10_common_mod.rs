//! Shared multi-STARK harness for the C10 audit tests.
//!
//! The `starky` crate ships the building blocks of a multi-table system (`get_ctl_data`,
//! `prove_with_commitment`, `CtlCheckVars::from_proof`, `CrossTableLookup::num_ctl_helpers_zs_all`,
//! `verify_stark_proof_with_challenges`, `verify_cross_table_lookups`) but no driver.  This module is
//! the obvious driver, wired exactly like the crate documentation / zk_evm do it, using only public API.
#![allow(dead_code)]

use std::panic::{catch_unwind, AssertUnwindSafe};

use anyhow::{anyhow, Result};
use hashbrown::HashMap;
use plonky2::field::extension::{Extendable, FieldExtension};
use plonky2::field::packed::PackedField;
use plonky2::field::polynomial::PolynomialValues;
use plonky2::field::types::Field;
use plonky2::fri::oracle::PolynomialBatch;
use plonky2::fri::reduction_strategies::FriReductionStrategy;
use plonky2::fri::FriConfig;
use plonky2::hash::hash_types::RichField;
use plonky2::iop::challenger::Challenger;
use plonky2::iop::ext_target::ExtensionTarget;
use plonky2::plonk::circuit_builder::CircuitBuilder;
use plonky2::plonk::config::{GenericConfig, PoseidonGoldilocksConfig};
use plonky2::util::timing::TimingTree;
use starky::config::StarkConfig;
use starky::constraint_consumer::{ConstraintConsumer, RecursiveConstraintConsumer};
use starky::cross_table_lookup::{
    get_ctl_data, verify_cross_table_lookups, CrossTableLookup, CtlCheckVars,
};
use starky::evaluation_frame::{StarkEvaluationFrame, StarkFrame};
use starky::lookup::{get_grand_product_challenge_set, Lookup};
use starky::proof::StarkProofWithPublicInputs;
use starky::prover::prove_with_commitment;
use starky::stark::Stark;
use starky::verifier::verify_stark_proof_with_challenges;

pub const D: usize = 2;
pub type C = PoseidonGoldilocksConfig;
pub type F = <C as GenericConfig<D>>::F;
pub type H = <C as GenericConfig<D>>::Hasher;

/// Number of trace columns of every test table.
pub const COLS: usize = 8;

/// A STARK without transition constraints of its own: some columns are forced to be boolean (so that
/// they can serve as CTL / lookup filters), everything else is free.  Lookups are declared through
/// a function pointer because `Lookup` is not `Clone`.
#[derive(Clone)]
pub struct FreeStark {
    pub degree: usize,
    pub bool_cols: Vec<usize>,
    pub mk_lookups: fn() -> Vec<Lookup<F>>,
    pub ctls: bool,
}

pub fn no_lookups() -> Vec<Lookup<F>> {
    vec![]
}

impl FreeStark {
    pub fn new(degree: usize, bool_cols: Vec<usize>) -> Self {
        Self {
            degree,
            bool_cols,
            mk_lookups: no_lookups,
            ctls: true,
        }
    }
}

impl Stark<F, D> for FreeStark {
    type EvaluationFrame<FE, P, const D2: usize>
        = StarkFrame<P, P::Scalar, COLS, 0>
    where
        FE: FieldExtension<D2, BaseField = F>,
        P: PackedField<Scalar = FE>;
    type EvaluationFrameTarget = StarkFrame<ExtensionTarget<D>, ExtensionTarget<D>, COLS, 0>;

    fn eval_packed_generic<FE, P, const D2: usize>(
        &self,
        vars: &Self::EvaluationFrame<FE, P, D2>,
        yield_constr: &mut ConstraintConsumer<P>,
    ) where
        FE: FieldExtension<D2, BaseField = F>,
        P: PackedField<Scalar = FE>,
    {
        let lv = vars.get_local_values();
        for &c in &self.bool_cols {
            yield_constr.constraint(lv[c] * (lv[c] - P::ONES));
        }
    }

    fn eval_ext_circuit(
        &self,
        _builder: &mut CircuitBuilder<F, D>,
        _vars: &Self::EvaluationFrameTarget,
        _yield_constr: &mut RecursiveConstraintConsumer<F, D>,
    ) {
        unimplemented!()
    }

    fn constraint_degree(&self) -> usize {
        self.degree
    }

    fn lookups(&self) -> Vec<Lookup<F>> {
        (self.mk_lookups)()
    }

    fn requires_ctls(&self) -> bool {
        self.ctls
    }
}

pub fn test_config(rate_bits: usize) -> StarkConfig {
    StarkConfig {
        security_bits: 30,
        num_challenges: 2,
        fri_config: FriConfig {
            rate_bits,
            cap_height: 1,
            proof_of_work_bits: 4,
            reduction_strategy: FriReductionStrategy::ConstantArityBits(1, 2),
            num_query_rounds: 30 / rate_bits,
        },
    }
}

/// Column-major trace from row-major u64 rows.
pub fn trace_from_rows(rows: &[[u64; COLS]]) -> Vec<PolynomialValues<F>> {
    assert!(rows.len().is_power_of_two());
    (0..COLS)
        .map(|c| {
            PolynomialValues::new(
                rows.iter()
                    .map(|r| F::from_canonical_u64(r[c]))
                    .collect::<Vec<_>>(),
            )
        })
        .collect()
}

pub struct System<const N: usize> {
    pub starks: [FreeStark; N],
    pub ctls: Vec<CrossTableLookup<F>>,
    pub config: StarkConfig,
    /// The `max_constraint_degree` handed to `get_ctl_data`.
    pub ctl_degree: usize,
    /// For every CTL, the number of looking entries per table (only used by `own_helper_count`,
    /// because the fields of `CrossTableLookup` are private).
    pub looking_counts: Vec<[usize; N]>,
}

pub type Proofs = Vec<StarkProofWithPublicInputs<F, C, D>>;

fn panic_msg(e: Box<dyn std::any::Any + Send>) -> String {
    if let Some(s) = e.downcast_ref::<&str>() {
        s.to_string()
    } else if let Some(s) = e.downcast_ref::<String>() {
        s.clone()
    } else {
        "<non-string panic>".to_string()
    }
}

impl<const N: usize> System<N> {
    /// The honest multi-table prover (public starky API only). Panics are converted to errors.
    pub fn prove(&self, traces: &[Vec<PolynomialValues<F>>; N]) -> Result<Proofs> {
        catch_unwind(AssertUnwindSafe(|| self.prove_inner(traces)))
            .unwrap_or_else(|e| Err(anyhow!("PROVER PANIC: {}", panic_msg(e))))
    }

    fn prove_inner(&self, traces: &[Vec<PolynomialValues<F>>; N]) -> Result<Proofs> {
        let mut timing = TimingTree::default();
        let config = &self.config;
        let commitments = traces
            .iter()
            .map(|t| {
                PolynomialBatch::<F, C, D>::from_values(
                    t.clone(),
                    config.fri_config.rate_bits,
                    false,
                    config.fri_config.cap_height,
                    &mut timing,
                    None,
                )
            })
            .collect::<Vec<_>>();
        let mut challenger = Challenger::<F, H>::new();
        for c in &commitments {
            challenger.observe_cap(&c.merkle_tree.cap);
        }
        // Shared CTL challenges, drawn after all trace caps.
        let (ctl_challenges, ctl_data) = get_ctl_data::<F, C, D, N>(
            config,
            traces,
            &self.ctls,
            &mut challenger,
            self.ctl_degree,
        );
        let mut proofs = vec![];
        for i in 0..N {
            // `prove_with_commitment` assumes the config was observed; the verifier's `get_challenges` observes it.
            config.observe(&mut challenger);
            proofs.push(prove_with_commitment::<F, C, FreeStark, D>(
                &self.starks[i],
                config,
                &traces[i],
                &commitments[i],
                Some(&ctl_data[i]),
                Some(&ctl_challenges),
                &mut challenger,
                &[],
                None,
                None,
                &mut timing,
            )?);
        }
        Ok(proofs)
    }

    /// The multi-table verifier (public starky API only). Panics are converted to errors.
    pub fn verify(&self, proofs: &Proofs) -> Result<()> {
        self.verify_opts(proofs, &HashMap::new(), false)
    }

    /// `extra_rows`: extra looking rows per CTL index (values not belonging to any table).
    /// `own_helper_count`: do not use `CrossTableLookup::num_ctl_helpers_zs_all` but count the helper
    /// columns the way the prover (`cross_table_lookup_data` / `partial_sums`) lays them out.
    pub fn verify_opts(
        &self,
        proofs: &Proofs,
        extra_rows: &HashMap<usize, Vec<Vec<F>>>,
        own_helper_count: bool,
    ) -> Result<()> {
        catch_unwind(AssertUnwindSafe(|| {
            self.verify_inner(proofs, extra_rows, own_helper_count)
        }))
        .unwrap_or_else(|e| Err(anyhow!("VERIFIER PANIC: {}", panic_msg(e))))
    }

    fn verify_inner(
        &self,
        proofs: &Proofs,
        extra_rows: &HashMap<usize, Vec<Vec<F>>>,
        own_helper_count: bool,
    ) -> Result<()> {
        let config = &self.config;
        let mut challenger = Challenger::<F, H>::new();
        for p in proofs {
            challenger.observe_cap(&p.proof.trace_cap);
        }
        let ctl_challenges =
            get_grand_product_challenge_set(&mut challenger, config.num_challenges);
        for i in 0..N {
            let stark = &self.starks[i];
            let p = &proofs[i];
            let (mut total_helpers, _num_zs, mut helpers_by_ctl) =
                CrossTableLookup::num_ctl_helpers_zs_all(
                    &self.ctls,
                    i,
                    config.num_challenges,
                    stark.constraint_degree(),
                );
            if own_helper_count {
                helpers_by_ctl = self
                    .looking_counts
                    .iter()
                    .map(|per_table| {
                        let n = per_table[i];
                        if n > 1 {
                            n.div_ceil(stark.constraint_degree() - 1)
                        } else {
                            0
                        }
                    })
                    .collect();
                total_helpers = helpers_by_ctl.iter().sum::<usize>() * config.num_challenges;
            }
            let ctl_vars = CtlCheckVars::from_proof::<C>(
                i,
                &p.proof,
                &self.ctls,
                &ctl_challenges,
                stark.num_lookup_helper_columns(config),
                total_helpers,
                &helpers_by_ctl,
            );
            let challenges = p.proof.get_challenges(
                stark,
                &p.public_inputs,
                &mut challenger,
                Some(&ctl_challenges),
                Some(&ctl_vars),
                true,
                config,
                None,
            );
            verify_stark_proof_with_challenges(
                stark,
                &p.proof,
                &challenges,
                Some(&ctl_vars),
                &p.public_inputs,
                config,
            )
            .map_err(|e| anyhow!("table {i}: {e}"))?;
        }
        let zs_first: [Vec<F>; N] = core::array::from_fn(|i| {
            proofs[i]
                .proof
                .openings
                .ctl_zs_first
                .clone()
                .unwrap_or_default()
        });
        let extra: HashMap<usize, Vec<F>> = extra_rows
            .iter()
            .map(|(&k, rows)| {
                let sums = ctl_challenges
                    .challenges
                    .iter()
                    .map(|ch| {
                        rows.iter()
                            .map(|row| ch.combine::<F, F, _, 1>(row.iter()).inverse())
                            .sum::<F>()
                    })
                    .collect::<Vec<F>>();
                (k, sums)
            })
            .collect();
        verify_cross_table_lookups::<F, D, N>(&self.ctls, zs_first, &extra, config)
    }

    pub fn prove_and_verify(&self, traces: &[Vec<PolynomialValues<F>>; N]) -> Result<()> {
        let proofs = self.prove(traces)?;
        self.verify(&proofs)
    }
}

pub fn f(x: u64) -> F {
    F::from_canonical_u64(x)
}

#[allow(unused)]
pub fn unused<FF: RichField + Extendable<2>>() {}
