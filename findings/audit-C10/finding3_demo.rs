//! Finding 3: when the looking entries of one table are not adjacent in `looking_tables`, the prover
//! (`ctl_helper_zs_cols`, which uses `Itertools::group_by`) builds one running sum per *run* of equal table
//! indices, while every consumer (`cross_table_lookup_data` itself when it fills `columns`/`filter`,
//! `CtlCheckVars::from_proof`, `num_ctl_helpers_zs_all`, `verify_cross_table_lookups`) works per *table*.
//! The honest proof of a true statement is rejected.
mod c10_common;
use c10_common::*;
use plonky2::field::polynomial::PolynomialValues;
use starky::cross_table_lookup::{CrossTableLookup, TableWithColumns};
use starky::lookup::{Column, Filter};

fn twc(table: usize, cols: [usize; 2], filter: usize) -> TableWithColumns<F> {
    TableWithColumns::new(
        table,
        Column::singles(cols).collect(),
        Filter::new_simple(Column::single(filter)),
    )
}

fn rows_ab(a: &[Option<(u64, u64)>], b: &[Option<(u64, u64)>]) -> Vec<[u64; COLS]> {
    a.iter()
        .zip(b)
        .map(|(a, b)| {
            let (a0, a1, fa) = a.map(|(x, y)| (x, y, 1)).unwrap_or((7, 7, 0));
            let (b0, b1, fb) = b.map(|(x, y)| (x, y, 1)).unwrap_or((9, 9, 0));
            [a0, a1, fa, b0, b1, fb, 0, 0]
        })
        .collect()
}

fn traces() -> [Vec<PolynomialValues<F>>; 3] {
    // T0: view A = {(1,11),(2,12)}, view B = {(5,15)}
    let t0 = rows_ab(
        &[Some((1, 11)), Some((2, 12)), None, None],
        &[None, None, Some((5, 15)), None],
    );
    // T1: view A = {(3,13),(4,14)}
    let t1 = rows_ab(&[None, Some((3, 13)), Some((4, 14)), None], &[None; 4]);
    // T2 (looked): view A = all five rows
    let t2 = rows_ab(
        &[Some((5, 15)), Some((4, 14)), Some((3, 13)), Some((2, 12)), Some((1, 11)), None, None, None],
        &[None; 8],
    );
    [trace_from_rows(&t0), trace_from_rows(&t1), trace_from_rows(&t2)]
}

fn system(looking: Vec<TableWithColumns<F>>) -> System<3> {
    System::<3> {
        starks: [
            FreeStark::new(3, vec![2, 5]),
            FreeStark::new(3, vec![2, 5]),
            FreeStark::new(3, vec![2, 5]),
        ],
        ctls: vec![CrossTableLookup::new(looking, twc(2, [0, 1], 2))],
        config: test_config(1),
        ctl_degree: 3,
        looking_counts: vec![[2, 1, 0]],
    }
}

#[test]
fn non_adjacent_repeated_looking_table() {
    let first_line = |r: &anyhow::Result<()>| r.as_ref().map_err(|e| e.to_string().lines().next().unwrap().to_string()).map(|_| "accepted").map_err(|e| e);
    // Same statement, same traces; only the declaration order of the looking tables differs.
    let adjacent = system(vec![twc(0, [0, 1], 2), twc(0, [3, 4], 5), twc(1, [0, 1], 2)]);
    let r = adjacent.prove_and_verify(&traces());
    println!("looking [T0.A, T0.B, T1.A] -> T2.A, honest: {:?}", first_line(&r));
    assert!(r.is_ok());

    let split = system(vec![twc(0, [0, 1], 2), twc(1, [0, 1], 2), twc(0, [3, 4], 5)]);
    let proofs = split.prove(&traces());
    match proofs {
        Err(e) => {
            println!("looking [T0.A, T1.A, T0.B] -> T2.A, honest: prover failed: {e}");
        }
        Ok(proofs) => {
            println!(
                "looking [T0.A, T1.A, T0.B] -> T2.A: prover opened {} CTL Z polynomials for T0 (2 expected: one per challenge)",
                proofs[0].proof.openings.ctl_zs_first.as_ref().unwrap().len()
            );
            let r1 = split.verify_opts(&proofs, &Default::default(), false);
            let r2 = split.verify_opts(&proofs, &Default::default(), true);
            println!("   verify (num_ctl_helpers_zs_all layout): {:?}", first_line(&r1));
            println!("   verify (looking-entries-only layout):   {:?}", first_line(&r2));
            assert!(r1.is_err() && r2.is_err(), "defect not present");
        }
    }
}
