//! Finding 2: a CTL whose looked table also appears among its looking tables ("self-lookup") cannot be
//! verified: `CrossTableLookup::num_ctl_helpers_zs_all` counts the looked appearance as if it were a
//! looking one, so the verifier-side layout (`CtlCheckVars::from_proof`) disagrees with the layout produced
//! by the prover (`cross_table_lookup_data` / `partial_sums`).
mod c10_common;
use c10_common::*;
use starky::cross_table_lookup::{CrossTableLookup, TableWithColumns};
use starky::lookup::{Column, Filter};

fn twc(table: usize, cols: [usize; 2], filter: usize) -> TableWithColumns<F> {
    TableWithColumns::new(
        table,
        Column::singles(cols).collect(),
        Filter::new_simple(Column::single(filter)),
    )
}

/// (c0,c1 | f2) is view A, (c3,c4 | f5) is view B.
fn rows_ab(a: &[Option<(u64, u64)>], b: &[Option<(u64, u64)>]) -> Vec<[u64; COLS]> {
    a.iter()
        .zip(b)
        .map(|(a, b)| {
            let (a0, a1, fa) = a.map(|(x, y)| (x, y, 1)).unwrap_or((7, 7, 0));
            let (b0, b1, fb) = b.map(|(x, y)| (x, y, 1)).unwrap_or((9, 9, 0));
            [a0, a1, fa, b0, b1, fb, 0, 0]
        })
        .collect()
}

#[test]
fn self_lookup() {
    // ---- T0.A looking into T0.B, the two filtered multisets are equal.
    let a = [Some((1, 11)), None, Some((2, 12)), Some((3, 13)), None, None, None, None];
    let b = [None, Some((3, 13)), None, None, Some((1, 11)), None, Some((2, 12)), None];
    let sys = System::<1> {
        starks: [FreeStark::new(3, vec![2, 5])],
        ctls: vec![CrossTableLookup::new(vec![twc(0, [0, 1], 2)], twc(0, [3, 4], 5))],
        config: test_config(1),
        ctl_degree: 3,
        looking_counts: vec![[1]],
    };
    let (tot, zs, by_ctl) = CrossTableLookup::num_ctl_helpers_zs_all(&sys.ctls, 0, 2, 3);
    println!("num_ctl_helpers_zs_all(T0) = (helpers {tot}, zs {zs}, by_ctl {by_ctl:?}); the prover commits to 0 helpers and 4 zs");
    let proofs = sys.prove(&[trace_from_rows(&rows_ab(&a, &b))]).unwrap();
    let aux = proofs[0].proof.openings.auxiliary_polys.as_ref().unwrap().len();
    println!("auxiliary polynomials in the honest proof: {aux}");
    let r_lib = sys.verify_opts(&proofs, &Default::default(), false);
    let r_own = sys.verify_opts(&proofs, &Default::default(), true);
    println!("T0.A -> T0.B honest; verifier laid out with num_ctl_helpers_zs_all: {:?}", r_lib.as_ref().map_err(|e| e.to_string().lines().next().unwrap().to_string()));
    println!("T0.A -> T0.B honest; verifier laid out like the prover (looking entries only): {:?}", r_own.as_ref().map_err(|e| e.to_string()));
    assert!(r_lib.is_err(), "defect not present");
    assert!(r_own.is_ok());
    // and the argument itself is fine: a corrupted looked value is rejected under the prover's layout
    let mut bad = rows_ab(&a, &b);
    bad[4][4] += 1;
    let r = sys
        .prove(&[trace_from_rows(&bad)])
        .and_then(|p| sys.verify_opts(&p, &Default::default(), true));
    assert!(r.is_err());

    // ---- T0.A twice looking into T0.B (every row twice in B).
    let b2 = [
        Some((1, 11)), Some((3, 13)), Some((2, 12)), Some((3, 13)),
        Some((1, 11)), None, Some((2, 12)), None,
    ];
    let sys = System::<1> {
        starks: [FreeStark::new(3, vec![2, 5])],
        ctls: vec![CrossTableLookup::new(
            vec![twc(0, [0, 1], 2), twc(0, [0, 1], 2)],
            twc(0, [3, 4], 5),
        )],
        config: test_config(1),
        ctl_degree: 3,
        looking_counts: vec![[2]],
    };
    let proofs = sys.prove(&[trace_from_rows(&rows_ab(&a, &b2))]).unwrap();
    let r_lib = sys.verify_opts(&proofs, &Default::default(), false);
    let r_own = sys.verify_opts(&proofs, &Default::default(), true);
    println!("[T0.A, T0.A] -> T0.B honest; num_ctl_helpers_zs_all layout: {:?}", r_lib.as_ref().map_err(|e| e.to_string().lines().next().unwrap().to_string()));
    println!("[T0.A, T0.A] -> T0.B honest; prover layout: {:?}", r_own.as_ref().map_err(|e| e.to_string()));
    assert!(r_lib.is_err(), "defect not present");
    assert!(r_own.is_ok());
}
