//! Baseline: the harness accepts an honest two-table CTL and rejects single-value corruptions.
mod c10_common;
use c10_common::*;
use starky::cross_table_lookup::{CrossTableLookup, TableWithColumns};
use starky::lookup::{Column, Filter};

fn ctl_0_into_1() -> Vec<CrossTableLookup<F>> {
    vec![CrossTableLookup::new(
        vec![TableWithColumns::new(
            0,
            Column::singles([0, 1]).collect(),
            Filter::new_simple(Column::single(2)),
        )],
        TableWithColumns::new(
            1,
            Column::singles([0, 1]).collect(),
            Filter::new_simple(Column::single(2)),
        ),
    )]
}

fn rows0() -> Vec<[u64; COLS]> {
    (0..16u64)
        .map(|i| [i + 1, 100 + i, (i % 2 == 0) as u64, 0, 0, 0, 0, 0])
        .collect()
}
fn rows1() -> Vec<[u64; COLS]> {
    // Looked table: 8 rows, in reversed order, contains exactly the filtered rows of table 0.
    (0..8u64)
        .rev()
        .map(|j| [2 * j + 1, 100 + 2 * j, 1, 0, 0, 0, 0, 0])
        .collect()
}

#[test]
fn baseline() {
    for degree in [3usize] {
        let sys = System::<2> {
            starks: [FreeStark::new(degree, vec![2]), FreeStark::new(degree, vec![2])],
            ctls: ctl_0_into_1(),
            config: test_config(1),
            ctl_degree: degree,
            looking_counts: vec![],
        };
        let t0 = trace_from_rows(&rows0());
        let t1 = trace_from_rows(&rows1());
        let r = sys.prove_and_verify(&[t0.clone(), t1.clone()]);
        println!("degree {degree}: honest -> {r:?}");
        assert!(r.is_ok());

        // altered looked value
        let mut r1 = rows1();
        r1[3][1] += 1;
        let r = sys.prove_and_verify(&[t0.clone(), trace_from_rows(&r1)]);
        println!("degree {degree}: altered looked -> {r:?}");
        assert!(r.is_err());
        // extra looking value
        let mut r0 = rows0();
        r0[1][2] = 1;
        let r = sys.prove_and_verify(&[trace_from_rows(&r0), t1.clone()]);
        println!("degree {degree}: extra looking -> {r:?}");
        assert!(r.is_err());
    }
}
