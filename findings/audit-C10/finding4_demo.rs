//! Finding 4: the CTL constraints adapt their helper-column batching to `constraint_degree` (chunks of
//! `constraint_degree - 1`), but the running-sum constraints used when a table contributes a single
//! looking/looked entry are `L_last * (combine * Z - filter)` -- degree 3 -- whatever the declared degree.
//! With `constraint_degree() == 2` (supported by the Lookup argument and by the CTL helper path) the honest
//! prover silently produces an unverifiable proof.
mod c10_common;
use c10_common::*;
use starky::cross_table_lookup::{CrossTableLookup, TableWithColumns};
use starky::lookup::{Column, Filter};

fn ctl_0_into_1() -> Vec<CrossTableLookup<F>> {
    vec![CrossTableLookup::new(
        vec![TableWithColumns::new(
            0,
            Column::singles([0, 1]).collect(),
            Filter::new_simple(Column::single(2)),
        )],
        TableWithColumns::new(
            1,
            Column::singles([0, 1]).collect(),
            Filter::new_simple(Column::single(2)),
        ),
    )]
}

#[test]
fn ctl_on_degree_2_starks() {
    let rows0: Vec<[u64; COLS]> = (0..16u64)
        .map(|i| [i + 1, 100 + i, (i % 2 == 0) as u64, 0, 0, 0, 0, 0])
        .collect();
    let rows1: Vec<[u64; COLS]> = (0..8u64)
        .rev()
        .map(|j| [2 * j + 1, 100 + 2 * j, 1, 0, 0, 0, 0, 0])
        .collect();
    for (degree, rate_bits) in [(3usize, 1usize), (2, 1), (2, 2)] {
        let sys = System::<2> {
            starks: [FreeStark::new(degree, vec![2]), FreeStark::new(degree, vec![2])],
            ctls: ctl_0_into_1(),
            config: test_config(rate_bits),
            ctl_degree: degree,
            looking_counts: vec![[1, 0]],
        };
        let r = sys.prove_and_verify(&[trace_from_rows(&rows0), trace_from_rows(&rows1)]);
        println!(
            "constraint_degree {degree}, rate_bits {rate_bits}: honest T0 -> T1 CTL: {:?}",
            r.as_ref().map_err(|e| e.to_string().lines().next().unwrap().to_string())
        );
        assert_eq!(r.is_ok(), degree == 3);
    }
}
