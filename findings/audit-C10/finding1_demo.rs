//! `verify_cross_table_lookups_circuit` adds `Target::default()` (= `VirtualTarget { index: 0 }`, i.e. whatever
//! happens to be the first virtual target of the circuit) to the sum of the looking tables whenever a CTL has
//! no entry in `ctl_extra_looking_sums`.
mod c10_common;
use c10_common::*;
use hashbrown::HashMap;
use plonky2::field::types::Field;
use plonky2::iop::target::Target;
use plonky2::iop::witness::{PartialWitness, WitnessWrite};
use plonky2::plonk::circuit_builder::CircuitBuilder;
use plonky2::plonk::circuit_data::CircuitConfig;
use starky::cross_table_lookup::{
    verify_cross_table_lookups, verify_cross_table_lookups_circuit, CrossTableLookup,
    TableWithColumns,
};
use starky::lookup::{Column, Filter};
use starky::recursive_verifier::add_virtual_stark_proof_with_pis;

fn ctls() -> Vec<CrossTableLookup<F>> {
    vec![CrossTableLookup::new(
        vec![TableWithColumns::new(
            0,
            Column::singles([0, 1]).collect(),
            Filter::new_simple(Column::single(2)),
        )],
        TableWithColumns::new(
            1,
            Column::singles([0, 1]).collect(),
            Filter::new_simple(Column::single(2)),
        ),
    )]
}

/// Builds a circuit that contains nothing but the recursive CTL check for one CTL (T0 looking into T1, no
/// extra looking values), and tries to prove it with the given first-row openings.
/// `first` is the value of the first virtual target of the circuit.
fn run_circuit(first: u64, looking: [u64; 2], looked: [u64; 2]) -> anyhow::Result<()> {
    let stark_config = test_config(1); // num_challenges = 2
    let mut builder = CircuitBuilder::<F, D>::new(CircuitConfig::standard_recursion_config());
    // The first virtual target allocated in the circuit. In a recursive multi-STARK verifier this is the
    // first element of the first proof's Merkle cap (see `first_virtual_target_of_a_recursive_verifier`).
    let t_first = builder.add_virtual_target();
    assert_eq!(t_first, Target::default());
    let t_looking = builder.add_virtual_targets(2);
    let t_looked = builder.add_virtual_targets(2);
    verify_cross_table_lookups_circuit::<F, D, 2>(
        &mut builder,
        ctls(),
        [t_looking.clone(), t_looked.clone()],
        &HashMap::new(),
        &stark_config,
    );
    let data = builder.build::<C>();
    let mut pw = PartialWitness::new();
    pw.set_target(t_first, f(first))?;
    for c in 0..2 {
        pw.set_target(t_looking[c], f(looking[c]))?;
        pw.set_target(t_looked[c], f(looked[c]))?;
    }
    let proof = std::panic::catch_unwind(std::panic::AssertUnwindSafe(|| data.prove(pw)))
        .unwrap_or_else(|_| Err(anyhow::anyhow!("prover panic")))?;
    data.verify(proof)
}

fn native(looking: [u64; 2], looked: [u64; 2]) -> anyhow::Result<()> {
    verify_cross_table_lookups::<F, D, 2>(
        &ctls(),
        [looking.map(f).to_vec(), looked.map(f).to_vec()],
        &HashMap::new(),
        &test_config(1),
    )
}

#[test]
fn ctl_circuit_adds_virtual_target_zero() {
    // (1) Equal sums (what an honest multi-STARK proof has): native accepts, circuit rejects as soon as the
    //     first virtual target of the circuit is not zero.
    let r_native = native([1111, 2222], [1111, 2222]);
    let r_circ0 = run_circuit(0, [1111, 2222], [1111, 2222]);
    let r_circ = run_circuit(7, [1111, 2222], [1111, 2222]);
    println!("equal sums:   native {:?} | circuit(vt0=0) {:?} | circuit(vt0=7) {:?}",
        r_native.is_ok(), r_circ0.is_ok(), r_circ.is_ok());
    assert!(r_native.is_ok());
    assert!(r_circ0.is_ok());
    assert!(r_circ.is_err(), "defect not present");

    // (2) Unequal sums (looked = looking + 7 for every challenge): native rejects, circuit ACCEPTS.
    let r_native = native([1111, 2222], [1118, 2229]);
    let r_circ = run_circuit(7, [1111, 2222], [1118, 2229]);
    println!("looked = looking + 7: native {:?} | circuit(vt0=7) {:?}", r_native.is_ok(), r_circ.is_ok());
    assert!(r_native.is_err());
    assert!(r_circ.is_ok(), "defect not present");
}

/// In the natural recursive verifier (allocate the proof targets first), virtual target 0 is an element of a
/// Merkle cap of the first STARK proof.
#[test]
fn first_virtual_target_of_a_recursive_verifier() {
    let stark_config = test_config(1);
    let mut builder = CircuitBuilder::<F, D>::new(CircuitConfig::standard_recursion_config());
    let stark = FreeStark::new(3, vec![2]);
    let pt = add_virtual_stark_proof_with_pis(&mut builder, &stark, &stark_config, 4, 0, 2);
    let cap0 = pt.proof.auxiliary_polys_cap.as_ref().unwrap().0[0].elements[0];
    println!("VirtualTarget 0 is auxiliary_polys_cap[0].elements[0]: {}", cap0 == Target::default());
    assert_eq!(cap0, Target::default());
    let _ = F::ZERO;
}
