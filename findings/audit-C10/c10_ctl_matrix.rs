//! A richer multi-table system (degree 3): three looking views from one table (odd chunk), next-row
//! linear combinations, a degree-2 filter, a table that is looked in one CTL and looking in another,
//! a Lookup living next to CTLs in the same table, extra looking values, different table sizes.
mod c10_common;
use c10_common::*;
use hashbrown::HashMap;
use plonky2::field::polynomial::PolynomialValues;
use plonky2::field::types::Field;
use starky::cross_table_lookup::{CrossTableLookup, TableWithColumns};
use starky::lookup::{Column, Filter, Lookup};

type Rows = Vec<[u64; COLS]>;

fn view(table: usize, c: [usize; 2], f: usize) -> TableWithColumns<F> {
    TableWithColumns::new(
        table,
        Column::singles(c).collect(),
        Filter::new_simple(Column::single(f)),
    )
}

fn ctls() -> Vec<CrossTableLookup<F>> {
    let view_c = TableWithColumns::new(
        0,
        vec![
            Column::linear_combination_and_next_row_with_constant(
                vec![(3, F::TWO)],
                vec![(0, F::ONE)],
                F::ZERO,
            ),
            Column::single_next_row(1),
        ],
        Filter::new(vec![(Column::single(2), Column::single(5))], vec![]),
    );
    vec![
        CrossTableLookup::new(
            vec![view(0, [0, 1], 2), view(0, [3, 4], 5), view_c, view(1, [0, 1], 2)],
            view(2, [0, 1], 2),
        ),
        CrossTableLookup::new(vec![view(2, [3, 4], 5)], view(1, [3, 4], 5)),
    ]
}

fn t0_lookups() -> Vec<Lookup<F>> {
    vec![Lookup {
        columns: vec![Column::single(0)],
        table_column: Column::single(6),
        frequencies_column: Column::single(7),
        filter_columns: vec![Filter::default()],
    }]
}

fn t0() -> Rows {
    let mut rows: Rows = (0..8u64)
        .map(|i| {
            [
                (3 * i + 1) % 8,
                20 + i,
                (i % 2) as u64,
                (5 * i) % 8,
                40 + i,
                (i % 3 != 0) as u64,
                i,
                0,
            ]
        })
        .collect();
    for i in 0..8 {
        let a = rows[i][0] as usize;
        rows[a][7] += 1;
    }
    rows
}
fn t1() -> Rows {
    (0..4u64)
        .map(|i| [60 + i, 70 + i, (i != 2) as u64, 80 + i, 90 + i, (i != 0) as u64, 0, 0])
        .collect()
}

const EXTRA: (u64, u64) = (777, 778);

fn multiset0(t0: &Rows, t1: &Rows, with_extra: bool) -> Vec<(u64, u64)> {
    let mut m = vec![];
    let n = t0.len();
    for i in 0..n {
        let nx = (i + 1) % n;
        if t0[i][2] == 1 {
            m.push((t0[i][0], t0[i][1]));
        }
        if t0[i][5] == 1 {
            m.push((t0[i][3], t0[i][4]));
        }
        if t0[i][2] * t0[i][5] == 1 {
            m.push((2 * t0[i][3] + t0[nx][0], t0[nx][1]));
        }
    }
    for r in t1 {
        if r[2] == 1 {
            m.push((r[0], r[1]));
        }
    }
    if with_extra {
        m.push(EXTRA);
    }
    m
}

fn t2(t0: &Rows, t1: &Rows) -> Rows {
    let mut m0 = multiset0(t0, t1, true);
    m0.reverse();
    let m1: Vec<(u64, u64)> = t1.iter().filter(|r| r[5] == 1).map(|r| (r[3], r[4])).collect();
    let n = 32;
    assert!(m0.len() <= n && m1.len() <= n);
    (0..n)
        .map(|i| {
            let (a0, a1, fa) = m0.get(i).map(|&(x, y)| (x, y, 1)).unwrap_or((5, 5, 0));
            // put view-B rows at the end
            let j = n - 1 - i;
            let (b0, b1, fb) = m1.get(j).map(|&(x, y)| (x, y, 1)).unwrap_or((6, 6, 0));
            [a0, a1, fa, b0, b1, fb, 0, 0]
        })
        .collect()
}

fn system() -> System<3> {
    let mut s0 = FreeStark::new(3, vec![2, 5]);
    s0.mk_lookups = t0_lookups;
    System::<3> {
        starks: [s0, FreeStark::new(3, vec![2, 5]), FreeStark::new(3, vec![2, 5])],
        ctls: ctls(),
        config: test_config(1),
        ctl_degree: 3,
        looking_counts: vec![[3, 1, 0], [0, 0, 1]],
    }
}

fn run(sys: &System<3>, t: [&Rows; 3], extra: bool) -> anyhow::Result<()> {
    let traces: [Vec<PolynomialValues<F>>; 3] =
        [trace_from_rows(t[0]), trace_from_rows(t[1]), trace_from_rows(t[2])];
    let proofs = sys.prove(&traces)?;
    let mut extra_rows = HashMap::new();
    if extra {
        extra_rows.insert(0usize, vec![vec![f(EXTRA.0), f(EXTRA.1)]]);
    }
    sys.verify_opts(&proofs, &extra_rows, false)
}

#[test]
fn ctl_matrix() {
    let sys = system();
    let (r0, r1) = (t0(), t1());
    let r2 = t2(&r0, &r1);
    let r = run(&sys, [&r0, &r1, &r2], true);
    println!("honest: {:?}", r.as_ref().map_err(|e| e.to_string()));
    assert!(r.is_ok());

    let mut n_rej = 0;
    let mut expect_reject = |name: &str, r: anyhow::Result<()>| {
        println!("{name}: rejected = {}", r.is_err());
        assert!(r.is_err(), "{name} accepted");
        n_rej += 1;
    };
    expect_reject("extra value not supplied", run(&sys, [&r0, &r1, &r2], false));

    for (row, col) in [(0usize, 0usize), (3, 1), (31, 3), (30, 4)] {
        let mut b = r2.clone();
        if (col < 3 && b[row][2] == 1) || (col >= 3 && b[row][5] == 1) {
            b[row][col] += 1;
            expect_reject(&format!("T2[{row}][{col}] altered"), run(&sys, [&r0, &r1, &b], true));
        }
    }
    // drop a looked row
    let mut b = r2.clone();
    assert_eq!(b[2][2], 1);
    b[2][2] = 0;
    expect_reject("T2 looked row dropped", run(&sys, [&r0, &r1, &b], true));
    // duplicate a looked row into an unused slot
    let mut b = r2.clone();
    let free = (0..32).find(|&i| b[i][2] == 0).unwrap();
    b[free] = [b[0][0], b[0][1], 1, b[free][3], b[free][4], b[free][5], 0, 0];
    expect_reject("T2 looked row duplicated", run(&sys, [&r0, &r1, &b], true));
    // alter each kind of looking value in T0 (without recomputing T2)
    for (row, col) in [(1usize, 1usize), (1, 4), (2, 1), (2, 3)] {
        let mut b = r0.clone();
        b[row][col] += 1;
        let changed = multiset0(&b, &r1, true) != multiset0(&r0, &r1, true);
        if changed {
            expect_reject(&format!("T0[{row}][{col}] altered"), run(&sys, [&b, &r1, &r2], true));
        }
    }
    // T0 lookup (range) violated but CTL multiset fixed up
    let mut b = r0.clone();
    b[0][0] = 1000;
    let b2 = t2(&b, &r1);
    expect_reject("T0 lookup value out of table", run(&sys, [&b, &r1, &b2], true));
    // T1 looked view altered
    let mut b = r1.clone();
    b[1][4] += 1;
    expect_reject("T1.B altered", run(&sys, [&r0, &b, &r2], true));
    println!("{n_rej} corruptions rejected");
}
