//! Single-STARK logUp lookups: completeness on a mixed declaration (odd number of columns, next-row
//! linear combinations, degree-1 and degree-2 filters, constraint degree 2 and 3) and single-value corruptions.
mod c10_common;
use std::panic::{catch_unwind, AssertUnwindSafe};

use anyhow::{anyhow, Result};
use c10_common::*;
use plonky2::field::types::Field;
use plonky2::util::timing::TimingTree;
use starky::lookup::{Column, Filter, Lookup};
use starky::prover::prove;
use starky::verifier::verify_stark_proof;

const N: usize = 16;

// columns: 0:a 1:b 2:fa 3:c 4:d 5:fd 6:table 7:freq
fn lookups() -> Vec<Lookup<F>> {
    vec![
        Lookup {
            columns: vec![
                Column::single(0),
                Column::single(1),
                // c' - c
                Column::linear_combination_and_next_row_with_constant(
                    vec![(3, F::NEG_ONE)],
                    vec![(3, F::ONE)],
                    F::ZERO,
                ),
            ],
            table_column: Column::single(6),
            frequencies_column: Column::single(7),
            filter_columns: vec![
                Filter::default(),
                Filter::new_simple(Column::single(2)),
                Filter::new(vec![(Column::single(2), Column::single(5))], vec![]),
            ],
        },
        // A second lookup: d is a permutation of the table, the table is read through a next-row column
        // and the frequencies are the constant 1.
        Lookup {
            columns: vec![Column::single(4)],
            table_column: Column::single_next_row(6),
            frequencies_column: Column::constant(F::ONE),
            filter_columns: vec![Filter::default()],
        },
    ]
}

fn rows() -> Vec<[u64; COLS]> {
    let mut rows = vec![[0u64; COLS]; N];
    let mut c = 0u64;
    for i in 0..N {
        let iu = i as u64;
        rows[i][0] = (3 * iu) % 16;
        rows[i][1] = (5 * iu + 1) % 16;
        rows[i][2] = (i % 3 != 0 && i != N - 1) as u64;
        rows[i][3] = c;
        c += (7 * iu) % 5;
        rows[i][4] = (7 * iu + 3) % 16;
        rows[i][5] = (i % 2 == 0) as u64;
        rows[i][6] = iu;
    }
    fill_freqs(&mut rows);
    rows
}

fn fill_freqs(rows: &mut [[u64; COLS]]) {
    for r in rows.iter_mut() {
        r[7] = 0;
    }
    let mut bump = |rows: &mut [[u64; COLS]], v: u64| {
        let i = rows.iter().position(|r| r[6] == v);
        if let Some(i) = i {
            rows[i][7] += 1;
        }
    };
    for i in 0..N {
        let nxt = (i + 1) % N;
        let a = rows[i][0];
        bump(rows, a);
        if rows[i][2] == 1 {
            let b = rows[i][1];
            bump(rows, b);
        }
        if rows[i][2] * rows[i][5] == 1 {
            let d = rows[nxt][3].wrapping_sub(rows[i][3]);
            bump(rows, d);
        }
    }
}

fn run(degree: usize, rows: &[[u64; COLS]]) -> Result<()> {
    let stark = FreeStark {
        degree,
        bool_cols: vec![2, 5],
        mk_lookups: lookups,
        ctls: false,
    };
    let config = test_config(1);
    let trace = trace_from_rows(rows);
    catch_unwind(AssertUnwindSafe(|| {
        let proof = prove::<F, C, FreeStark, D>(
            stark.clone(),
            &config,
            trace,
            &[],
            None,
            &mut TimingTree::default(),
        )?;
        verify_stark_proof(stark.clone(), proof, &config, None)
    }))
    .unwrap_or_else(|_| Err(anyhow!("PANIC")))
}

#[test]
fn lookups_matrix() {
    for degree in [2usize, 3] {
        let good = rows();
        let r = run(degree, &good);
        println!("degree {degree}: honest -> {:?}", r.as_ref().map_err(|e| e.to_string()));
        assert!(r.is_ok());

        // looking value not in the table
        let mut bad = good.clone();
        bad[5][0] = 99;
        let r = run(degree, &bad);
        println!("degree {degree}: looking value out of table -> {}", r.is_err());
        assert!(r.is_err());

        // filtered looking value not in the table
        let mut bad = good.clone();
        assert_eq!(bad[4][2], 1);
        bad[4][1] = 1234;
        assert!(run(degree, &bad).is_err());

        // unfiltered value out of the table is fine
        let mut ok = good.clone();
        assert_eq!(ok[3][2], 0);
        ok[3][1] = 1234;
        assert!(run(degree, &ok).is_ok());

        // frequency altered
        let mut bad = good.clone();
        bad[2][7] += 1;
        assert!(run(degree, &bad).is_err());

        // table value altered (its frequency is nonzero)
        let mut bad = good.clone();
        let i = bad.iter().position(|r| r[7] > 0).unwrap();
        bad[i][6] = 77;
        assert!(run(degree, &bad).is_err());

        // next-row difference out of table on a row where the degree-2 filter is on
        let mut bad = good.clone();
        let i = (0..N - 1).find(|&i| bad[i][2] * bad[i][5] == 1).unwrap();
        for j in i + 1..N {
            bad[j][3] += 1000;
        }
        // do not recompute freqs: 1000+ difference is not in the table at all
        assert!(run(degree, &bad).is_err());
        // second lookup: d no longer a permutation of the table
        let mut bad = good.clone();
        bad[9][4] = bad[10][4];
        assert!(run(degree, &bad).is_err());
        println!("degree {degree}: all corruptions rejected");
    }
}
