//! C07 audit harness: for every built-in gate and a sweep of parameterisations,
//!  (a) run the gate's own generators on (boundary + random) inputs,
//!  (b) check the filled row satisfies all constraints (ext + base evaluators),
//!  (c) check every generator-written wire is pinned by a constraint that is *linear* in it with a
//!      non-zero slope (=> every replacement value is rejected), and additionally try a few
//!      explicit replacement values,
//!  (d) check the base (batch/packed) evaluator == extension evaluator on base points (batch > 1),
//!  (e) check the number of constraints == num_constraints() in all evaluators,
//!  (f) check the actual degree <= degree() (exact univariate degree),
//!  (g) check eval_unfiltered_circuit == eval_unfiltered on random extension points (D = 2).
#![allow(clippy::needless_range_loop)]

use std::collections::{BTreeMap, BTreeSet};

use plonky2::field::extension::{Extendable, FieldExtension};
use plonky2::field::goldilocks_field::GoldilocksField;
use plonky2::field::polynomial::PolynomialValues;
use plonky2::field::types::{Field, Field64, Sample};
use plonky2::gates::arithmetic_base::ArithmeticGate;
use plonky2::gates::arithmetic_extension::ArithmeticExtensionGate;
use plonky2::gates::base_sum::BaseSumGate;
use plonky2::gates::constant::ConstantGate;
use plonky2::gates::coset_interpolation::CosetInterpolationGate;
use plonky2::gates::exponentiation::ExponentiationGate;
use plonky2::gates::gate::Gate;
use plonky2::gates::multiplication_extension::MulExtensionGate;
use plonky2::gates::noop::NoopGate;
use plonky2::gates::poseidon::PoseidonGate;
use plonky2::gates::poseidon_mds::PoseidonMdsGate;
use plonky2::gates::public_input::PublicInputGate;
use plonky2::gates::random_access::RandomAccessGate;
use plonky2::gates::reducing::ReducingGate;
use plonky2::gates::reducing_extension::ReducingExtensionGate;
use plonky2::hash::hash_types::HashOut;
use plonky2::iop::generator::{generate_partial_witness, GeneratedValues};
use plonky2::iop::target::Target;
use plonky2::iop::witness::{PartialWitness, PartitionWitness, Witness, WitnessWrite};
use plonky2::plonk::circuit_builder::CircuitBuilder;
use plonky2::plonk::circuit_data::CircuitConfig;
use plonky2::plonk::config::PoseidonGoldilocksConfig;
use plonky2::plonk::vars::{EvaluationTargets, EvaluationVars, EvaluationVarsBaseBatch};
use rand::{Rng, SeedableRng};
use rand_chacha::ChaCha8Rng as StdRng;

type F = GoldilocksField;
type C = PoseidonGoldilocksConfig;

fn lift<const D: usize>(v: &[F]) -> Vec<<F as Extendable<D>>::Extension>
where
    F: Extendable<D>,
{
    v.iter()
        .map(|&x| <F as Extendable<D>>::Extension::from_basefield(x))
        .collect()
}

fn eval_ext<G: Gate<F, D>, const D: usize>(
    gate: &G,
    consts: &[<F as Extendable<D>>::Extension],
    wires: &[<F as Extendable<D>>::Extension],
    pih: &HashOut<F>,
) -> Vec<<F as Extendable<D>>::Extension>
where
    F: Extendable<D>,
{
    gate.eval_unfiltered(EvaluationVars {
        local_constants: consts,
        local_wires: wires,
        public_inputs_hash: pih,
    })
}

/// Base evaluator on a single row.
fn eval_base<G: Gate<F, D>, const D: usize>(
    gate: &G,
    consts: &[F],
    wires: &[F],
    pih: &HashOut<F>,
) -> Vec<F>
where
    F: Extendable<D>,
{
    gate.eval_unfiltered_base_batch(EvaluationVarsBaseBatch::new(1, consts, wires, pih))
}

/// Run the gate's own generators on a single isolated row. Returns (row values, generated cols,
/// dependency cols).
fn fill_row<G: Gate<F, D>, const D: usize>(
    gate: &G,
    consts: &[F],
    inputs: &BTreeMap<usize, F>,
) -> Result<(Vec<F>, BTreeSet<usize>), String>
where
    F: Extendable<D>,
{
    let nw = gate.num_wires();
    let rep: Vec<usize> = (0..nw).collect();
    let mut witness = PartitionWitness::<F>::new(nw, 1, &rep);
    for (&c, &v) in inputs {
        assert!(c < nw, "input col {c} >= num_wires {nw}");
        witness.set_target(Target::wire(0, c), v).unwrap();
    }
    let gens = gate.generators(0, consts);
    let mut done = vec![false; gens.len()];
    let mut generated = BTreeSet::new();
    for _pass in 0..(gens.len() + 2) {
        let mut progress = false;
        for (i, g) in gens.iter().enumerate() {
            if done[i] {
                continue;
            }
            let mut buf = GeneratedValues::empty();
            if g.0.run(&witness, &mut buf) {
                done[i] = true;
                progress = true;
            }
            for (t, v) in buf.target_values {
                match t {
                    Target::Wire(w) => {
                        assert_eq!(w.row, 0);
                        assert!(
                            w.column < nw,
                            "generator {} wrote col {} >= num_wires {}",
                            g.0.id(),
                            w.column,
                            nw
                        );
                        generated.insert(w.column);
                    }
                    _ => panic!("generator wrote virtual target"),
                }
                witness
                    .set_target(t, v)
                    .map_err(|e| format!("generator conflict: {e}"))?;
            }
        }
        if !progress {
            break;
        }
    }
    if !done.iter().all(|&d| d) {
        return Err("some generators never ran".into());
    }
    let row = (0..nw)
        .map(|c| witness.try_get_target(Target::wire(0, c)).unwrap_or(F::ZERO))
        .collect();
    Ok((row, generated))
}

fn dep_cols<G: Gate<F, D>, const D: usize>(gate: &G, consts: &[F]) -> BTreeSet<usize>
where
    F: Extendable<D>,
{
    let mut s = BTreeSet::new();
    for g in gate.generators(0, consts) {
        for t in g.0.watch_list() {
            match t {
                Target::Wire(w) => {
                    assert_eq!(w.row, 0);
                    s.insert(w.column);
                }
                _ => panic!("virtual dep"),
            }
        }
    }
    s
}

/// Core native audit of one gate instance with one input assignment.
/// `extra` = values for wires that are neither dependencies nor generated (e.g. routed constants).
fn audit_row<G: Gate<F, D>, const D: usize>(
    name: &str,
    gate: &G,
    consts: &[F],
    inputs: &BTreeMap<usize, F>,
    rng: &mut StdRng,
) where
    F: Extendable<D>,
{
    let pih = HashOut::<F>::rand();
    let (row, generated) = fill_row::<G, D>(gate, consts, inputs)
        .unwrap_or_else(|e| panic!("[{name}] generators failed: {e}"));

    // (b) constraints satisfied, counts right.
    let nc = gate.num_constraints();
    let cb = eval_base::<G, D>(gate, consts, &row, &pih);
    let ce = eval_ext::<G, D>(gate, &lift::<D>(consts), &lift::<D>(&row), &pih);
    assert_eq!(cb.len(), nc, "[{name}] base evaluator count");
    assert_eq!(ce.len(), nc, "[{name}] ext evaluator count");
    assert!(
        cb.iter().all(|c| c.is_zero()),
        "[{name}] honest row violates base constraints: {:?}",
        cb.iter().enumerate().filter(|(_, c)| !c.is_zero()).map(|(i, _)| i).collect::<Vec<_>>()
    );
    assert!(
        ce.iter().all(|c| c.is_zero()),
        "[{name}] honest row violates ext constraints"
    );

    // (c) pinning.
    let deg = gate.degree();
    for &col in &generated {
        let v = row[col];
        // Linear-pin test: find constraint j with c_j(v+k) == k * c_j(v+1) for k = 0..deg+2 and
        // c_j(v+1) != 0.
        let mut samples = Vec::new();
        for k in 0..(deg + 3) {
            let mut r2 = row.clone();
            r2[col] = v + F::from_canonical_usize(k);
            samples.push(eval_base::<G, D>(gate, consts, &r2, &pih));
        }
        let mut linear_pin = None;
        for j in 0..nc {
            let slope = samples[1][j];
            if slope.is_zero() {
                continue;
            }
            if (0..samples.len()).all(|k| samples[k][j] == slope * F::from_canonical_usize(k)) {
                linear_pin = Some(j);
                break;
            }
        }
        // Explicit replacements.
        let mut repl = vec![
            v + F::ONE,
            v - F::ONE,
            F::ZERO,
            F::ONE,
            F::TWO,
            -v,
            v + v,
            F::NEG_ONE,
            F::from_canonical_u64(1 << 32),
            F::from_canonical_u64(0xFFFF_FFFF),
        ];
        for _ in 0..6 {
            repl.push(F::rand());
        }
        let mut unpinned_values = Vec::new();
        for r in repl {
            if r == v {
                continue;
            }
            let mut r2 = row.clone();
            r2[col] = r;
            let c2 = eval_base::<G, D>(gate, consts, &r2, &pih);
            if c2.iter().all(|c| c.is_zero()) {
                unpinned_values.push(r);
            }
        }
        assert!(
            unpinned_values.is_empty(),
            "[{name}] generated wire col {col} (value {v}) can be replaced by {unpinned_values:?} with all constraints still zero"
        );
        assert!(
            linear_pin.is_some(),
            "[{name}] generated wire col {col}: no constraint is linear in it with non-zero slope (inputs {inputs:?})"
        );
    }

    // Wires read by constraints but neither dependency nor generated nor given: report.
    let deps = dep_cols::<G, D>(gate, consts);
    for col in 0..gate.num_wires() {
        if generated.contains(&col) || deps.contains(&col) {
            continue;
        }
        let mut r2 = row.clone();
        r2[col] = row[col] + F::from_canonical_u64(rng.gen_range(1..1000));
        let c2 = eval_base::<G, D>(gate, consts, &r2, &pih);
        let influences = c2.iter().any(|c| !c.is_zero());
        if !influences {
            // a wire in [0, num_wires) which no constraint reads and no generator touches
            // (fine: e.g. nothing) -- but note it for gates that claim all wires.
            if std::env::var("C07_VERBOSE").is_ok() {
                eprintln!("[{name}] note: col {col} is not read by any constraint, not a dep, not generated");
            }
        }
    }
}

/// (d)+(e): batch/packed base evaluator vs ext evaluator on random base rows, batch sizes 1..9.
fn audit_batch<G: Gate<F, D>, const D: usize>(name: &str, gate: &G)
where
    F: Extendable<D>,
{
    let nw = gate.num_wires();
    let nk = gate.num_constants();
    let nc = gate.num_constraints();
    let pih = HashOut::<F>::rand();
    for batch in [1usize, 2, 3, 4, 5, 8, 9] {
        // point-major layout: wire 0 for all points, wire 1 for all points ...
        let wires = F::rand_vec(nw * batch);
        let consts = F::rand_vec(nk * batch);
        let res = gate.eval_unfiltered_base_batch(EvaluationVarsBaseBatch::new(
            batch, &consts, &wires, &pih,
        ));
        assert_eq!(res.len(), nc * batch, "[{name}] batch result length");
        for p in 0..batch {
            let w: Vec<F> = (0..nw).map(|i| wires[i * batch + p]).collect();
            let k: Vec<F> = (0..nk).map(|i| consts[i * batch + p]).collect();
            let e = eval_ext::<G, D>(gate, &lift::<D>(&k), &lift::<D>(&w), &pih);
            assert_eq!(e.len(), nc, "[{name}] ext count");
            for j in 0..nc {
                assert_eq!(
                    <F as Extendable<D>>::Extension::from_basefield(res[j * batch + p]),
                    e[j],
                    "[{name}] base-batch vs ext mismatch, batch {batch} point {p} constraint {j}"
                );
            }
        }
    }
}

/// (f): exact degree of every constraint along a random line in (wires, constants) space, over the
/// extension field.
fn audit_degree<G: Gate<F, D>, const D: usize>(name: &str, gate: &G) -> usize
where
    F: Extendable<D>,
{
    type E<const D: usize> = <F as Extendable<D>>::Extension;
    let nw = gate.num_wires();
    let nk = gate.num_constants();
    let nc = gate.num_constraints();
    let declared = gate.degree();
    let pih = HashOut::<F>::rand();
    // Evaluate on a subgroup of size n > declared+? ; use n = next pow2 >= 2*declared + 4.
    let n = (2 * declared + 4).next_power_of_two();
    let log_n = n.trailing_zeros() as usize;
    let a_w = E::<D>::rand_vec(nw);
    let b_w = E::<D>::rand_vec(nw);
    let a_k = E::<D>::rand_vec(nk);
    let b_k = E::<D>::rand_vec(nk);
    let g = E::<D>::primitive_root_of_unity(log_n);
    let mut t = E::<D>::ONE;
    let mut cols: Vec<Vec<E<D>>> = vec![Vec::with_capacity(n); nc];
    for _ in 0..n {
        let w: Vec<_> = (0..nw).map(|i| a_w[i] + b_w[i] * t).collect();
        let k: Vec<_> = (0..nk).map(|i| a_k[i] + b_k[i] * t).collect();
        let e = eval_ext::<G, D>(gate, &k, &w, &pih);
        assert_eq!(e.len(), nc, "[{name}] ext count (degree test)");
        for j in 0..nc {
            cols[j].push(e[j]);
        }
        t *= g;
    }
    let mut maxdeg = 0;
    for j in 0..nc {
        let d = PolynomialValues::new(cols[j].clone()).degree();
        assert!(
            d <= declared,
            "[{name}] constraint {j} has degree {d} > declared {declared}"
        );
        maxdeg = maxdeg.max(d);
    }
    maxdeg
}

/// (g) circuit evaluator vs ext evaluator (D = 2 only), without proving: just run the witness
/// generation of a circuit that contains the in-circuit evaluation.
fn audit_circuit<G: Gate<F, 2>>(name: &str, gate: &G, config: CircuitConfig) {
    const D: usize = 2;
    type E = <F as Extendable<2>>::Extension;
    let wires = E::rand_vec(gate.num_wires());
    let consts = E::rand_vec(gate.num_constants());
    let pih = HashOut::<F>::rand();

    let mut builder = CircuitBuilder::<F, D>::new(config);
    let wires_t = builder.add_virtual_extension_targets(wires.len());
    let consts_t = builder.add_virtual_extension_targets(consts.len());
    let pih_t = builder.add_virtual_hash();
    let evals_t = gate.eval_unfiltered_circuit(
        &mut builder,
        EvaluationTargets {
            local_constants: &consts_t,
            local_wires: &wires_t,
            public_inputs_hash: &pih_t,
        },
    );
    assert_eq!(
        evals_t.len(),
        gate.num_constraints(),
        "[{name}] circuit evaluator count"
    );
    // Make sure the result targets are kept alive.
    for e in &evals_t {
        builder.register_public_inputs(&e.0);
    }
    let data = builder.build::<C>();
    let mut pw = PartialWitness::new();
    pw.set_extension_targets(&wires_t, &wires).unwrap();
    pw.set_extension_targets(&consts_t, &consts).unwrap();
    pw.set_hash_target(pih_t, pih).unwrap();
    let w = generate_partial_witness(pw, &data.prover_only, &data.common).unwrap();
    let evals = eval_ext::<G, D>(gate, &consts, &wires, &pih);
    for (j, (t, e)) in evals_t.iter().zip(&evals).enumerate() {
        assert_eq!(
            w.get_extension_target(*t),
            *e,
            "[{name}] circuit vs ext evaluator mismatch at constraint {j}"
        );
    }
}

fn rnd_inputs(cols: &BTreeSet<usize>) -> BTreeMap<usize, F> {
    cols.iter().map(|&c| (c, F::rand())).collect()
}

fn const_inputs(cols: &BTreeSet<usize>, v: F) -> BTreeMap<usize, F> {
    cols.iter().map(|&c| (c, v)).collect()
}

fn full_native<G: Gate<F, D>, const D: usize>(name: &str, gate: &G) -> usize
where
    F: Extendable<D>,
{
    audit_batch::<G, D>(name, gate);
    let d = audit_degree::<G, D>(name, gate);
    eprintln!(
        "[{name}] wires={} consts={} constraints={} declared_deg={} actual_deg={}",
        gate.num_wires(),
        gate.num_constants(),
        gate.num_constraints(),
        gate.degree(),
        d
    );
    d
}

/// Generic "all deps free" gates: sweep boundary and random inputs.
fn sweep_free_inputs<G: Gate<F, D>, const D: usize>(
    name: &str,
    gate: &G,
    consts_list: &[Vec<F>],
    rng: &mut StdRng,
) where
    F: Extendable<D>,
{
    for consts in consts_list {
        let deps = dep_cols::<G, D>(gate, consts);
        for inp in [
            const_inputs(&deps, F::ZERO),
            const_inputs(&deps, F::ONE),
            const_inputs(&deps, F::NEG_ONE),
            rnd_inputs(&deps),
            rnd_inputs(&deps),
        ] {
            audit_row::<G, D>(name, gate, consts, &inp, rng);
        }
    }
}

fn consts_variants(n: usize) -> Vec<Vec<F>> {
    vec![
        vec![F::ZERO; n],
        vec![F::ONE; n],
        vec![F::NEG_ONE; n],
        F::rand_vec(n),
    ]
}

// ---------------------------------------------------------------------------------------------

#[test]
fn arithmetic_gates() {
    let mut rng = StdRng::seed_from_u64(1);
    for num_ops in [1usize, 2, 3, 20, 33] {
        let g = ArithmeticGate { num_ops };
        let name = format!("ArithmeticGate({num_ops})");
        full_native::<_, 2>(&name, &g);
        full_native::<_, 4>(&name, &g);
        sweep_free_inputs::<_, 2>(&name, &g, &consts_variants(2), &mut rng);
    }
    audit_circuit("ArithmeticGate(20)", &ArithmeticGate { num_ops: 20 }, CircuitConfig::standard_recursion_config());

    for num_ops in [1usize, 2, 10, 13] {
        let g = ArithmeticExtensionGate::<2> { num_ops };
        let name = format!("ArithmeticExtensionGate<2>({num_ops})");
        full_native::<_, 2>(&name, &g);
        sweep_free_inputs::<_, 2>(&name, &g, &consts_variants(2), &mut rng);
        let g = ArithmeticExtensionGate::<4> { num_ops };
        let name = format!("ArithmeticExtensionGate<4>({num_ops})");
        full_native::<_, 4>(&name, &g);
        sweep_free_inputs::<_, 4>(&name, &g, &consts_variants(2), &mut rng);
        let g = ArithmeticExtensionGate::<5> { num_ops };
        let name = format!("ArithmeticExtensionGate<5>({num_ops})");
        full_native::<_, 5>(&name, &g);
        sweep_free_inputs::<_, 5>(&name, &g, &consts_variants(2), &mut rng);
    }
    audit_circuit(
        "ArithmeticExtensionGate(10)",
        &ArithmeticExtensionGate::<2> { num_ops: 10 },
        CircuitConfig::standard_recursion_config(),
    );

    for num_ops in [1usize, 2, 13] {
        let g = MulExtensionGate::<2> { num_ops };
        let name = format!("MulExtensionGate<2>({num_ops})");
        full_native::<_, 2>(&name, &g);
        sweep_free_inputs::<_, 2>(&name, &g, &consts_variants(1), &mut rng);
        let g = MulExtensionGate::<4> { num_ops };
        let name = format!("MulExtensionGate<4>({num_ops})");
        full_native::<_, 4>(&name, &g);
        sweep_free_inputs::<_, 4>(&name, &g, &consts_variants(1), &mut rng);
    }
    audit_circuit(
        "MulExtensionGate(13)",
        &MulExtensionGate::<2> { num_ops: 13 },
        CircuitConfig::standard_recursion_config(),
    );
}

#[test]
fn trivial_gates() {
    let mut rng = StdRng::seed_from_u64(2);
    for n in [1usize, 2, 5] {
        let g = ConstantGate::new(n);
        let name = format!("ConstantGate({n})");
        full_native::<_, 2>(&name, &g);
        // No generators; honest row is wires == constants.
        let consts = F::rand_vec(n);
        let inp: BTreeMap<usize, F> = consts.iter().cloned().enumerate().collect();
        audit_row::<_, 2>(&name, &g, &consts, &inp, &mut rng);
        audit_circuit(&name, &g, CircuitConfig::standard_recursion_config());
    }
    full_native::<_, 2>("PublicInputGate", &PublicInputGate);
    audit_circuit("PublicInputGate", &PublicInputGate, CircuitConfig::standard_recursion_config());
    full_native::<_, 2>("NoopGate", &NoopGate);
}

fn base_sum_one<const B: usize>(num_limbs: usize, rng: &mut StdRng) {
    let g = BaseSumGate::<B>::new(num_limbs);
    let name = format!("BaseSumGate<{B}>({num_limbs})");
    full_native::<_, 2>(&name, &g);
    // max representable
    let mut max: u128 = 1;
    for _ in 0..num_limbs {
        max = max.saturating_mul(B as u128);
    }
    let cap = (max - 1).min((F::ORDER - 1) as u128) as u64;
    let mut vals = vec![0u64, 1, cap, cap / 2, cap.saturating_sub(1)];
    for _ in 0..4 {
        vals.push(rng.gen_range(0..=cap));
    }
    for v in vals {
        let v = v.min(cap);
        let inp: BTreeMap<usize, F> = [(0usize, F::from_canonical_u64(v))].into_iter().collect();
        audit_row::<_, 2>(&name, &g, &[], &inp, rng);
    }
}

#[test]
fn base_sum_gates() {
    let mut rng = StdRng::seed_from_u64(3);
    for n in [1usize, 2, 4, 31, 32, 33, 63, 64] {
        base_sum_one::<2>(n, &mut rng);
    }
    for n in [1usize, 2, 13, 40] {
        base_sum_one::<3>(n, &mut rng);
    }
    for n in [1usize, 2, 16, 31, 32] {
        base_sum_one::<4>(n, &mut rng);
    }
    for n in [1usize, 11, 24] {
        base_sum_one::<6>(n, &mut rng);
    }
    for n in [1usize, 3, 15, 16] {
        base_sum_one::<16>(n, &mut rng);
    }
    base_sum_one::<1>(3, &mut rng);
    audit_circuit("BaseSumGate<2>(63)", &BaseSumGate::<2>::new(63), CircuitConfig::standard_recursion_config());
    audit_circuit("BaseSumGate<6>(11)", &BaseSumGate::<6>::new(11), CircuitConfig::standard_recursion_config());
    audit_circuit("BaseSumGate<4>(5)", &BaseSumGate::<4>::new(5), CircuitConfig::standard_recursion_config());
}

#[test]
fn exponentiation_gates() {
    let mut rng = StdRng::seed_from_u64(4);
    for nb in [1usize, 2, 3, 5, 17, 39, 66, 100] {
        let g = ExponentiationGate::<F, 2>::new(nb);
        let name = format!("ExponentiationGate({nb})");
        full_native::<_, 2>(&name, &g);
        for base in [F::ZERO, F::ONE, F::NEG_ONE, F::TWO, F::rand(), F::rand()] {
            for pattern in 0..4 {
                let mut inp = BTreeMap::new();
                inp.insert(0usize, base);
                for i in 0..nb {
                    let b = match pattern {
                        0 => false,
                        1 => true,
                        _ => rng.gen_bool(0.5),
                    };
                    inp.insert(1 + i, F::from_bool(b));
                }
                // base == 0 makes every intermediate 0 and slopes vanish only for inputs, not
                // generated wires; keep it in.
                audit_row::<_, 2>(&name, &g, &[], &inp, &mut rng);
                // semantic check: output == base^exp
                let (row, _) = fill_row::<_, 2>(&g, &[], &inp).unwrap();
                let mut expect = F::ONE;
                for i in (0..nb).rev() {
                    expect = expect * expect;
                    if inp[&(1 + i)] == F::ONE {
                        expect *= base;
                    }
                }
                assert_eq!(row[g.wire_output()], expect, "[{name}] semantic");
            }
        }
    }
    let g4 = ExponentiationGate::<F, 4>::new(13);
    full_native::<_, 4>("ExponentiationGate<D=4>(13)", &g4);
    audit_circuit(
        "ExponentiationGate(66)",
        &ExponentiationGate::<F, 2>::new(66),
        CircuitConfig::standard_recursion_config(),
    );
    audit_circuit(
        "ExponentiationGate(1)",
        &ExponentiationGate::<F, 2>::new(1),
        CircuitConfig::standard_recursion_config(),
    );
}

#[test]
fn random_access_gates() {
    let mut rng = StdRng::seed_from_u64(5);
    for bits in 1usize..=6 {
        for num_copies in [1usize, 2, 4] {
            for extra in [0usize, 1, 2] {
                let mut g = RandomAccessGate::<F, 2>::default();
                g.bits = bits;
                g.num_copies = num_copies;
                g.num_extra_constants = extra;
                let name = format!("RandomAccessGate(bits={bits},copies={num_copies},extra={extra})");
                full_native::<_, 2>(&name, &g);
                let vec_size = 1usize << bits;
                let consts = F::rand_vec(extra);
                for trial in 0..6 {
                    let mut inp = BTreeMap::new();
                    for copy in 0..num_copies {
                        let base = (2 + vec_size) * copy;
                        let idx = match trial {
                            0 => 0,
                            1 => vec_size - 1,
                            _ => rng.gen_range(0..vec_size),
                        };
                        inp.insert(base, F::from_canonical_usize(idx));
                        for i in 0..vec_size {
                            let v = match trial {
                                2 => F::ZERO,
                                3 => F::from_canonical_usize(7), // all list items equal
                                _ => F::rand(),
                            };
                            inp.insert(base + 2 + i, v);
                        }
                    }
                    // routed constants (written by the builder's ConstantGenerator, not by the gate)
                    for i in 0..extra {
                        inp.insert((2 + vec_size) * num_copies + i, consts[i]);
                    }
                    audit_row::<_, 2>(&name, &g, &consts, &inp, &mut rng);
                }
            }
        }
    }
    for bits in 1..=5 {
        let g = RandomAccessGate::<F, 2>::new_from_config(&CircuitConfig::standard_recursion_config(), bits);
        let name = format!("RandomAccessGate::new_from_config(std, {bits})");
        full_native::<_, 2>(&name, &g);
        audit_circuit(&name, &g, CircuitConfig::standard_recursion_config());
    }
}

#[test]
fn reducing_gates() {
    let mut rng = StdRng::seed_from_u64(6);
    for n in [1usize, 2, 3, 10, 43, 44] {
        let g = ReducingGate::<2>::new(n);
        let name = format!("ReducingGate<2>({n})");
        full_native::<_, 2>(&name, &g);
        sweep_free_inputs::<_, 2>(&name, &g, &[vec![]], &mut rng);
        let g = ReducingGate::<4>::new(n);
        let name = format!("ReducingGate<4>({n})");
        full_native::<_, 4>(&name, &g);
        sweep_free_inputs::<_, 4>(&name, &g, &[vec![]], &mut rng);

        let g = ReducingExtensionGate::<2>::new(n);
        let name = format!("ReducingExtensionGate<2>({n})");
        full_native::<_, 2>(&name, &g);
        sweep_free_inputs::<_, 2>(&name, &g, &[vec![]], &mut rng);
        let g = ReducingExtensionGate::<4>::new(n);
        let name = format!("ReducingExtensionGate<4>({n})");
        full_native::<_, 4>(&name, &g);
        sweep_free_inputs::<_, 4>(&name, &g, &[vec![]], &mut rng);
    }
    audit_circuit("ReducingGate(43)", &ReducingGate::<2>::new(43), CircuitConfig::standard_recursion_config());
    audit_circuit("ReducingGate(1)", &ReducingGate::<2>::new(1), CircuitConfig::standard_recursion_config());
    audit_circuit(
        "ReducingExtensionGate(32)",
        &ReducingExtensionGate::<2>::new(32),
        CircuitConfig::standard_recursion_config(),
    );
    audit_circuit(
        "ReducingExtensionGate(1)",
        &ReducingExtensionGate::<2>::new(1),
        CircuitConfig::standard_recursion_config(),
    );
    // semantic: output = old_acc * alpha^n + sum c_i alpha^(n-1-i)
}

#[test]
fn poseidon_gates() {
    let mut rng = StdRng::seed_from_u64(7);
    let g = PoseidonGate::<F, 2>::new();
    full_native::<_, 2>("PoseidonGate", &g);
    let deps = dep_cols::<_, 2>(&g, &[]);
    for swap in [F::ZERO, F::ONE] {
        for mode in 0..4 {
            let mut inp = match mode {
                0 => const_inputs(&deps, F::ZERO),
                1 => const_inputs(&deps, F::NEG_ONE),
                _ => rnd_inputs(&deps),
            };
            inp.insert(24, swap); // WIRE_SWAP = 2 * SPONGE_WIDTH
            audit_row::<_, 2>("PoseidonGate", &g, &[], &inp, &mut rng);
        }
    }
    audit_circuit("PoseidonGate/std", &g, CircuitConfig::standard_recursion_config());
    // Config with too few routed wires for PoseidonMdsGate: exercises the other in-circuit branch.
    let mut narrow = CircuitConfig::standard_recursion_config();
    narrow.num_routed_wires = 40;
    audit_circuit("PoseidonGate/narrow", &g, narrow);

    let g = PoseidonMdsGate::<F, 2>::new();
    full_native::<_, 2>("PoseidonMdsGate", &g);
    sweep_free_inputs::<_, 2>("PoseidonMdsGate", &g, &[vec![]], &mut rng);
    audit_circuit("PoseidonMdsGate", &g, CircuitConfig::standard_recursion_config());
    let g = PoseidonMdsGate::<F, 4>::new();
    full_native::<_, 4>("PoseidonMdsGate<4>", &g);
    sweep_free_inputs::<_, 4>("PoseidonMdsGate<4>", &g, &[vec![]], &mut rng);
}

#[test]
fn coset_interpolation_gates() {
    let mut rng = StdRng::seed_from_u64(8);
    for subgroup_bits in 1usize..=5 {
        let n = 1usize << subgroup_bits;
        // All max_degree values the crate-private `with_max_degree` would map to a `degree`.
        let mut degrees = BTreeSet::new();
        for max_degree in 2..=(n + 3) {
            let n_intermediates = (n - 2) / (max_degree - 1);
            degrees.insert((n - 2) / (n_intermediates + 1) + 2);
        }
        for degree in degrees {
            let mut g = CosetInterpolationGate::<F, 2>::new(subgroup_bits);
            g.degree = degree;
            let name = format!("CosetInterpolationGate(bits={subgroup_bits},degree={degree})");
            let actual = full_native::<_, 2>(&name, &g);
            let _ = actual;
            let deps = dep_cols::<_, 2>(&g, &[]);
            for mode in 0..5 {
                let mut inp = match mode {
                    0 => const_inputs(&deps, F::ONE),
                    1 => const_inputs(&deps, F::NEG_ONE),
                    2 => const_inputs(&deps, F::ZERO),
                    _ => rnd_inputs(&deps),
                };
                // shift must be invertible (generator inverts it)
                let shift = match mode {
                    2 => F::ONE,
                    3 => F::MULTIPLICATIVE_GROUP_GENERATOR,
                    _ => inp[&0],
                };
                inp.insert(0, shift);
                audit_row::<_, 2>(&name, &g, &[], &inp, &mut rng);
            }
            if subgroup_bits <= 4 {
                audit_circuit(&name, &g, CircuitConfig::standard_recursion_config());
            }
        }
    }
    // D = 4 native only
    for subgroup_bits in 1usize..=4 {
        let g = CosetInterpolationGate::<F, 4>::new(subgroup_bits);
        full_native::<_, 4>(&format!("CosetInterpolationGate<D=4>(bits={subgroup_bits})"), &g);
    }
}

/// Degenerate parameterisations that the public constructors accept. Each is run under
/// catch_unwind; we only report what happens.
#[test]
fn degenerate_params() {
    use std::panic::{catch_unwind, AssertUnwindSafe};
    let mut report = Vec::new();
    macro_rules! try_gate {
        ($name:expr, $gate:expr, $consts:expr, $fix:expr) => {{
            let name: &str = $name;
            let r = catch_unwind(AssertUnwindSafe(|| {
                let mut rng = StdRng::seed_from_u64(99);
                let g = $gate;
                let consts: Vec<F> = $consts;
                let deps = dep_cols::<_, 2>(&g, &consts);
                let mut inp = rnd_inputs(&deps);
                let fix: Vec<(usize, F)> = $fix;
                for (c, v) in fix {
                    inp.insert(c, v);
                }
                full_native::<_, 2>(name, &g);
                audit_row::<_, 2>(name, &g, &consts, &inp, &mut rng);
            }));
            report.push((name.to_string(), r.map_err(|e| {
                e.downcast_ref::<String>().cloned().or_else(|| e.downcast_ref::<&str>().map(|s| s.to_string())).unwrap_or_default()
            })));
        }};
    }
    try_gate!("ReducingGate(0)", ReducingGate::<2>::new(0), vec![], vec![]);
    try_gate!("ReducingExtensionGate(0)", ReducingExtensionGate::<2>::new(0), vec![], vec![]);
    try_gate!("BaseSumGate<2>(0)", BaseSumGate::<2>::new(0), vec![], vec![(0, F::ZERO)]);
    try_gate!("ArithmeticGate(0)", ArithmeticGate { num_ops: 0 }, vec![F::ONE, F::ONE], vec![]);
    try_gate!("ExponentiationGate(0)", ExponentiationGate::<F, 2>::new(0), vec![], vec![]);
    try_gate!(
        "RandomAccessGate(bits=0,copies=2)",
        {
            let mut g = RandomAccessGate::<F, 2>::default();
            g.bits = 0;
            g.num_copies = 2;
            g
        },
        vec![],
        vec![(0, F::ZERO), (3, F::ZERO)]
    );
    try_gate!("ConstantGate(0)", ConstantGate::new(0), vec![], vec![]);
    for (n, r) in &report {
        eprintln!("DEGENERATE {n}: {}", match r { Ok(()) => "all checks pass".to_string(), Err(e) => format!("PANIC/FAIL: {e}") });
    }
}

/// Caveat (NOT counted as a finding, input precondition): with the *input* wire shift == 0 (and
/// evaluation_point == 0) the generator-written `shifted_evaluation_point` has slope 0 in its
/// defining constraint `evaluation_point - shift * shifted_evaluation_point`, so it (and hence the
/// interpolated value) is free. The honest generator cannot fill such a row at all (it inverts
/// `shift` and panics), and every in-tree caller passes a non-zero coset shift.
#[test]
fn coset_shift_zero_caveat() {
    use std::panic::{catch_unwind, AssertUnwindSafe};
    const D: usize = 2;
    let g = CosetInterpolationGate::<F, D>::new(2);
    let n = 4;
    let deps = dep_cols::<_, D>(&g, &[]);
    let mut inp = rnd_inputs(&deps);
    inp.insert(0, F::ZERO); // shift
    inp.insert(1 + n * D, F::ZERO); // evaluation point
    inp.insert(1 + n * D + 1, F::ZERO);
    let r = catch_unwind(AssertUnwindSafe(|| fill_row::<_, D>(&g, &[], &inp)));
    eprintln!("generator on shift=0: {}", if r.is_err() { "panics" } else { "runs" });
    // Hand-filled rows: use a shift=1 honest row evaluated at two different points z1, z2, then zero
    // out shift and evaluation_point.
    let pih = HashOut::<F>::rand();
    let mut outs = Vec::new();
    for _ in 0..2 {
        let mut inp2 = inp.clone();
        inp2.insert(0, F::ONE);
        inp2.insert(1 + n * D, F::rand());
        inp2.insert(1 + n * D + 1, F::rand());
        let (mut row, _) = fill_row::<_, D>(&g, &[], &inp2).unwrap();
        row[0] = F::ZERO;
        row[1 + n * D] = F::ZERO;
        row[1 + n * D + 1] = F::ZERO;
        let c = eval_base::<_, D>(&g, &[], &row, &pih);
        assert!(c.iter().all(|x| x.is_zero()));
        outs.push((row[1 + n * D + D], row[1 + n * D + D + 1]));
    }
    eprintln!("shift=0, point=0, same values: two satisfying rows with evaluation_value {:?} vs {:?}", outs[0], outs[1]);
    assert_ne!(outs[0], outs[1]);
}
