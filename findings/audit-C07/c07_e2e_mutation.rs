//! C07 end-to-end: one real circuit per gate type; fill the witness with the real generators,
//! overwrite ONE generator-written wire in the PartitionWitness, prove with
//! `prove_with_partition_witness`, and require that the verifier rejects. The unmodified witness
//! must verify.
use std::collections::{BTreeMap, BTreeSet};
use std::panic::{catch_unwind, AssertUnwindSafe};

use plonky2::field::goldilocks_field::GoldilocksField;
use plonky2::field::types::{Field, Sample};
use plonky2::gates::arithmetic_base::ArithmeticGate;
use plonky2::gates::arithmetic_extension::ArithmeticExtensionGate;
use plonky2::gates::base_sum::BaseSumGate;
use plonky2::gates::coset_interpolation::CosetInterpolationGate;
use plonky2::gates::exponentiation::ExponentiationGate;
use plonky2::gates::gate::Gate;
use plonky2::gates::multiplication_extension::MulExtensionGate;
use plonky2::gates::poseidon::PoseidonGate;
use plonky2::gates::poseidon_mds::PoseidonMdsGate;
use plonky2::gates::random_access::RandomAccessGate;
use plonky2::gates::reducing::ReducingGate;
use plonky2::gates::reducing_extension::ReducingExtensionGate;
use plonky2::iop::generator::generate_partial_witness;
use plonky2::iop::target::Target;
use plonky2::iop::witness::{PartialWitness, Witness, WitnessWrite};
use plonky2::plonk::circuit_builder::CircuitBuilder;
use plonky2::plonk::circuit_data::CircuitConfig;
use plonky2::plonk::config::PoseidonGoldilocksConfig;
use plonky2::plonk::prover::prove_with_partition_witness;
use plonky2::util::timing::TimingTree;

type F = GoldilocksField;
type C = PoseidonGoldilocksConfig;
const D: usize = 2;

fn e2e<G: Gate<F, D>>(name: &str, mk: impl Fn() -> G, consts: Vec<F>, inputs: BTreeMap<usize, F>) {
    let config = CircuitConfig::standard_recursion_config();
    let mut builder = CircuitBuilder::<F, D>::new(config);
    // a couple of unrelated rows first so our gate is not alone
    let a = builder.add_virtual_target();
    let b = builder.mul(a, a);
    builder.register_public_input(b);
    let gate = mk();
    let deps: BTreeSet<usize> = gate
        .generators(0, &consts)
        .iter()
        .flat_map(|g| g.0.watch_list())
        .map(|t| match t {
            Target::Wire(w) => w.column,
            _ => panic!(),
        })
        .collect();
    let nw = gate.num_wires();
    let row = builder.add_gate(gate, consts);
    let data = builder.build::<C>();

    let mk_pw = || {
        let mut pw = PartialWitness::new();
        pw.set_target(a, F::from_canonical_u64(3)).unwrap();
        for (&c, &v) in &inputs {
            pw.set_target(Target::wire(row, c), v).unwrap();
        }
        pw
    };
    for d in &deps {
        assert!(inputs.contains_key(d), "[{name}] dep col {d} not provided");
    }

    let w0 = generate_partial_witness(mk_pw(), &data.prover_only, &data.common).unwrap();
    // Which wires of `row` were written by generators (i.e. are set but were not inputs)?
    let generated: Vec<usize> = (0..nw)
        .filter(|c| !inputs.contains_key(c) && w0.try_get_target(Target::wire(row, *c)).is_some())
        .collect();
    assert!(!generated.is_empty(), "[{name}] nothing generated?");

    // Honest proof verifies.
    let proof = prove_with_partition_witness(
        &data.prover_only,
        &data.common,
        w0.clone(),
        &mut TimingTree::default(),
    )
    .unwrap();
    data.verify(proof).expect("honest proof must verify");

    let mut accepted = Vec::new();
    for &col in &generated {
        let t = Target::wire(row, col);
        let idx = w0.representative_map[t.index(w0.num_wires, w0.degree)];
        let v = w0.values[idx].unwrap();
        for r in [v + F::ONE, F::ZERO, F::rand()] {
            if r == v {
                continue;
            }
            let mut w = w0.clone();
            w.values[idx] = Some(r);
            let res = catch_unwind(AssertUnwindSafe(|| {
                let proof = prove_with_partition_witness(
                    &data.prover_only,
                    &data.common,
                    w,
                    &mut TimingTree::default(),
                )?;
                data.verify(proof)
            }));
            if let Ok(Ok(())) = res {
                accepted.push((col, v, r));
            }
        }
    }
    eprintln!(
        "[{name}] row {row}, {} generated wires mutated, {} accepted",
        generated.len(),
        accepted.len()
    );
    assert!(
        accepted.is_empty(),
        "[{name}] verifier ACCEPTED mutated generator-written wires: {accepted:?}"
    );
}

fn rnd(cols: impl IntoIterator<Item = usize>) -> BTreeMap<usize, F> {
    cols.into_iter().map(|c| (c, F::rand())).collect()
}

#[test]
fn e2e_arithmetic() {
    e2e("ArithmeticGate", || ArithmeticGate { num_ops: 20 }, F::rand_vec(2), rnd((0..80).filter(|c| c % 4 != 3)));
    e2e(
        "ArithmeticExtensionGate",
        || ArithmeticExtensionGate::<D> { num_ops: 10 },
        F::rand_vec(2),
        rnd((0..80).filter(|c| c % 8 < 6)),
    );
    e2e(
        "MulExtensionGate",
        || MulExtensionGate::<D> { num_ops: 13 },
        F::rand_vec(1),
        rnd((0..78).filter(|c| c % 6 < 4)),
    );
}

#[test]
fn e2e_base_sum() {
    e2e(
        "BaseSumGate<2>(63)",
        || BaseSumGate::<2>::new(63),
        vec![],
        [(0usize, F::from_canonical_u64(0x5555_1234_9876_abcd))].into_iter().collect(),
    );
    e2e(
        "BaseSumGate<4>(10)",
        || BaseSumGate::<4>::new(10),
        vec![],
        [(0usize, F::from_canonical_u64(999_999))].into_iter().collect(),
    );
}

#[test]
fn e2e_exponentiation() {
    let nb = 66;
    let mut inp = BTreeMap::new();
    inp.insert(0usize, F::rand());
    for i in 0..nb {
        inp.insert(1 + i, F::from_bool(i % 3 != 1));
    }
    e2e("ExponentiationGate(66)", || ExponentiationGate::<F, D>::new(66), vec![], inp);
}

#[test]
fn e2e_random_access() {
    for bits in [1usize, 3, 4] {
        let copies = match bits {
            1 => 20,
            3 => 8,
            _ => 4,
        };
        let vec_size = 1 << bits;
        let mut inp = BTreeMap::new();
        for copy in 0..copies {
            let base = (2 + vec_size) * copy;
            inp.insert(base, F::from_canonical_usize((copy * 5 + 1) % vec_size));
            for i in 0..vec_size {
                inp.insert(base + 2 + i, F::rand());
            }
        }
        e2e(
            &format!("RandomAccessGate(bits={bits})"),
            || {
                let mut g = RandomAccessGate::<F, D>::default();
                g.bits = bits;
                g.num_copies = copies;
                g.num_extra_constants = 0;
                g
            },
            vec![],
            inp,
        );
    }
}

#[test]
fn e2e_reducing() {
    e2e("ReducingGate(43)", || ReducingGate::<D>::new(43), vec![], rnd(2..(6 + 43)));
    e2e(
        "ReducingExtensionGate(32)",
        || ReducingExtensionGate::<D>::new(32),
        vec![],
        rnd(2..(6 + 64)),
    );
}

#[test]
fn e2e_poseidon() {
    let mut inp = rnd(0..12);
    inp.insert(24, F::ONE);
    e2e("PoseidonGate(swap=1)", PoseidonGate::<F, D>::new, vec![], inp);
    let mut inp = rnd(0..12);
    inp.insert(24, F::ZERO);
    e2e("PoseidonGate(swap=0)", PoseidonGate::<F, D>::new, vec![], inp);
    e2e("PoseidonMdsGate", PoseidonMdsGate::<F, D>::new, vec![], rnd(0..24));
}

#[test]
fn e2e_coset_interpolation() {
    for (bits, degree) in [(1usize, 2usize), (2, 2), (2, 4), (3, 3), (4, 6), (4, 5)] {
        let n = 1usize << bits;
        // deps: shift (0), values (1..1+n*D), evaluation point (next D)
        let mut inp = rnd(0..(1 + n * D + D));
        inp.insert(0, F::MULTIPLICATIVE_GROUP_GENERATOR);
        e2e(
            &format!("CosetInterpolationGate(bits={bits},degree={degree})"),
            || {
                let mut g = CosetInterpolationGate::<F, D>::new(bits);
                g.degree = degree;
                g
            },
            vec![],
            inp,
        );
    }
}
