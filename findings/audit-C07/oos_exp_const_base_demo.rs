//! Out-of-scope observation (not C07): `exp_from_bits_const_base` computes `1 << i` in i32.
use plonky2::field::goldilocks_field::GoldilocksField;
use plonky2::field::types::Field;
use plonky2::iop::witness::{PartialWitness, WitnessWrite};
use plonky2::plonk::circuit_builder::CircuitBuilder;
use plonky2::plonk::circuit_data::CircuitConfig;
use plonky2::plonk::config::PoseidonGoldilocksConfig;

type F = GoldilocksField;
type C = PoseidonGoldilocksConfig;
const D: usize = 2;

#[test]
fn exp_const_base_wide_config() {
    let mut config = CircuitConfig::standard_recursion_config();
    config.num_wires = 200;
    config.num_routed_wires = 160; // 40 base arithmetic ops per gate
    let mut builder = CircuitBuilder::<F, D>::new(config);
    let nbits = 33;
    let bits: Vec<_> = (0..nbits).map(|_| builder.add_virtual_bool_target_safe()).collect();
    let base = F::from_canonical_u64(7);
    let out = builder.exp_from_bits_const_base(base, bits.iter());
    builder.register_public_input(out);
    let data = builder.build::<C>();
    let mut pw = PartialWitness::new();
    // exponent = 2^31
    for (i, b) in bits.iter().enumerate() {
        pw.set_bool_target(*b, i == 32).unwrap();
    }
    let proof = data.prove(pw).unwrap();
    let expect = base.exp_u64(1u64 << 32);
    eprintln!("circuit says 7^(2^32) = {}, true value = {}", proof.public_inputs[0], expect);
    data.verify(proof.clone()).unwrap();
    assert_eq!(proof.public_inputs[0], expect);
}
