//! finding1 demo: `ReducingGate::<D>::new(0)` is accepted by the public constructor, its generator
//! writes the `output` wires (:= old_acc), but the gate declares and emits ZERO constraints, so the
//! generator-written output is pinned by nothing: a prover can replace it by any value and the
//! verifier accepts.
//!
//! Run: cargo test --offline --release -p plonky2 --test c07_finding1_demo -- --nocapture
use plonky2::field::extension::{Extendable, FieldExtension};
use plonky2::field::goldilocks_field::GoldilocksField;
use plonky2::field::types::{Field, Sample};
use plonky2::gates::gate::Gate;
use plonky2::gates::reducing::ReducingGate;
use plonky2::iop::ext_target::ExtensionTarget;
use plonky2::iop::generator::{generate_partial_witness, GeneratedValues};
use plonky2::iop::witness::{PartialWitness, PartitionWitness, Witness, WitnessWrite};
use plonky2::plonk::circuit_builder::CircuitBuilder;
use plonky2::plonk::circuit_data::CircuitConfig;
use plonky2::plonk::config::PoseidonGoldilocksConfig;
use plonky2::plonk::prover::prove_with_partition_witness;
use plonky2::util::timing::TimingTree;

type F = GoldilocksField;
type C = PoseidonGoldilocksConfig;
const D: usize = 2;
type FE = <F as Extendable<D>>::Extension;

#[test]
fn reducing_gate_zero_coeffs_output_unpinned() {
    let gate = ReducingGate::<D>::new(0);
    eprintln!(
        "ReducingGate(0): num_wires={} num_constraints={} degree={} generators={}",
        <ReducingGate<D> as Gate<F, D>>::num_wires(&gate),
        <ReducingGate<D> as Gate<F, D>>::num_constraints(&gate),
        <ReducingGate<D> as Gate<F, D>>::degree(&gate),
        <ReducingGate<D> as Gate<F, D>>::generators(&gate, 0, &[]).len(),
    );

    let config = CircuitConfig::standard_recursion_config();
    let mut builder = CircuitBuilder::<F, D>::new(config);
    let row = builder.add_gate(gate, vec![]);
    // wires: output 0..D, alpha D..2D, old_acc 2D..3D  (3D > num_wires() = 2D, see finding text)
    let out_t = ExtensionTarget::<D>::from_range(row, 0..D);
    let alpha_t = ExtensionTarget::<D>::from_range(row, D..2 * D);
    let old_acc_t = ExtensionTarget::<D>::from_range(row, 2 * D..3 * D);
    // Public statement of this circuit: (old_acc, output) with "output = reduce([], alpha, old_acc)".
    builder.register_public_inputs(&old_acc_t.0);
    builder.register_public_inputs(&out_t.0);
    let data = builder.build::<C>();

    let alpha = FE::rand();
    let old_acc = FE::rand();
    let mk_pw = || {
        let mut pw = PartialWitness::new();
        pw.set_extension_target(alpha_t, alpha).unwrap();
        pw.set_extension_target(old_acc_t, old_acc).unwrap();
        pw
    };

    // Honest prover: the gate's own generator writes output := old_acc.
    let w0 = generate_partial_witness(mk_pw(), &data.prover_only, &data.common).unwrap();
    assert_eq!(w0.get_extension_target(out_t), old_acc, "generator writes output := old_acc");
    let proof = prove_with_partition_witness(
        &data.prover_only,
        &data.common,
        w0,
        &mut TimingTree::default(),
    )
    .unwrap();
    assert_eq!(&proof.public_inputs[..D], &old_acc.0[..]);
    assert_eq!(&proof.public_inputs[D..], &old_acc.0[..]);
    data.verify(proof).unwrap();
    eprintln!("honest proof (output == old_acc) verifies");

    // Malicious prover: replaces the value the ReducingGenerator would have produced by another one
    // (and runs every other generator normally so that the rest of the witness, e.g. the public
    // input hash rows, is consistent with the replaced value).
    let forged = FE::from_basefield_array([F::from_canonical_u64(0xdead_beef), F::from_canonical_u64(42)]);
    assert_ne!(forged, old_acc);
    let mut w = PartitionWitness::<F>::new(
        data.common.config.num_wires,
        data.common.degree(),
        &data.prover_only.representative_map,
    );
    for (t, v) in mk_pw().target_values {
        w.set_target(t, v).unwrap();
    }
    w.set_extension_target(out_t, forged).unwrap();
    let gens = &data.prover_only.generators;
    let mut done: Vec<bool> = gens.iter().map(|g| g.0.id() == "ReducingGenerator").collect();
    loop {
        let mut progress = false;
        for (i, g) in gens.iter().enumerate() {
            if done[i] {
                continue;
            }
            let mut buf = GeneratedValues::empty();
            if g.0.run(&w, &mut buf) {
                done[i] = true;
                progress = true;
            }
            for (t, v) in buf.target_values {
                w.set_target(t, v).unwrap();
            }
        }
        if !progress {
            break;
        }
    }
    assert!(done.iter().all(|&d| d));
    let proof =
        prove_with_partition_witness(&data.prover_only, &data.common, w, &mut TimingTree::default())
            .unwrap();
    eprintln!(
        "forged proof public inputs: old_acc={:?} output={:?}",
        &proof.public_inputs[..D],
        &proof.public_inputs[D..]
    );
    assert_eq!(&proof.public_inputs[D..], &forged.0[..]);
    let res = data.verify(proof);
    eprintln!("forged proof (output != old_acc) verify result: {:?}", res.as_ref().map_err(|e| e.to_string()));
    assert!(
        res.is_err(),
        "C07 VIOLATION: verifier accepted a replaced generator-written wire of ReducingGate(0)"
    );
}
