//! C19 harness: circuit keys / verdicts must not depend on hash seeds, rayon schedule, `parallel`
//! feature or SIMD build.
//!
//! In-process: every circuit program is built `REPS` times (every `HashMap::new()` in this code
//! base gets a fresh ahash seed: ahash `RandomState::new()` mixes a global counter + an address),
//! and all `verifier_only`, `common`, sigma/constant commitments must be identical.
//! Cross-process / cross-build: `C19_OUT=<dir>` dumps verifier data, common data and a proof for
//! every program; `C19_IN=<dir>` loads the dump of ANOTHER process/build, requires byte-identical
//! keys, verifies the foreign proof with the local key and the local proof with the foreign key.

use std::sync::Arc;

use plonky2::field::extension::{Extendable, FieldExtension};
use plonky2::field::types::{Field, Sample};
use plonky2::hash::hash_types::RichField;
use plonky2::hash::merkle_proofs::MerkleProofTarget;
use plonky2::hash::merkle_tree::MerkleTree;
use plonky2::hash::poseidon::PoseidonHash;
use plonky2::iop::target::Target;
use plonky2::iop::witness::{PartialWitness, WitnessWrite};
use plonky2::plonk::circuit_builder::CircuitBuilder;
use plonky2::plonk::circuit_data::{
    CircuitConfig, CircuitData, CommonCircuitData, VerifierCircuitData, VerifierOnlyCircuitData,
};
use plonky2::plonk::config::{GenericConfig, Hasher, KeccakGoldilocksConfig, PoseidonGoldilocksConfig};
use plonky2::plonk::proof::ProofWithPublicInputs;
use plonky2::util::serialization::DefaultGateSerializer;

const D: usize = 2;
type C = PoseidonGoldilocksConfig;
type F = <C as GenericConfig<D>>::F;
const REPS: usize = 6;

fn f(x: u64) -> F {
    F::from_canonical_u64(x)
}

/// Program A: a bit of everything in the gadget library, with more constants than one ConstantGate
/// can hold, partially filled arithmetic/random-access/base-sum gates, etc.
fn program_a<F: RichField + Extendable<D>, Cfg: GenericConfig<D, F = F>, const D: usize>(
    config: CircuitConfig,
) -> (CircuitData<F, Cfg, D>, PartialWitness<F>) {
    let mut b = CircuitBuilder::<F, D>::new(config);
    let mut pw = PartialWitness::new();
    let x = b.add_virtual_target();
    let y = b.add_virtual_target();
    pw.set_target(x, F::from_canonical_u64(123456789)).unwrap();
    pw.set_target(y, F::from_canonical_u64(987)).unwrap();
    b.register_public_input(x);

    // many distinct constants, in a scrambled order
    let mut acc = x;
    for i in 0..97u64 {
        let c = b.constant(F::from_canonical_u64((i * 0x9E3779B97F4A7C15u64 as u64 >> 7) ^ (i << 40)));
        let t = b.mul(acc, c);
        acc = b.add(t, y);
        let k = F::from_canonical_u64(1000 - i);
        acc = b.arithmetic(k, F::from_canonical_u64(i + 3), acc, y, x);
    }
    // extension arithmetic
    let ex = b.convert_to_ext(acc);
    let ey = b.constant_extension(<F as Extendable<D>>::Extension::from_basefield_array(
        [F::from_canonical_u64(5); D],
    ));
    let mut e = b.mul_extension(ex, ey);
    for _ in 0..5 {
        e = b.mul_add_extension(e, ey, ex);
        e = b.square_extension(e);
    }
    let e7 = b.exp_u64_extension(e, 77);
    b.register_public_input(e7.0[0]);

    // bits / range checks / base sums
    let bits = b.split_le(y, 12);
    let s = b.le_sum(bits.iter());
    b.connect(s, y);
    b.range_check(y, 10);
    let lo = b.split_le_base::<2>(y, 11);
    let _ = lo;

    // exponentiation
    let p = b.exp(x, y, 10);
    let q = b.exp_u64(x, 987);
    b.connect(p, q);
    let p2 = b.exp_from_bits(x, bits.iter());
    b.connect(p2, q);

    // random access with several vector sizes
    for sz in [2usize, 4, 8, 16, 32] {
        let v: Vec<Target> = (0..sz)
            .map(|i| b.constant(F::from_canonical_u64(7 * i as u64 + sz as u64)))
            .collect();
        let idx = b.constant(F::from_canonical_usize(sz - 1));
        let r = b.random_access(idx, v.clone());
        b.connect(r, v[sz - 1]);
    }

    // selects, equality
    let eq = b.is_equal(p, q);
    let sel = b.select(eq, x, y);
    b.connect(sel, x);

    // hashing + merkle proof
    let h = b.hash_n_to_hash_no_pad::<Cfg::InnerHasher>(vec![x, y, acc, p]);
    b.register_public_inputs(&h.elements);

    let leaves: Vec<Vec<F>> = (0..16)
        .map(|i| vec![F::from_canonical_u64(i), F::from_canonical_u64(i * i)])
        .collect();
    let tree = MerkleTree::<F, Cfg::InnerHasher>::new(leaves.clone(), 1);
    let li = 11usize;
    let proof = tree.prove(li);
    let proof_t = MerkleProofTarget {
        siblings: b.add_virtual_hashes(proof.siblings.len()),
    };
    for (t, s) in proof_t.siblings.iter().zip(&proof.siblings) {
        pw.set_hash_target(*t, *s).unwrap();
    }
    let cap_t = b.constant_merkle_cap(&tree.cap);
    let li_t = b.constant(F::from_canonical_usize(li));
    let li_bits = b.split_le(li_t, 4);
    let leaf_t: Vec<Target> = leaves[li].iter().map(|&v| b.constant(v)).collect();
    b.verify_merkle_proof_to_cap::<Cfg::InnerHasher>(leaf_t, &li_bits, &cap_t, &proof_t);

    (b.build::<Cfg>(), pw)
}

/// Program B: lookups in two tables.
fn program_b(config: CircuitConfig) -> (CircuitData<F, C, D>, PartialWitness<F>) {
    let mut b = CircuitBuilder::<F, D>::new(config);
    let mut pw = PartialWitness::new();
    let t1: Vec<(u16, u16)> = (0..256u16).map(|i| (i, (i * 7 + 3) % 256)).collect();
    let t2: Vec<(u16, u16)> = (0..100u16).map(|i| (i, 1000 - i)).collect();
    let i1 = b.add_lookup_table_from_pairs(Arc::new(t1));
    let i2 = b.add_lookup_table_from_pairs(Arc::new(t2));
    for k in 0..70u64 {
        let a = b.add_virtual_target();
        pw.set_target(a, f((k * 13) % 100)).unwrap();
        let o1 = b.add_lookup_from_index(a, i1);
        let o2 = b.add_lookup_from_index(a, i2);
        let s = b.add(o1, o2);
        b.register_public_input(s);
    }
    let c = b.constant(f(42));
    let o = b.add_lookup_from_index(c, i2);
    b.register_public_input(o);
    (b.build::<C>(), pw)
}

/// Program C: recursive verifier of program A.
fn program_c(
    inner: &CircuitData<F, C, D>,
    inner_proof: &ProofWithPublicInputs<F, C, D>,
    config: CircuitConfig,
) -> (CircuitData<F, C, D>, PartialWitness<F>) {
    let mut b = CircuitBuilder::<F, D>::new(config);
    let mut pw = PartialWitness::new();
    let pt = b.add_virtual_proof_with_pis(&inner.common);
    let vd = b.constant_verifier_data(&inner.verifier_only);
    b.verify_proof::<C>(&pt, &vd, &inner.common);
    b.register_public_inputs(&pt.public_inputs);
    pw.set_proof_with_pis_target(&pt, inner_proof).unwrap();
    (b.build::<C>(), pw)
}

fn key_bytes<F: RichField + Extendable<D>, Cfg: GenericConfig<D, F = F>, const D: usize>(
    d: &CircuitData<F, Cfg, D>,
) -> (Vec<u8>, Vec<u8>) {
    (
        d.verifier_only.to_bytes().unwrap(),
        d.common.to_bytes(&DefaultGateSerializer).unwrap(),
    )
}

fn hex(b: &[u8]) -> String {
    let d = plonky2::hash::keccak::KeccakHash::<32>::hash_no_pad(
        &b.iter().map(|&x| f(x as u64)).collect::<Vec<_>>(),
    );
    d.0.iter().take(8).map(|x| format!("{x:02x}")).collect()
}

fn check_program<Cfg: GenericConfig<D, F = F>>(
    name: &str,
    builds: Vec<(CircuitData<F, Cfg, D>, PartialWitness<F>)>,
) -> (CircuitData<F, Cfg, D>, ProofWithPublicInputs<F, Cfg, D>) {
    let keys: Vec<_> = builds.iter().map(|(d, _)| key_bytes(d)).collect();
    for (i, k) in keys.iter().enumerate() {
        assert_eq!(
            d_digest(&builds[0].0),
            d_digest(&builds[i].0),
            "{name}: circuit_digest differs between in-process builds 0 and {i}"
        );
        assert_eq!(keys[0].0, k.0, "{name}: verifier_only differs (build {i})");
        assert_eq!(keys[0].1, k.1, "{name}: common differs (build {i})");
        assert_eq!(builds[0].0.common, builds[i].0.common);
        assert_eq!(
            builds[0].0.prover_only.sigmas, builds[i].0.prover_only.sigmas,
            "{name}: sigmas differ"
        );
        assert_eq!(
            builds[0].0.prover_only.representative_map,
            builds[i].0.prover_only.representative_map,
            "{name}: representative_map differs"
        );
        assert_eq!(
            builds[0].0.prover_only.generator_indices_by_watches,
            builds[i].0.prover_only.generator_indices_by_watches,
            "{name}: generator index differs"
        );
        let ids0: Vec<String> = builds[0].0.prover_only.generators.iter().map(|g| format!("{:?}", g.0)).collect();
        let idsi: Vec<String> = builds[i].0.prover_only.generators.iter().map(|g| format!("{:?}", g.0)).collect();
        assert_eq!(ids0, idsi, "{name}: generator order differs");
    }
    // proofs: each build proves, every build's verifier data must accept every proof
    let mut proofs = vec![];
    let mut datas = vec![];
    for (d, pw) in builds {
        let p = d.prove(pw).unwrap();
        proofs.push(p);
        datas.push(d);
    }
    // witness-derived parts must be identical (only pow witness / blinding may differ)
    for p in &proofs {
        assert_eq!(p.public_inputs, proofs[0].public_inputs, "{name}: public inputs differ");
    }
    for (i, d) in datas.iter().enumerate() {
        for (j, p) in proofs.iter().enumerate() {
            d.verify(p.clone())
                .unwrap_or_else(|e| panic!("{name}: proof {j} rejected by key {i}: {e}"));
        }
    }
    // compressed path
    let cp = datas[0].compress(proofs[1].clone()).unwrap();
    datas[2].verify_compressed(cp.clone()).unwrap();
    let cb = cp.to_bytes();
    let cb2 = datas[3].compress(proofs[1].clone()).unwrap().to_bytes();
    assert_eq!(cb, cb2, "{name}: compressed proof bytes differ");

    let (vo, co) = &keys[0];
    println!(
        "C19 {name}: digest={:?} vo={} common={} degree_bits={} proof0={} proof1={}",
        d_digest(&datas[0]),
        hex(vo),
        hex(co),
        datas[0].common.degree_bits(),
        hex(&proofs[0].to_bytes()),
        hex(&proofs[1].to_bytes()),
    );

    let d0 = datas.swap_remove(0);
    let p0 = proofs.swap_remove(0);
    cross(name, &d0, &p0);
    (d0, p0)
}

fn d_digest<Cfg: GenericConfig<D, F = F>>(d: &CircuitData<F, Cfg, D>) -> String {
    format!("{:?}", d.verifier_only.circuit_digest)
}

fn cross<Cfg: GenericConfig<D, F = F>>(
    name: &str,
    d: &CircuitData<F, Cfg, D>,
    p: &ProofWithPublicInputs<F, Cfg, D>,
) {
    let (vo, co) = key_bytes(d);
    if let Ok(dir) = std::env::var("C19_IN") {
        let fvo = std::fs::read(format!("{dir}/{name}.vo")).unwrap();
        let fco = std::fs::read(format!("{dir}/{name}.common")).unwrap();
        let fpr = std::fs::read(format!("{dir}/{name}.proof")).unwrap();
        assert_eq!(vo, fvo, "{name}: verifier_only differs from the one in {dir}");
        assert_eq!(co, fco, "{name}: common differs from the one in {dir}");
        let fcommon = CommonCircuitData::<F, D>::from_bytes(fco, &DefaultGateSerializer).unwrap();
        let fvonly = VerifierOnlyCircuitData::<Cfg, D>::from_bytes(fvo).unwrap();
        let fproof = ProofWithPublicInputs::<F, Cfg, D>::from_bytes(fpr, &fcommon).unwrap();
        d.verify(fproof.clone())
            .unwrap_or_else(|e| panic!("{name}: foreign proof rejected by local key: {e}"));
        let fvd = VerifierCircuitData {
            verifier_only: fvonly,
            common: fcommon,
        };
        fvd.verify(p.clone())
            .unwrap_or_else(|e| panic!("{name}: local proof rejected by foreign key: {e}"));
        println!("C19 {name}: cross-check against {dir} OK");
    }
    if let Ok(dir) = std::env::var("C19_OUT") {
        std::fs::create_dir_all(&dir).unwrap();
        std::fs::write(format!("{dir}/{name}.vo"), vo).unwrap();
        std::fs::write(format!("{dir}/{name}.common"), co).unwrap();
        std::fs::write(format!("{dir}/{name}.proof"), p.to_bytes()).unwrap();
    }
}

#[test]
fn c19_determinism() {
    let std_cfg = CircuitConfig::standard_recursion_config();
    let zk_cfg = CircuitConfig::standard_recursion_zk_config();
    let mut wide = CircuitConfig::standard_recursion_config();
    wide.num_wires = 200;
    wide.num_routed_wires = 120;
    wide.num_constants = 3;
    wide.use_base_arithmetic_gate = false;

    let (a0, pa0) = check_program::<C>(
        "A_std",
        (0..REPS).map(|_| program_a::<F, C, D>(std_cfg.clone())).collect(),
    );
    check_program::<C>(
        "A_zk",
        (0..REPS).map(|_| program_a::<F, C, D>(zk_cfg.clone())).collect(),
    );
    check_program::<C>(
        "A_wide",
        (0..REPS).map(|_| program_a::<F, C, D>(wide.clone())).collect(),
    );
    check_program::<KeccakGoldilocksConfig>(
        "A_keccak",
        (0..REPS)
            .map(|_| program_a::<F, KeccakGoldilocksConfig, D>(std_cfg.clone()))
            .collect(),
    );
    check_program::<C>(
        "B_lookup",
        (0..REPS).map(|_| program_b(std_cfg.clone())).collect(),
    );
    let (c0, pc0) = check_program::<C>(
        "C_rec",
        (0..REPS).map(|_| program_c(&a0, &pa0, std_cfg.clone())).collect(),
    );
    check_program::<C>(
        "C_rec2",
        (0..REPS).map(|_| program_c(&c0, &pc0, std_cfg.clone())).collect(),
    );
    let _ = F::rand();
    let _ = PoseidonHash::hash_no_pad(&[F::ONE]);
}
