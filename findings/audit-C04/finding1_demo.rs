//! finding1 demo: the variable-degree recursive STARK verifier
//! (`verify_stark_proof_circuit(.., Some(min_degree_bits_to_support))`) accepts a forged proof of a
//! FALSE statement.
//!
//! Root cause: the circuit is laid out for the largest supported degree. Its `final_poly` target has
//! `2^(max_degree_bits - total_arities)` coefficients and its transcript absorbs all of them (as well as all
//! `K` commit-phase caps). For a smaller proof the native Fiat-Shamir transcript (`fri_challenges`
//! with `final_poly_coeff_len` / `max_num_query_steps`) treats the surplus positions as the constant
//! ZERO, and the native verifier enforces `final_poly.len() == params.final_poly_len()`. In the
//! circuit, however, the surplus coefficients are plain prover-chosen witnesses: nothing connects
//! them to zero as a function of the (also prover-chosen, never absorbed) `degree_bits` witness. Only
//! the honest witness setter `set_fri_proof_target` writes zeros there.
//!
//! Here: circuit built for degree_bits 10 (ConstantArityBits(4,5), rate_bits 1, cap_height 4 =>
//! one reduction step, final polynomial of 64 coefficients). Proof of degree_bits 5 => no active
//! reduction step, LDE domain of 64 points, legitimate final polynomial of 32 coefficients. With 64
//! free coefficients the "final polynomial" interpolates ANY function on the 64-point LDE domain,
//! so the FRI low-degree test is vacuous and quotient openings can simply be made up.
//!
//! Run: cargo test --offline --release -p starky --test finding1_demo -- --nocapture

use core::marker::PhantomData;

use plonky2::field::extension::{Extendable, FieldExtension};
use plonky2::field::goldilocks_field::GoldilocksField;
use plonky2::field::packed::PackedField;
use plonky2::field::polynomial::{PolynomialCoeffs, PolynomialValues};
use plonky2::field::types::{Field, PrimeField64};
use plonky2::fri::oracle::PolynomialBatch;
use plonky2::fri::proof::{FriInitialTreeProof, FriProof, FriQueryRound};
use plonky2::hash::hash_types::RichField;
use plonky2::hash::merkle_proofs::MerkleProof;
use plonky2::iop::challenger::Challenger;
use plonky2::iop::ext_target::ExtensionTarget;
use plonky2::iop::witness::PartialWitness;
use plonky2::plonk::circuit_builder::CircuitBuilder;
use plonky2::plonk::circuit_data::CircuitConfig;
use plonky2::plonk::config::{GenericConfig, PoseidonGoldilocksConfig};
use plonky2::util::reducing::ReducingFactor;
use plonky2::util::timing::TimingTree;
use starky::config::StarkConfig;
use starky::constraint_consumer::{ConstraintConsumer, RecursiveConstraintConsumer};
use starky::evaluation_frame::{StarkEvaluationFrame, StarkFrame};
use starky::proof::{StarkOpeningSet, StarkProof, StarkProofWithPublicInputs};
use starky::prover::prove;
use starky::recursive_verifier::{
    add_virtual_stark_proof_with_pis, set_stark_proof_with_pis_target, verify_stark_proof_circuit,
};
use starky::stark::Stark;
use starky::util::trace_rows_to_poly_values;
use starky::verifier::verify_stark_proof;

const D: usize = 2;
type C = PoseidonGoldilocksConfig;
type F = GoldilocksField;
type FE = <F as Extendable<D>>::Extension;
type H = <C as GenericConfig<D>>::Hasher;

// ---------------------------------------------------------------------------------------------
// Verbatim copy of starky's (private) FibonacciStark.
// ---------------------------------------------------------------------------------------------
#[derive(Copy, Clone)]
struct FibonacciStark<F: RichField + Extendable<D>, const D: usize> {
    num_rows: usize,
    _phantom: PhantomData<F>,
}

impl<F: RichField + Extendable<D>, const D: usize> FibonacciStark<F, D> {
    const PI_INDEX_X0: usize = 0;
    const PI_INDEX_X1: usize = 1;
    const PI_INDEX_RES: usize = 2;

    const fn new(num_rows: usize) -> Self {
        Self {
            num_rows,
            _phantom: PhantomData,
        }
    }

    fn generate_trace(&self, x0: F, x1: F) -> Vec<PolynomialValues<F>> {
        let trace_rows = (0..self.num_rows)
            .scan([x0, x1], |acc, _| {
                let tmp = *acc;
                acc[0] = tmp[1];
                acc[1] = tmp[0] + tmp[1];
                Some(tmp)
            })
            .collect::<Vec<_>>();
        trace_rows_to_poly_values(trace_rows)
    }
}

const FIBONACCI_COLUMNS: usize = 2;
const FIBONACCI_PUBLIC_INPUTS: usize = 3;

impl<F: RichField + Extendable<D>, const D: usize> Stark<F, D> for FibonacciStark<F, D> {
    type EvaluationFrame<FE, P, const D2: usize>
        = StarkFrame<P, P::Scalar, FIBONACCI_COLUMNS, FIBONACCI_PUBLIC_INPUTS>
    where
        FE: FieldExtension<D2, BaseField = F>,
        P: PackedField<Scalar = FE>;

    type EvaluationFrameTarget = StarkFrame<
        ExtensionTarget<D>,
        ExtensionTarget<D>,
        FIBONACCI_COLUMNS,
        FIBONACCI_PUBLIC_INPUTS,
    >;

    fn eval_packed_generic<FE, P, const D2: usize>(
        &self,
        vars: &Self::EvaluationFrame<FE, P, D2>,
        yield_constr: &mut ConstraintConsumer<P>,
    ) where
        FE: FieldExtension<D2, BaseField = F>,
        P: PackedField<Scalar = FE>,
    {
        let local_values = vars.get_local_values();
        let next_values = vars.get_next_values();
        let public_inputs = vars.get_public_inputs();

        yield_constr.constraint_first_row(local_values[0] - public_inputs[Self::PI_INDEX_X0]);
        yield_constr.constraint_first_row(local_values[1] - public_inputs[Self::PI_INDEX_X1]);
        yield_constr.constraint_last_row(local_values[1] - public_inputs[Self::PI_INDEX_RES]);

        yield_constr.constraint_transition(next_values[0] - local_values[1]);
        yield_constr.constraint_transition(next_values[1] - local_values[0] - local_values[1]);
    }

    fn eval_ext_circuit(
        &self,
        builder: &mut CircuitBuilder<F, D>,
        vars: &Self::EvaluationFrameTarget,
        yield_constr: &mut RecursiveConstraintConsumer<F, D>,
    ) {
        let local_values = vars.get_local_values();
        let next_values = vars.get_next_values();
        let public_inputs = vars.get_public_inputs();
        let pis_constraints = [
            builder.sub_extension(local_values[0], public_inputs[Self::PI_INDEX_X0]),
            builder.sub_extension(local_values[1], public_inputs[Self::PI_INDEX_X1]),
            builder.sub_extension(local_values[1], public_inputs[Self::PI_INDEX_RES]),
        ];
        yield_constr.constraint_first_row(builder, pis_constraints[0]);
        yield_constr.constraint_first_row(builder, pis_constraints[1]);
        yield_constr.constraint_last_row(builder, pis_constraints[2]);

        let first_col_constraint = builder.sub_extension(next_values[0], local_values[1]);
        yield_constr.constraint_transition(builder, first_col_constraint);
        let second_col_constraint = {
            let tmp = builder.sub_extension(next_values[1], local_values[0]);
            builder.sub_extension(tmp, local_values[1])
        };
        yield_constr.constraint_transition(builder, second_col_constraint);
    }

    fn constraint_degree(&self) -> usize {
        2
    }
}

type S = FibonacciStark<F, D>;

fn ext(x: F) -> FE {
    <FE as FieldExtension<D>>::from_basefield(x)
}

fn fibonacci(n: usize, x0: F, x1: F) -> F {
    (0..n).fold((x0, x1), |x, _| (x.1, x.0 + x.1)).1
}

fn reverse_bits(x: usize, bits: usize) -> usize {
    let mut r = 0;
    for i in 0..bits {
        if (x >> i) & 1 == 1 {
            r |= 1 << (bits - 1 - i);
        }
    }
    r
}

fn challenges_of(
    stark: S,
    p: &StarkProofWithPublicInputs<F, C, D>,
    config: &StarkConfig,
    vfp: &plonky2::fri::FriParams,
) -> starky::proof::StarkProofChallenges<F, D> {
    let mut challenger = Challenger::<F, H>::new();
    p.get_challenges(
        &stark,
        &mut challenger,
        None,
        None,
        false,
        config,
        Some(vfp.clone()),
    )
}

/// Forge a "proof" that the 32nd Fibonacci number is `fib + 1`.
fn forge(
    stark: S,
    config: &StarkConfig,
    degree_bits: usize,
    vfp: &plonky2::fri::FriParams,
    false_public_inputs: [F; 3],
) -> StarkProofWithPublicInputs<F, C, D> {
    let rate_bits = config.fri_config.rate_bits;
    let cap_height = config.fri_config.cap_height;
    let n = 1usize << degree_bits;
    let lde_bits = degree_bits + rate_bits;
    let lde_size = 1usize << lde_bits;
    let mut timing = TimingTree::default();

    // 1. Honest Fibonacci trace from (0, 1): its last row does NOT match the claimed result.
    let trace = stark.generate_trace(false_public_inputs[0], false_public_inputs[1]);
    let trace_commitment =
        PolynomialBatch::<F, C, D>::from_values(trace, rate_bits, false, cap_height, &mut timing, None);

    // 2. "Quotient" commitment: two arbitrary polynomials, unrelated to the constraints.
    let junk_quotients: Vec<PolynomialCoeffs<F>> = (0..2)
        .map(|k| {
            PolynomialCoeffs::new(
                (0..n)
                    .map(|i| F::from_canonical_usize(1 + 7 * i + 1000 * k))
                    .collect(),
            )
        })
        .collect();
    let quotient_commitment = PolynomialBatch::<F, C, D>::from_coeffs(
        junk_quotients,
        rate_bits,
        false,
        cap_height,
        &mut timing,
        None,
    );

    // Skeleton proof, progressively filled in; challenges are always recomputed with the public
    // native `get_challenges` (with `verifier_circuit_fri_params`, i.e. exactly the transcript of the
    // recursive circuit).
    let dummy_query = FriQueryRound {
        initial_trees_proof: FriInitialTreeProof {
            evals_proofs: vec![(
                vec![],
                MerkleProof {
                    siblings: vec![Default::default(); lde_bits - cap_height],
                },
            )],
        },
        steps: vec![],
    };
    let mut p = StarkProofWithPublicInputs::<F, C, D> {
        proof: StarkProof {
            trace_cap: trace_commitment.merkle_tree.cap.clone(),
            auxiliary_polys_cap: None,
            quotient_polys_cap: Some(quotient_commitment.merkle_tree.cap.clone()),
            openings: StarkOpeningSet {
                local_values: vec![FE::ZERO; 2],
                next_values: vec![FE::ZERO; 2],
                auxiliary_polys: None,
                auxiliary_polys_next: None,
                ctl_zs_first: None,
                quotient_polys: Some(vec![FE::ZERO; 2]),
            },
            opening_proof: FriProof {
                commit_phase_merkle_caps: vec![],
                query_round_proofs: vec![dummy_query],
                final_poly: PolynomialCoeffs::new(vec![FE::ZERO; lde_size]),
                pow_witness: F::ZERO,
            },
        },
        public_inputs: false_public_inputs.to_vec(),
    };

    // 3. alphas and zeta (depend on public inputs, config, trace cap, quotient cap only).
    let ch = challenges_of(stark, &p, config, vfp);
    let zeta = ch.stark_zeta;
    let alphas = ch.stark_alphas.clone();
    let g = F::primitive_root_of_unity(degree_bits);

    // 4. Openings: true evaluations of the trace; quotient openings are MADE UP so that
    //    vanishing(zeta) == Z_H(zeta) * quotient(zeta) holds for the false public inputs.
    let mut openings = StarkOpeningSet::new(
        zeta,
        g,
        &trace_commitment,
        None,
        Some(&quotient_commitment),
        0,
        false,
        &[],
    );
    let z_h_zeta = zeta.exp_power_of_2(degree_bits) - FE::ONE;
    let n_fe = FE::from_canonical_usize(n);
    let l_0 = z_h_zeta / (n_fe * (zeta - FE::ONE));
    let l_last = z_h_zeta / (n_fe * (zeta * ext(g) - FE::ONE));
    let z_last = zeta - ext(g.inverse());
    let mut consumer = ConstraintConsumer::<FE>::new(
        alphas.iter().map(|&a| ext(a)).collect(),
        z_last,
        l_0,
        l_last,
    );
    let pis_ext: Vec<FE> = false_public_inputs
        .iter()
        .map(|&x| ext(x))
        .collect();
    let vars = <S as Stark<F, D>>::EvaluationFrame::<FE, FE, D>::from_values(
        &openings.local_values,
        &openings.next_values,
        &pis_ext,
    );
    stark.eval_packed_generic::<FE, FE, D>(&vars, &mut consumer);
    let vanishing = consumer.accumulators();
    let true_quotient_openings = openings.quotient_polys.clone().unwrap();
    let forged_quotient_openings: Vec<FE> = vanishing.iter().map(|&v| v / z_h_zeta).collect();
    assert_ne!(true_quotient_openings, forged_quotient_openings);
    openings.quotient_polys = Some(forged_quotient_openings);
    p.proof.openings = openings.clone();

    // 5. FRI alpha, then the combined "layer 0" function on the WHOLE LDE domain (it is not
    //    low-degree: the quotient openings are wrong and the constraints do not hold).
    let ch = challenges_of(stark, &p, config, vfp);
    let fri_alpha = ch.fri_challenges.fri_alpha;
    let instance = stark.fri_instance(zeta, g, 0, vec![], config);
    let batch_values: Vec<Vec<FE>> = vec![
        openings
            .local_values
            .iter()
            .chain(openings.quotient_polys.as_ref().unwrap())
            .copied()
            .collect(),
        openings.next_values.clone(),
    ];
    let reduced_openings: Vec<FE> = batch_values
        .iter()
        .map(|vals| ReducingFactor::new(fri_alpha).reduce(vals.iter()))
        .collect();
    let trees = [&trace_commitment.merkle_tree, &quotient_commitment.merkle_tree];
    let w = F::primitive_root_of_unity(lde_bits);
    let layer0_natural: Vec<FE> = (0..lde_size)
        .map(|j| {
            let x_index = reverse_bits(j, lde_bits);
            let x = ext(F::coset_shift() * w.exp_u64(j as u64));
            let mut alpha = ReducingFactor::new(fri_alpha);
            let mut sum = FE::ZERO;
            for (batch, reduced_opening) in instance.batches.iter().zip(&reduced_openings) {
                let evals = batch.polynomials.iter().map(|pi| {
                    ext(trees[pi.oracle_index].get(x_index)[pi.polynomial_index])
                });
                let reduced_evals = alpha.reduce(evals);
                let numerator = reduced_evals - *reduced_opening;
                let denominator = x - batch.point;
                sum = alpha.shift(sum);
                sum += numerator / denominator;
            }
            sum
        })
        .collect();

    // 6. "Final polynomial": the full interpolant of that arbitrary function. 64 coefficients where
    //    a degree_bits = 5 proof may only have 32.
    let final_poly =
        PolynomialValues::new(layer0_natural).coset_ifft(ext(F::coset_shift()));
    assert_eq!(final_poly.len(), lde_size);
    let legit_len = config.fri_params(degree_bits).final_poly_len();
    println!(
        "forged final polynomial: {} coefficients (legitimate length for degree_bits {}: {}); \
         non-zero coefficients beyond the legitimate length: {}",
        final_poly.len(),
        degree_bits,
        legit_len,
        final_poly.coeffs[legit_len..]
            .iter()
            .filter(|c| !c.is_zero())
            .count()
    );
    p.proof.opening_proof.final_poly = final_poly;

    // 7. Grind the proof-of-work witness.
    let min_leading_zeros = config.fri_config.proof_of_work_bits + (64 - F::order().bits()) as u32;
    let mut found = false;
    for cand in 0..(1u64 << 26) {
        p.proof.opening_proof.pow_witness = F::from_canonical_u64(cand);
        let ch = challenges_of(stark, &p, config, vfp);
        if ch
            .fri_challenges
            .fri_pow_response
            .to_canonical_u64()
            .leading_zeros()
            >= min_leading_zeros
        {
            found = true;
            break;
        }
    }
    assert!(found, "pow grinding failed");

    // 8. Answer the queries: plain Merkle openings of the two committed oracles, no reduction steps.
    let ch = challenges_of(stark, &p, config, vfp);
    p.proof.opening_proof.query_round_proofs = ch
        .fri_challenges
        .fri_query_indices
        .iter()
        .map(|&x_index| FriQueryRound {
            initial_trees_proof: FriInitialTreeProof {
                evals_proofs: trees
                    .iter()
                    .map(|t| (t.get(x_index).to_vec(), t.prove(x_index)))
                    .collect(),
            },
            steps: vec![],
        })
        .collect();
    p
}

#[test]
fn forged_false_statement_is_accepted_by_variable_degree_recursive_verifier() {
    let stark_config = StarkConfig::standard_fast_config(); // 84 queries, 16 PoW bits, rate 1/2
    let verifier_degree_bits = 10; // circuit sized for 2^10 rows ...
    let min_degree_bits_to_support = 4; // ... accepting anything from 2^4 rows on
    let degree_bits = 5; // the forged proof claims 2^5 rows
    let vfp = stark_config.fri_params(verifier_degree_bits);
    println!(
        "circuit FRI params: arities {:?}, final_poly_len {}",
        vfp.reduction_arity_bits,
        vfp.final_poly_len()
    );

    let num_rows = 1 << degree_bits;
    let stark = S::new(num_rows);
    let true_res = fibonacci(num_rows - 1, F::ZERO, F::ONE);
    let false_res = true_res + F::ONE;
    let honest_pis = [F::ZERO, F::ONE, true_res];
    let false_pis = [F::ZERO, F::ONE, false_res];

    // Honest proof (for reference) and forged proof of the false statement.
    let honest = prove::<F, C, S, D>(
        stark,
        &stark_config,
        stark.generate_trace(F::ZERO, F::ONE),
        &honest_pis,
        Some(vfp.clone()),
        &mut TimingTree::default(),
    )
    .unwrap();
    verify_stark_proof(stark, honest.clone(), &stark_config, Some(vfp.clone())).unwrap();

    let forged = forge(stark, &stark_config, degree_bits, &vfp, false_pis);
    assert_eq!(forged.proof.recover_degree_bits(&stark_config), degree_bits);
    // The native verifier rejects it (final polynomial too long).
    let native = verify_stark_proof(stark, forged.clone(), &stark_config, Some(vfp.clone()));
    assert!(native.is_err());
    println!(
        "native verify_stark_proof on forged proof: Err({})",
        native.unwrap_err().to_string().lines().next().unwrap_or("")
    );

    // The recursive verifier circuit, exactly as in starky's own
    // `test_recursive_verifier_with_multiple_degree_bits`.
    let mut builder = CircuitBuilder::<F, D>::new(CircuitConfig::standard_recursion_config());
    let zero = builder.zero();
    let circuit_stark = S::new(1 << verifier_degree_bits);
    let pt = add_virtual_stark_proof_with_pis(
        &mut builder,
        &circuit_stark,
        &stark_config,
        verifier_degree_bits,
        0,
        0,
    );
    builder.register_public_inputs(&pt.public_inputs);
    verify_stark_proof_circuit::<F, C, S, D>(
        &mut builder,
        circuit_stark,
        pt.clone(),
        &stark_config,
        Some(min_degree_bits_to_support),
    );
    let data = builder.build::<C>();
    println!("recursive verifier circuit: 2^{} gates", data.common.degree_bits());

    // Sanity: the honest proof goes through.
    let mut pw = PartialWitness::new();
    set_stark_proof_with_pis_target(&mut pw, &pt, &honest, degree_bits, zero).unwrap();
    let outer = data.prove(pw).unwrap();
    assert_eq!(outer.public_inputs, honest_pis.to_vec());
    data.verify(outer).unwrap();
    println!("honest inner proof: outer proof verifies, public inputs {:?}", honest_pis);

    // The forged proof of the FALSE statement goes through as well.
    let mut pw = PartialWitness::new();
    set_stark_proof_with_pis_target(&mut pw, &pt, &forged, degree_bits, zero).unwrap();
    let outer = data.prove(pw).expect("outer circuit should be satisfiable with the forged proof");
    assert_eq!(outer.public_inputs, false_pis.to_vec());
    data.verify(outer.clone()).expect("outer proof verifies");
    println!(
        "FORGED inner proof ACCEPTED: outer proof verifies with public inputs {:?} although fib({}) = {}",
        outer.public_inputs,
        num_rows,
        true_res
    );
}
