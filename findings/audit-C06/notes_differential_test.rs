//! C06 audit: differential test native verifier vs in-circuit verifier, over several inner
//! configurations and single-component tampers.
//!
//! Run: cargo test --offline --release -p plonky2 --test c06_diff -- --nocapture

use std::panic::{catch_unwind, AssertUnwindSafe};
use std::sync::Arc;

use anyhow::Result;
use plonky2::field::extension::Extendable;
use plonky2::field::types::Field;
use plonky2::fri::reduction_strategies::FriReductionStrategy;
use plonky2::fri::FriConfig;
use plonky2::gates::noop::NoopGate;
use plonky2::iop::generator::generate_partial_witness;
use plonky2::iop::witness::{PartialWitness, WitnessWrite};
use plonky2::plonk::circuit_builder::CircuitBuilder;
use plonky2::plonk::circuit_data::{CircuitConfig, CircuitData, VerifierCircuitTarget};
use plonky2::plonk::config::{GenericConfig, PoseidonGoldilocksConfig};
use plonky2::plonk::proof::{ProofWithPublicInputs, ProofWithPublicInputsTarget};

const D: usize = 2;
type C = PoseidonGoldilocksConfig;
type F = <C as GenericConfig<D>>::F;
type FE = <F as Extendable<D>>::Extension;
type P = ProofWithPublicInputs<F, C, D>;

fn inner_circuit(config: &CircuitConfig, n_ops: usize, lookups: bool, pad_to: usize) -> (CircuitData<F, C, D>, P) {
    let mut builder = CircuitBuilder::<F, D>::new(config.clone());
    let x = builder.add_virtual_target();
    let mut acc = x;
    for _ in 0..n_ops {
        acc = builder.mul(acc, x);
        acc = builder.add(acc, x);
    }
    builder.register_public_input(x);
    builder.register_public_input(acc);
    let mut lk = None;
    if lookups {
        let table: Vec<(u16, u16)> = (0..40u16).map(|i| (i, (i * 7 + 3) % 251)).collect();
        let idx = builder.add_lookup_table_from_pairs(Arc::new(table));
        let a = builder.add_virtual_target();
        let o1 = builder.add_lookup_from_index(a, idx);
        let o2 = builder.add_lookup_from_index(x, idx);
        builder.register_public_input(o1);
        builder.register_public_input(o2);
        lk = Some(a);
    }
    while builder.num_gates() < pad_to {
        builder.add_gate(NoopGate, vec![]);
    }
    let data = builder.build::<C>();
    let mut pw = PartialWitness::new();
    pw.set_target(x, F::from_canonical_u64(3)).unwrap();
    if let Some(a) = lk {
        pw.set_target(a, F::from_canonical_u64(17)).unwrap();
    }
    let proof = data.prove(pw).unwrap();
    data.verify(proof.clone()).unwrap();
    (data, proof)
}

struct Outer {
    data: CircuitData<F, C, D>,
    pt: ProofWithPublicInputsTarget<D>,
    vdt: VerifierCircuitTarget,
}

fn outer_circuit(inner: &CircuitData<F, C, D>, config: &CircuitConfig) -> Outer {
    let mut builder = CircuitBuilder::<F, D>::new(config.clone());
    let pt = builder.add_virtual_proof_with_pis(&inner.common);
    let vdt = builder.add_virtual_verifier_data(inner.common.config.fri_config.cap_height);
    builder.verify_proof::<C>(&pt, &vdt, &inner.common);
    builder.register_public_inputs(&pt.public_inputs);
    let data = builder.build::<C>();
    Outer { data, pt, vdt }
}

/// In-circuit verdict: Ok(()) iff an outer proof is produced and verifies. `full` = also prove when
/// witness generation succeeded (always done if witness generation succeeds).
fn in_circuit(outer: &Outer, inner: &CircuitData<F, C, D>, proof: &P) -> Result<()> {
    let mut pw = PartialWitness::new();
    pw.set_proof_with_pis_target(&outer.pt, proof)?;
    pw.set_verifier_data_target(&outer.vdt, &inner.verifier_only)?;
    // Fast path: witness generation detects violated copy constraints.
    generate_partial_witness(pw.clone(), &outer.data.prover_only, &outer.data.common)?;
    let outer_proof = outer.data.prove(pw)?;
    anyhow::ensure!(outer_proof.public_inputs == proof.public_inputs, "PIs not re-exposed");
    outer.data.verify(outer_proof)
}

fn tampers(proof: &P) -> Vec<(String, P)> {
    let one = FE::ONE;
    let mut v: Vec<(String, P)> = vec![];
    macro_rules! t {
        ($name:expr, |$p:ident| $body:block) => {{
            let mut $p = proof.clone();
            $body;
            v.push(($name.to_string(), $p));
        }};
    }
    t!("wires_cap", |p| { p.proof.wires_cap.0[0].elements[0] += F::ONE });
    t!("zs_pp_cap", |p| { p.proof.plonk_zs_partial_products_cap.0[0].elements[1] += F::ONE });
    t!("quotient_cap", |p| { let l = p.proof.quotient_polys_cap.0.len(); p.proof.quotient_polys_cap.0[l - 1].elements[3] += F::ONE });
    t!("open.constants[0]", |p| { p.proof.openings.constants[0] += one });
    t!("open.constants[last]", |p| { let l = p.proof.openings.constants.len(); p.proof.openings.constants[l - 1] += one });
    t!("open.sigmas[0]", |p| { p.proof.openings.plonk_sigmas[0] += one });
    t!("open.sigmas[last]", |p| { let l = p.proof.openings.plonk_sigmas.len(); p.proof.openings.plonk_sigmas[l - 1] += one });
    t!("open.wires[0]", |p| { p.proof.openings.wires[0] += one });
    t!("open.wires[last]", |p| { let l = p.proof.openings.wires.len(); p.proof.openings.wires[l - 1] += one });
    t!("open.zs[0]", |p| { p.proof.openings.plonk_zs[0] += one });
    t!("open.zs_next[last]", |p| { let l = p.proof.openings.plonk_zs_next.len(); p.proof.openings.plonk_zs_next[l - 1] += one });
    if !proof.proof.openings.partial_products.is_empty() {
        t!("open.pp[0]", |p| { p.proof.openings.partial_products[0] += one });
        t!("open.pp[last]", |p| { let l = p.proof.openings.partial_products.len(); p.proof.openings.partial_products[l - 1] += one });
    }
    t!("open.quotient[0]", |p| { p.proof.openings.quotient_polys[0] += one });
    t!("open.quotient[last]", |p| { let l = p.proof.openings.quotient_polys.len(); p.proof.openings.quotient_polys[l - 1] += one });
    for i in 0..proof.proof.openings.lookup_zs.len() {
        t!(format!("open.lookup_zs[{i}]"), |p| { p.proof.openings.lookup_zs[i] += one });
        t!(format!("open.lookup_zs_next[{i}]"), |p| { p.proof.openings.lookup_zs_next[i] += one });
    }
    // swap two openings of the same vector
    t!("open.wires swap 0<->1", |p| { p.proof.openings.wires.swap(0, 1) });
    let fp = &proof.proof.opening_proof;
    for i in 0..fp.commit_phase_merkle_caps.len() {
        t!(format!("fri.commit_cap[{i}]"), |p| { p.proof.opening_proof.commit_phase_merkle_caps[i].0[0].elements[2] += F::ONE });
    }
    t!("fri.final_poly[0]", |p| { p.proof.opening_proof.final_poly.coeffs[0] += one });
    t!("fri.final_poly[last]", |p| { let l = p.proof.opening_proof.final_poly.coeffs.len(); p.proof.opening_proof.final_poly.coeffs[l - 1] += one });
    t!("fri.pow_witness+1", |p| { p.proof.opening_proof.pow_witness += F::ONE });
    let nq = fp.query_round_proofs.len();
    for &q in &[0usize, nq - 1] {
        for o in 0..fp.query_round_proofs[q].initial_trees_proof.evals_proofs.len() {
            t!(format!("fri.q{q}.oracle{o}.leaf[0]"), |p| { p.proof.opening_proof.query_round_proofs[q].initial_trees_proof.evals_proofs[o].0[0] += F::ONE });
            t!(format!("fri.q{q}.oracle{o}.leaf[last]"), |p| { let l = p.proof.opening_proof.query_round_proofs[q].initial_trees_proof.evals_proofs[o].0.len(); p.proof.opening_proof.query_round_proofs[q].initial_trees_proof.evals_proofs[o].0[l - 1] += F::ONE });
            let ns = fp.query_round_proofs[q].initial_trees_proof.evals_proofs[o].1.siblings.len();
            if ns > 0 {
                t!(format!("fri.q{q}.oracle{o}.sibling[0]"), |p| { p.proof.opening_proof.query_round_proofs[q].initial_trees_proof.evals_proofs[o].1.siblings[0].elements[0] += F::ONE });
                t!(format!("fri.q{q}.oracle{o}.sibling[last]"), |p| { p.proof.opening_proof.query_round_proofs[q].initial_trees_proof.evals_proofs[o].1.siblings[ns - 1].elements[3] += F::ONE });
            }
        }
        for s in 0..fp.query_round_proofs[q].steps.len() {
            let ne = fp.query_round_proofs[q].steps[s].evals.len();
            for &e in &[0usize, ne - 1] {
                t!(format!("fri.q{q}.step{s}.evals[{e}]"), |p| { p.proof.opening_proof.query_round_proofs[q].steps[s].evals[e] += one });
            }
            let ns = fp.query_round_proofs[q].steps[s].merkle_proof.siblings.len();
            if ns > 0 {
                t!(format!("fri.q{q}.step{s}.sibling[last]"), |p| { p.proof.opening_proof.query_round_proofs[q].steps[s].merkle_proof.siblings[ns - 1].elements[1] += F::ONE });
            }
        }
    }
    if nq >= 2 {
        t!("fri.swap query rounds 0<->1", |p| { p.proof.opening_proof.query_round_proofs.swap(0, 1) });
    }
    t!("public_inputs[0]+1 (false statement)", |p| { p.public_inputs[0] += F::ONE });
    t!("public_inputs[1]+1 (false statement)", |p| { p.public_inputs[1] += F::ONE });
    v
}

struct Case {
    name: &'static str,
    inner: CircuitConfig,
    n_ops: usize,
    lookups: bool,
    pad_to: usize,
    do_tampers: bool,
}

fn with_fri(base: &CircuitConfig, f: impl FnOnce(&mut FriConfig)) -> CircuitConfig {
    let mut c = base.clone();
    f(&mut c.fri_config);
    c.security_bits = 1; // otherwise the builder refuses weak FRI parameters
    c
}

#[test]
fn c06_differential() {
    let std = CircuitConfig::standard_recursion_config();
    let zk = CircuitConfig::standard_recursion_zk_config();
    let cases = vec![
        Case { name: "std, 2^9", inner: std.clone(), n_ops: 300, lookups: false, pad_to: 300, do_tampers: true },
        Case { name: "zk, 2^?", inner: zk.clone(), n_ops: 100, lookups: false, pad_to: 0, do_tampers: true },
        Case { name: "std+lookups", inner: std.clone(), n_ops: 50, lookups: true, pad_to: 0, do_tampers: true },
        Case { name: "zk+lookups", inner: zk.clone(), n_ops: 50, lookups: true, pad_to: 0, do_tampers: false },
        Case { name: "tiny (few gates)", inner: std.clone(), n_ops: 1, lookups: false, pad_to: 0, do_tampers: true },
        Case { name: "arity 1 bits", inner: with_fri(&std, |f| f.reduction_strategy = FriReductionStrategy::ConstantArityBits(1, 3)), n_ops: 200, lookups: false, pad_to: 0, do_tampers: false },
        Case { name: "arity 2 bits", inner: with_fri(&std, |f| f.reduction_strategy = FriReductionStrategy::ConstantArityBits(2, 2)), n_ops: 200, lookups: false, pad_to: 0, do_tampers: false },
        Case { name: "arity 3 bits", inner: with_fri(&std, |f| f.reduction_strategy = FriReductionStrategy::ConstantArityBits(3, 1)), n_ops: 200, lookups: false, pad_to: 0, do_tampers: true },
        Case { name: "Fixed[1,2,3]", inner: with_fri(&std, |f| f.reduction_strategy = FriReductionStrategy::Fixed(vec![1, 2, 3])), n_ops: 200, lookups: false, pad_to: 200, do_tampers: false },
        Case { name: "Fixed[] (no reduction)", inner: with_fri(&std, |f| f.reduction_strategy = FriReductionStrategy::Fixed(vec![])), n_ops: 20, lookups: false, pad_to: 0, do_tampers: true },
        Case { name: "MinSize(Some(3))", inner: with_fri(&std, |f| f.reduction_strategy = FriReductionStrategy::MinSize(Some(3))), n_ops: 200, lookups: false, pad_to: 0, do_tampers: false },
        Case { name: "cap_height 0", inner: with_fri(&std, |f| f.cap_height = 0), n_ops: 100, lookups: false, pad_to: 0, do_tampers: true },
        Case { name: "cap_height 1, pow 0", inner: with_fri(&std, |f| { f.cap_height = 1; f.proof_of_work_bits = 0 }), n_ops: 100, lookups: false, pad_to: 0, do_tampers: true },
        Case { name: "rate_bits 1, 5 queries, pow 3", inner: with_fri(&std, |f| { f.rate_bits = 1; f.num_query_rounds = 5; f.proof_of_work_bits = 3 }), n_ops: 100, lookups: false, pad_to: 0, do_tampers: true },
        Case { name: "num_challenges 3", inner: CircuitConfig { num_challenges: 3, ..std.clone() }, n_ops: 100, lookups: false, pad_to: 0, do_tampers: false },
        Case { name: "1 query round, pow 1 (bad-grinding search)", inner: with_fri(&std, |f| { f.num_query_rounds = 1; f.proof_of_work_bits = 1 }), n_ops: 100, lookups: false, pad_to: 0, do_tampers: true },
    ];

    let mut mismatches: Vec<String> = vec![];
    for case in cases {
        println!("=== case: {} ===", case.name);
        let built = catch_unwind(AssertUnwindSafe(|| {
            let (inner, proof) = inner_circuit(&case.inner, case.n_ops, case.lookups, case.pad_to);
            println!(
                "  inner degree_bits={} arities={:?} final_poly_len={} hiding={} lookup_polys={}",
                inner.common.degree_bits(),
                inner.common.fri_params.reduction_arity_bits,
                inner.common.fri_params.final_poly_len(),
                inner.common.fri_params.hiding,
                inner.common.num_lookup_polys,
            );
            let outer = outer_circuit(&inner, &std);
            (inner, proof, outer)
        }));
        let (inner, proof, outer) = match built {
            Ok(x) => x,
            Err(_) => {
                println!("  (could not build inner/outer circuit for this config: panic) -- skipped");
                continue;
            }
        };
        // Completeness.
        let r = catch_unwind(AssertUnwindSafe(|| in_circuit(&outer, &inner, &proof)));
        match &r {
            Ok(Ok(())) => println!("  honest: native ACCEPT | in-circuit ACCEPT"),
            other => {
                println!("  honest: native ACCEPT | in-circuit REJECT {:?}  <== MISMATCH", other.as_ref().map(|x| x.as_ref().map_err(|e| e.to_string())).map_err(|_| "panic"));
                mismatches.push(format!("{}: honest rejected in circuit", case.name));
            }
        }
        if !case.do_tampers {
            continue;
        }
        let ts = tampers(&proof);
        let mut n_both_reject = 0;
        for (name, p) in ts {
            let native = catch_unwind(AssertUnwindSafe(|| inner.verify(p.clone())));
            let native_ok = matches!(native, Ok(Ok(())));
            let ic = catch_unwind(AssertUnwindSafe(|| in_circuit(&outer, &inner, &p)));
            let ic_ok = matches!(ic, Ok(Ok(())));
            if native_ok != ic_ok {
                println!("  tamper {name}: native {} | in-circuit {}  <== MISMATCH", native_ok, ic_ok);
                mismatches.push(format!("{}: {}", case.name, name));
            } else if native_ok {
                println!("  tamper {name}: BOTH ACCEPT (!)");
                mismatches.push(format!("{}: {} accepted by both", case.name, name));
            } else {
                n_both_reject += 1;
            }
        }
        println!("  tampers rejected by both: {}", n_both_reject);

        // Bad grinding: search pow_witness values; verdicts must coincide for each.
        if case.inner.fri_config.proof_of_work_bits <= 3 && case.inner.fri_config.proof_of_work_bits > 0 {
            let mut acc = 0;
            let mut rej = 0;
            for k in 1..=12u64 {
                let mut p = proof.clone();
                p.proof.opening_proof.pow_witness += F::from_canonical_u64(k);
                let native_ok = inner.verify(p.clone()).is_ok();
                let ic_ok = matches!(catch_unwind(AssertUnwindSafe(|| in_circuit(&outer, &inner, &p))), Ok(Ok(())));
                if native_ok != ic_ok {
                    println!("  pow_witness+{k}: native {} | in-circuit {}  <== MISMATCH", native_ok, ic_ok);
                    mismatches.push(format!("{}: pow_witness+{}", case.name, k));
                }
                if native_ok { acc += 1 } else { rej += 1 }
            }
            println!("  pow_witness sweep: {} accepted by both, {} rejected by both", acc, rej);
        }
    }
    println!("MISMATCHES: {:#?}", mismatches);
    assert!(mismatches.is_empty());
}
