//! C06 audit, finding 1, end-to-end consequence: the variable-degree recursive STARK verifier
//! (`verify_stark_proof_circuit` with `min_degree_bits_to_support = Some(_)`, which is built on
//! `CircuitBuilder::verify_fri_proof_with_multiple_degree_bits`) accepts a proof of a FALSE
//! statement: "the Fibonacci sequence started at (0, 1) has `fib(31) + 1` in its 32nd row".
//!
//! The cheating prover commits to the honest trace (whose last row does NOT contain the claimed
//! value), commits to arbitrary "quotient" polynomials, opens the trace honestly, sets the
//! claimed quotient opening to whatever makes `vanishing(zeta) = Z_H(zeta) * quotient(zeta)` hold,
//! and passes FRI by sending, as final polynomial, the interpolant over the whole LDE coset of
//! the (non-low-degree) function that the verifier derives: the circuit's final polynomial has
//! 64 coefficients whatever the actual degree is, the LDE coset of a 2^5-row trace has 64 points.
//! The native verifier rejects the same proof object.
//!
//! Run: cargo test --offline --release -p starky --test c06_stark_multidegree -- --nocapture

use core::marker::PhantomData;

use plonky2::field::extension::{Extendable, FieldExtension};
use plonky2::field::packed::PackedField;
use plonky2::field::polynomial::{PolynomialCoeffs, PolynomialValues};
use plonky2::field::types::{Field, PrimeField64, Sample};
use plonky2::fri::oracle::PolynomialBatch;
use plonky2::fri::proof::{FriInitialTreeProof, FriProof, FriQueryRound};
use plonky2::fri::FriParams;
use plonky2::hash::hash_types::RichField;
use plonky2::iop::challenger::Challenger;
use plonky2::iop::ext_target::ExtensionTarget;
use plonky2::iop::witness::PartialWitness;
use plonky2::plonk::circuit_builder::CircuitBuilder;
use plonky2::plonk::circuit_data::CircuitConfig;
use plonky2::plonk::config::{GenericConfig, PoseidonGoldilocksConfig};
use plonky2::util::reducing::ReducingFactor;
use plonky2::util::timing::TimingTree;
use starky::config::StarkConfig;
use starky::constraint_consumer::{ConstraintConsumer, RecursiveConstraintConsumer};
use starky::evaluation_frame::{StarkEvaluationFrame, StarkFrame};
use starky::proof::{StarkOpeningSet, StarkProof, StarkProofChallenges, StarkProofWithPublicInputs};
use starky::prover::prove;
use starky::recursive_verifier::{
    add_virtual_stark_proof_with_pis, set_stark_proof_with_pis_target, verify_stark_proof_circuit,
};
use starky::stark::Stark;
use starky::util::trace_rows_to_poly_values;
use starky::verifier::verify_stark_proof;

const D: usize = 2;
type C = PoseidonGoldilocksConfig;
type F = <C as GenericConfig<D>>::F;
type FE = <F as Extendable<D>>::Extension;
type H = <C as GenericConfig<D>>::Hasher;
type S = FibonacciStark<F, D>;

// ---------------------------------------------------------------------------------------------
// Verbatim copy of starky/src/fibonacci_stark.rs (that module is `#[cfg(test)]`-only).
// ---------------------------------------------------------------------------------------------
#[derive(Copy, Clone)]
struct FibonacciStark<F: RichField + Extendable<D>, const D: usize> {
    num_rows: usize,
    _phantom: PhantomData<F>,
}

impl<F: RichField + Extendable<D>, const D: usize> FibonacciStark<F, D> {
    const PI_INDEX_X0: usize = 0;
    const PI_INDEX_X1: usize = 1;
    const PI_INDEX_RES: usize = 2;

    const fn new(num_rows: usize) -> Self {
        Self { num_rows, _phantom: PhantomData }
    }

    fn generate_trace(&self, x0: F, x1: F) -> Vec<PolynomialValues<F>> {
        let trace_rows = (0..self.num_rows)
            .scan([x0, x1], |acc, _| {
                let tmp = *acc;
                acc[0] = tmp[1];
                acc[1] = tmp[0] + tmp[1];
                Some(tmp)
            })
            .collect::<Vec<_>>();
        trace_rows_to_poly_values(trace_rows)
    }
}

const FIBONACCI_COLUMNS: usize = 2;
const FIBONACCI_PUBLIC_INPUTS: usize = 3;

impl<F: RichField + Extendable<D>, const D: usize> Stark<F, D> for FibonacciStark<F, D> {
    type EvaluationFrame<FE, P, const D2: usize>
        = StarkFrame<P, P::Scalar, FIBONACCI_COLUMNS, FIBONACCI_PUBLIC_INPUTS>
    where
        FE: FieldExtension<D2, BaseField = F>,
        P: PackedField<Scalar = FE>;

    type EvaluationFrameTarget =
        StarkFrame<ExtensionTarget<D>, ExtensionTarget<D>, FIBONACCI_COLUMNS, FIBONACCI_PUBLIC_INPUTS>;

    fn eval_packed_generic<FE, P, const D2: usize>(
        &self,
        vars: &Self::EvaluationFrame<FE, P, D2>,
        yield_constr: &mut ConstraintConsumer<P>,
    ) where
        FE: FieldExtension<D2, BaseField = F>,
        P: PackedField<Scalar = FE>,
    {
        let local_values = vars.get_local_values();
        let next_values = vars.get_next_values();
        let public_inputs = vars.get_public_inputs();
        yield_constr.constraint_first_row(local_values[0] - public_inputs[Self::PI_INDEX_X0]);
        yield_constr.constraint_first_row(local_values[1] - public_inputs[Self::PI_INDEX_X1]);
        yield_constr.constraint_last_row(local_values[1] - public_inputs[Self::PI_INDEX_RES]);
        yield_constr.constraint_transition(next_values[0] - local_values[1]);
        yield_constr.constraint_transition(next_values[1] - local_values[0] - local_values[1]);
    }

    fn eval_ext_circuit(
        &self,
        builder: &mut CircuitBuilder<F, D>,
        vars: &Self::EvaluationFrameTarget,
        yield_constr: &mut RecursiveConstraintConsumer<F, D>,
    ) {
        let local_values = vars.get_local_values();
        let next_values = vars.get_next_values();
        let public_inputs = vars.get_public_inputs();
        let pis_constraints = [
            builder.sub_extension(local_values[0], public_inputs[Self::PI_INDEX_X0]),
            builder.sub_extension(local_values[1], public_inputs[Self::PI_INDEX_X1]),
            builder.sub_extension(local_values[1], public_inputs[Self::PI_INDEX_RES]),
        ];
        yield_constr.constraint_first_row(builder, pis_constraints[0]);
        yield_constr.constraint_first_row(builder, pis_constraints[1]);
        yield_constr.constraint_last_row(builder, pis_constraints[2]);
        let first_col_constraint = builder.sub_extension(next_values[0], local_values[1]);
        yield_constr.constraint_transition(builder, first_col_constraint);
        let second_col_constraint = {
            let tmp = builder.sub_extension(next_values[1], local_values[0]);
            builder.sub_extension(tmp, local_values[1])
        };
        yield_constr.constraint_transition(builder, second_col_constraint);
    }

    fn constraint_degree(&self) -> usize {
        2
    }
}

fn fibonacci(n: usize, x0: F, x1: F) -> F {
    (0..n).fold((x0, x1), |x, _| (x.1, x.0 + x.1)).1
}
// ---------------------------------------------------------------------------------------------

fn rev(x: usize, bits: usize) -> usize {
    let mut r = 0;
    for i in 0..bits {
        if (x >> i) & 1 == 1 {
            r |= 1 << (bits - 1 - i);
        }
    }
    r
}

fn challenges_of(
    stark: &S,
    proof: &StarkProof<F, C, D>,
    public_inputs: &[F],
    config: &StarkConfig,
    verifier_fri_params: &FriParams,
) -> StarkProofChallenges<F, D> {
    let pwp = StarkProofWithPublicInputs {
        proof: proof.clone(),
        public_inputs: public_inputs.to_vec(),
    };
    let mut challenger = Challenger::<F, H>::new();
    pwp.get_challenges(
        stark,
        &mut challenger,
        None,
        None,
        false,
        config,
        Some(verifier_fri_params.clone()),
    )
}

/// Cheating prover for a trace of 2^degree_bits rows (degree_bits <= 5: no FRI reduction step).
fn forge_false_statement(
    degree_bits: usize,
    config: &StarkConfig,
    verifier_fri_params: &FriParams,
) -> StarkProofWithPublicInputs<F, C, D> {
    let n = 1usize << degree_bits;
    let stark = S::new(n);
    let rate_bits = config.fri_config.rate_bits;
    let cap_height = config.fri_config.cap_height;
    let lde_bits = degree_bits + rate_bits;
    assert!(config.fri_params(degree_bits).reduction_arity_bits.is_empty());
    assert!(1 << lde_bits <= verifier_fri_params.final_poly_len());

    // The FALSE statement.
    let public_inputs = [F::ZERO, F::ONE, fibonacci(n - 1, F::ZERO, F::ONE) + F::ONE];

    let mut timing = TimingTree::default();
    // Honest trace for (0, 1): it violates the last-row constraint w.r.t. the claimed result.
    let trace = stark.generate_trace(F::ZERO, F::ONE);
    let trace_commitment =
        PolynomialBatch::<F, C, D>::from_values(trace, rate_bits, false, cap_height, &mut timing, None);
    // Arbitrary "quotient" polynomials.
    let num_q = stark.quotient_degree_factor() * config.num_challenges;
    let q_polys: Vec<PolynomialCoeffs<F>> =
        (0..num_q).map(|_| PolynomialCoeffs::new(F::rand_vec(n))).collect();
    let quotient_commitment =
        PolynomialBatch::<F, C, D>::from_coeffs(q_polys, rate_bits, false, cap_height, &mut timing, None);

    let dummy_round = FriQueryRound {
        initial_trees_proof: FriInitialTreeProof {
            evals_proofs: vec![(
                trace_commitment.merkle_tree.get(0).to_vec(),
                trace_commitment.merkle_tree.prove(0),
            )],
        },
        steps: vec![],
    };
    let mut proof = StarkProof::<F, C, D> {
        trace_cap: trace_commitment.merkle_tree.cap.clone(),
        auxiliary_polys_cap: None,
        quotient_polys_cap: Some(quotient_commitment.merkle_tree.cap.clone()),
        openings: StarkOpeningSet {
            local_values: vec![FE::ZERO; FIBONACCI_COLUMNS],
            next_values: vec![FE::ZERO; FIBONACCI_COLUMNS],
            auxiliary_polys: None,
            auxiliary_polys_next: None,
            ctl_zs_first: None,
            quotient_polys: Some(vec![FE::ZERO; num_q]),
        },
        opening_proof: FriProof {
            commit_phase_merkle_caps: vec![],
            query_round_proofs: vec![dummy_round],
            final_poly: PolynomialCoeffs::new(vec![FE::ZERO]),
            pow_witness: F::ZERO,
        },
    };

    // 1. alphas and zeta only depend on the public inputs, the config and the two caps.
    let c1 = challenges_of(&stark, &proof, &public_inputs, config, verifier_fri_params);
    let zeta = c1.stark_zeta;
    let alphas = c1.stark_alphas.clone();
    let g = F::primitive_root_of_unity(degree_bits);
    let g_zeta = zeta * FE::from(g);

    // 2. Openings: trace honest, quotient = whatever satisfies the verifier's identity at zeta.
    let eval = |p: &PolynomialCoeffs<F>, x: FE| p.to_extension::<D>().eval(x);
    let local_values: Vec<FE> = trace_commitment.polynomials.iter().map(|p| eval(p, zeta)).collect();
    let next_values: Vec<FE> = trace_commitment.polynomials.iter().map(|p| eval(p, g_zeta)).collect();
    let mut quotient_openings: Vec<FE> =
        quotient_commitment.polynomials.iter().map(|p| eval(p, zeta)).collect();

    let pis_ext: Vec<FE> = public_inputs.iter().map(|&x| FE::from(x)).collect();
    let vars = <S as Stark<F, D>>::EvaluationFrame::<FE, FE, D>::from_values(
        &local_values,
        &next_values,
        &pis_ext,
    );
    let n_fe = FE::from_canonical_usize(n);
    let zeta_pow_deg = zeta.exp_power_of_2(degree_bits);
    let z_h_zeta = zeta_pow_deg - FE::ONE;
    let l_0 = z_h_zeta / (n_fe * (zeta - FE::ONE));
    let l_last = z_h_zeta / (n_fe * (g_zeta - FE::ONE));
    let z_last = zeta - FE::from(g.inverse());
    let mut consumer = ConstraintConsumer::<FE>::new(
        alphas.iter().map(|&a| FE::from(a)).collect(),
        z_last,
        l_0,
        l_last,
    );
    stark.eval_ext(&vars, &mut consumer);
    let vanishing = consumer.accumulators();
    assert!(vanishing.iter().all(|v| !v.is_zero()));
    let qdf = stark.quotient_degree_factor();
    for (i, chunk) in quotient_openings.chunks_mut(qdf).enumerate() {
        // want: vanishing[i] == z_h_zeta * sum_j chunk[j] * zeta_pow_deg^j
        let tail = chunk[1..]
            .iter()
            .rev()
            .fold(FE::ZERO, |acc, &c| (acc + c) * zeta_pow_deg);
        chunk[0] = vanishing[i] / z_h_zeta - tail;
    }
    proof.openings.local_values = local_values.clone();
    proof.openings.next_values = next_values.clone();
    proof.openings.quotient_polys = Some(quotient_openings.clone());

    // 3. FRI: the function the verifier derives from the two oracles on the whole LDE coset.
    let c2 = challenges_of(&stark, &proof, &public_inputs, config, verifier_fri_params);
    assert_eq!(c2.stark_zeta, zeta);
    let alpha = c2.fri_challenges.fri_alpha;
    let instance = stark.fri_instance(zeta, g, 0, vec![], config);
    assert_eq!(instance.oracles.len(), 2);
    let claimed = |batch: usize, oracle: usize, poly: usize| -> FE {
        match (batch, oracle) {
            (0, 0) => local_values[poly],
            (1, 0) => next_values[poly],
            (0, 1) => quotient_openings[poly],
            _ => unreachable!(),
        }
    };
    let big_n = 1usize << lde_bits;
    let w = F::primitive_root_of_unity(lde_bits);
    let mut f_nat = vec![FE::ZERO; big_n];
    for x_index in 0..big_n {
        let k = rev(x_index, lde_bits);
        let x = FE::from(F::coset_shift() * w.exp_u64(k as u64));
        let leaves = [
            trace_commitment.merkle_tree.get(x_index),
            quotient_commitment.merkle_tree.get(x_index),
        ];
        let mut alpha_r = ReducingFactor::new(alpha);
        let mut sum = FE::ZERO;
        for (b, batch) in instance.batches.iter().enumerate() {
            let evals: Vec<FE> = batch
                .polynomials
                .iter()
                .map(|p| FE::from(leaves[p.oracle_index][p.polynomial_index]))
                .collect();
            let opened: Vec<FE> = batch
                .polynomials
                .iter()
                .map(|p| claimed(b, p.oracle_index, p.polynomial_index))
                .collect();
            let reduced_openings = ReducingFactor::new(alpha).reduce(opened.iter());
            let reduced_evals = alpha_r.reduce(evals.iter());
            sum = alpha_r.shift(sum);
            sum += (reduced_evals - reduced_openings) / (x - batch.point);
        }
        f_nat[k] = sum;
    }
    let final_poly = PolynomialValues::new(f_nat).coset_ifft(F::coset_shift().into());
    println!(
        "forged final polynomial: {} coefficients, {} of them non-zero (native bound for 2^{} rows: {})",
        final_poly.coeffs.len(),
        final_poly.coeffs.iter().filter(|c| !c.is_zero()).count(),
        degree_bits,
        config.fri_params(degree_bits).final_poly_len()
    );
    proof.opening_proof.final_poly = final_poly;

    // 4. Grinding, query indices, Merkle openings.
    let pow_bits = config.fri_config.proof_of_work_bits;
    let challenges = loop {
        let c = challenges_of(&stark, &proof, &public_inputs, config, verifier_fri_params);
        if c.fri_challenges.fri_pow_response.to_canonical_u64().leading_zeros() >= pow_bits {
            break c;
        }
        proof.opening_proof.pow_witness += F::ONE;
    };
    proof.opening_proof.query_round_proofs = challenges
        .fri_challenges
        .fri_query_indices
        .iter()
        .map(|&x| FriQueryRound {
            initial_trees_proof: FriInitialTreeProof {
                evals_proofs: vec![
                    (trace_commitment.merkle_tree.get(x).to_vec(), trace_commitment.merkle_tree.prove(x)),
                    (quotient_commitment.merkle_tree.get(x).to_vec(), quotient_commitment.merkle_tree.prove(x)),
                ],
            },
            steps: vec![],
        })
        .collect();

    StarkProofWithPublicInputs {
        proof,
        public_inputs: public_inputs.to_vec(),
    }
}

#[test]
fn c06_false_fibonacci_statement_accepted_by_variable_degree_recursive_verifier() {
    let mut config = StarkConfig::standard_fast_config();
    config.fri_config.num_query_rounds = 20; // only to keep the recursive circuit small
    config.security_bits = 1;
    let max_degree_bits = 14; // one of the supported layouts: arities [4, 4], 64 final coefficients
    let min_degree_bits = 4;
    let degree_bits = 5;
    let verifier_fri_params = config.fri_params(max_degree_bits);
    println!(
        "verifier circuit layout: arities {:?}, final_poly_len {}",
        verifier_fri_params.reduction_arity_bits,
        verifier_fri_params.final_poly_len()
    );

    // The recursive verifier, built exactly like starky's own test
    // `test_recursive_verifier_with_multiple_degree_bits`.
    let mut builder = CircuitBuilder::<F, D>::new(CircuitConfig::standard_recursion_config());
    let zero = builder.zero();
    let stark_max = S::new(1 << max_degree_bits);
    let pt = add_virtual_stark_proof_with_pis(&mut builder, &stark_max, &config, max_degree_bits, 0, 0);
    verify_stark_proof_circuit::<F, C, S, D>(
        &mut builder,
        stark_max,
        pt.clone(),
        &config,
        Some(min_degree_bits),
    );
    builder.register_public_inputs(&pt.public_inputs);
    let data = builder.build::<C>();
    println!("recursive verifier circuit: 2^{} rows", data.common.degree_bits());

    let in_circuit = |p: &StarkProofWithPublicInputs<F, C, D>| -> anyhow::Result<Vec<F>> {
        let mut pw = PartialWitness::new();
        set_stark_proof_with_pis_target(&mut pw, &pt, p, degree_bits, zero)?;
        let outer = data.prove(pw)?;
        let pis = outer.public_inputs.clone();
        data.verify(outer)?;
        Ok(pis)
    };
    let show = |r: &anyhow::Result<()>| match r {
        Ok(()) => "ACCEPT".to_string(),
        Err(e) => format!("reject ({})", e.to_string().lines().next().unwrap_or("")),
    };

    // Control: an honest proof of the TRUE statement, produced by starky's prover.
    let n = 1usize << degree_bits;
    let stark = S::new(n);
    let true_pis = [F::ZERO, F::ONE, fibonacci(n - 1, F::ZERO, F::ONE)];
    let honest = prove::<F, C, S, D>(
        stark,
        &config,
        stark.generate_trace(true_pis[0], true_pis[1]),
        &true_pis,
        Some(verifier_fri_params.clone()),
        &mut TimingTree::default(),
    )
    .unwrap();
    let native = verify_stark_proof(stark, honest.clone(), &config, Some(verifier_fri_params.clone()));
    let circ = in_circuit(&honest);
    println!(
        "honest proof, true statement  (res = fib(31) = {}): native {} | in-circuit {}",
        true_pis[2],
        show(&native),
        show(&circ.as_ref().map(|_| ()).map_err(|e| anyhow::anyhow!("{e}")))
    );
    assert!(native.is_ok() && circ.is_ok());

    // Attack.
    let forged = forge_false_statement(degree_bits, &config, &verifier_fri_params);
    let native = verify_stark_proof(stark, forged.clone(), &config, Some(verifier_fri_params.clone()));
    let circ = in_circuit(&forged);
    println!(
        "forged proof, FALSE statement (res = fib(31) + 1 = {}): native {} | in-circuit {}",
        forged.public_inputs[2],
        show(&native),
        show(&circ.as_ref().map(|_| ()).map_err(|e| anyhow::anyhow!("{e}")))
    );
    if let Ok(pis) = &circ {
        println!("public inputs re-exposed by the accepted outer proof: {:?}", pis);
    }
    assert!(native.is_err(), "the native verifier must reject the forged proof");
    assert!(
        circ.is_err(),
        "the recursive verifier accepted a proof of a false statement that the native verifier rejects"
    );
}
