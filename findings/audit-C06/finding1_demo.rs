//! C06 audit finding: `CircuitBuilder::verify_fri_proof_with_multiple_degree_bits` (the in-circuit FRI
//! verifier for proofs of variable degree, plonky2/src/fri/recursive_verifier.rs) never constrains
//! the coefficients of `final_poly` beyond the length the *actual* degree allows. The circuit always
//! evaluates all `params.final_poly_len()` coefficients (the length for the circuit's MAX degree),
//! while the native verifier (`verify_fri_proof` with `config.fri_params(actual_degree_bits)`)
//! insists on `final_poly.len() == 2^(actual_degree_bits - total_arities(actual))`.
//!
//! For a small actual degree the circuit's final polynomial has at least as many free coefficients
//! as the (folded) evaluation domain has points, so ANY committed function passes the in-circuit
//! low-degree test: the prover simply interpolates it. Below: a uniformly random function on the
//! LDE domain (overwhelmingly far from every low-degree polynomial) and an arbitrary claimed
//! opening value are accepted in-circuit; the native verifier rejects the very same proof.
//!
//! Run: cargo test --offline --release -p plonky2 --test c06_fri_multidegree -- --nocapture

use anyhow::Result;
use plonky2::field::extension::{flatten, unflatten, Extendable};
use plonky2::field::polynomial::{PolynomialCoeffs, PolynomialValues};
use plonky2::field::types::{Field, PrimeField64, Sample};
use plonky2::fri::proof::{
    FriChallenges, FriInitialTreeProof, FriProof, FriProofTarget, FriQueryRound, FriQueryStep,
};
use plonky2::util::reverse_index_bits_in_place;
use plonky2::fri::reduction_strategies::FriReductionStrategy;
use plonky2::fri::structure::{
    FriBatchInfo, FriBatchInfoTarget, FriInstanceInfo, FriInstanceInfoTarget, FriOpeningBatch,
    FriOpeningBatchTarget, FriOpenings, FriOpeningsTarget, FriOracleInfo, FriPolynomialInfo,
};
use plonky2::fri::verifier::verify_fri_proof;
use plonky2::fri::witness_util::set_fri_proof_target;
use plonky2::fri::FriConfig;
use plonky2::hash::hash_types::MerkleCapTarget;
use plonky2::hash::merkle_tree::{MerkleCap, MerkleTree};
use plonky2::iop::challenger::{Challenger, RecursiveChallenger};
use plonky2::iop::ext_target::ExtensionTarget;
use plonky2::iop::target::Target;
use plonky2::iop::witness::{PartialWitness, WitnessWrite};
use plonky2::plonk::circuit_builder::CircuitBuilder;
use plonky2::plonk::circuit_data::{CircuitConfig, CircuitData};
use plonky2::plonk::config::{GenericConfig, PoseidonGoldilocksConfig};

const D: usize = 2;
type C = PoseidonGoldilocksConfig;
type F = <C as GenericConfig<D>>::F;
type FE = <F as Extendable<D>>::Extension;
type H = <C as GenericConfig<D>>::Hasher;

/// Maximal degree supported by the circuit. With the FRI config below (that of
/// `StarkConfig::standard_fast_config`, fewer queries) this gives arities [4, 4] and a final
/// polynomial of 2^6 = 64 coefficients, i.e. the "supported" shape documented in
/// starky/src/fibonacci_stark.rs (max degree bits in {.., 14, 18, 22, 26, 30}).
const MAX_DEGREE_BITS: usize = 14;
const MIN_DEGREE_BITS: usize = 4;

fn fri_config() -> FriConfig {
    FriConfig {
        rate_bits: 1,
        cap_height: 4,
        proof_of_work_bits: 16,
        reduction_strategy: FriReductionStrategy::ConstantArityBits(4, 5),
        num_query_rounds: 20,
    }
}

fn rev(x: usize, bits: usize) -> usize {
    let mut r = 0;
    for i in 0..bits {
        if (x >> i) & 1 == 1 {
            r |= 1 << (bits - 1 - i);
        }
    }
    r
}

struct Forged {
    degree_bits: usize,
    cap: MerkleCap<F, H>,
    zeta: FE,
    y: FE,
    challenges: FriChallenges<F, D>,
    proof: FriProof<F, H, D>,
}

/// A cheating FRI prover. It commits to `vals` (a function on the LDE coset, natural order), claims
/// that it opens to `y` at zeta, and then runs the FRI commit phase on the function
/// `(vals(x) - y) / (x - zeta)` that the verifier derives from the oracle -- WITHOUT caring whether
/// that function has low degree: it interpolates it over the whole LDE coset, folds the
/// coefficients with the betas exactly as the honest prover does, and sends ALL remaining
/// coefficients as the final polynomial (the honest prover would drop all but the first
/// `2^-rate_bits` fraction, "which should always be zero").
fn forge(degree_bits: usize, low_degree: bool) -> Forged {
    let config = fri_config();
    let params_d = config.fri_params(degree_bits, false);
    let params_max = config.fri_params(MAX_DEGREE_BITS, false);
    let log_n = degree_bits + config.rate_bits;
    let n = 1 << log_n;
    let g = F::coset_shift();
    let w = F::primitive_root_of_unity(log_n);
    let points: Vec<F> = w.powers().take(n).map(|p| g * p).collect();

    let honest_poly = PolynomialCoeffs::new(F::rand_vec(1 << degree_bits));
    let vals_nat: Vec<F> = if low_degree {
        points.iter().map(|&x| honest_poly.eval(x)).collect()
    } else {
        F::rand_vec(n) // a random function: not close to any polynomial of degree < 2^degree_bits
    };
    // FRI leaves are indexed by the bit-reversed exponent.
    let leaves: Vec<Vec<F>> = (0..n).map(|x| vec![vals_nat[rev(x, log_n)]]).collect();
    let tree = MerkleTree::<F, H>::new(leaves, config.cap_height);

    let mut challenger = Challenger::<F, H>::new();
    challenger.observe_cap::<H>(&tree.cap);
    let zeta = challenger.get_extension_challenge::<D>();
    let y: FE = if low_degree {
        honest_poly.to_extension::<D>().eval(zeta)
    } else {
        FE::rand() // an arbitrary claimed opening
    };
    let openings = FriOpenings::<F, D> {
        batches: vec![FriOpeningBatch::<F, D> { values: vec![y] }],
    };
    challenger.observe_openings(&openings);

    // The function the FRI verifier derives from the oracle ("combine initial"), on the whole coset.
    let f_nat: Vec<FE> = (0..n)
        .map(|k| (FE::from(vals_nat[k]) - y) / (FE::from(points[k]) - zeta))
        .collect();

    // Commit phase (mirrors plonky2::fri::prover::fri_committed_trees, minus the truncation).
    let mut ch = challenger.clone();
    let _alpha = ch.get_extension_challenge::<D>();
    let mut values = PolynomialValues::new(f_nat);
    let mut coeffs = values.clone().coset_ifft(g.into());
    let mut shift = g;
    let mut trees = vec![];
    let mut my_betas = vec![];
    for &arity_bits in &params_d.reduction_arity_bits {
        let arity = 1 << arity_bits;
        let mut v = values.values.clone();
        reverse_index_bits_in_place(&mut v);
        let chunked: Vec<Vec<F>> = v.chunks(arity).map(|c| flatten::<F, D>(c)).collect();
        let t = MerkleTree::<F, H>::new(chunked, config.cap_height);
        ch.observe_cap::<H>(&t.cap);
        let beta = ch.get_extension_challenge::<D>();
        my_betas.push(beta);
        coeffs = PolynomialCoeffs::new(
            coeffs
                .coeffs
                .chunks_exact(arity)
                .map(|chunk| chunk.iter().rev().fold(FE::ZERO, |acc, &c| acc * beta + c))
                .collect(),
        );
        shift = shift.exp_u64(arity as u64);
        values = coeffs.coset_fft(shift.into());
        trees.push(t);
    }
    let mut coeffs = coeffs.coeffs;
    assert!(
        coeffs.len() <= params_max.final_poly_len(),
        "folded domain ({} points) larger than the circuit's final polynomial ({} coefficients)",
        coeffs.len(),
        params_max.final_poly_len()
    );
    if low_degree {
        assert!(coeffs[params_d.final_poly_len()..].iter().all(|c| c.is_zero()));
        coeffs.truncate(params_d.final_poly_len());
    }
    let final_poly = PolynomialCoeffs { coeffs };
    let commit_phase_merkle_caps: Vec<_> = trees.iter().map(|t| t.cap.clone()).collect();

    // Grinding + challenges, with the padding conventions of variable-degree proofs
    // (cf. starky::get_challenges: final_poly_coeff_len / max_num_query_steps).
    let pad_len = Some(params_max.final_poly_len());
    let pad_steps = Some(params_max.reduction_arity_bits.len());
    let mut pow_witness = F::ZERO;
    let challenges = loop {
        let c = challenger.clone().fri_challenges::<C, D>(
            &commit_phase_merkle_caps,
            &final_poly,
            pow_witness,
            degree_bits,
            &config,
            pad_len,
            pad_steps,
        );
        if c.fri_pow_response.to_canonical_u64().leading_zeros() >= config.proof_of_work_bits {
            break c;
        }
        pow_witness += F::ONE;
    };
    assert_eq!(challenges.fri_betas, my_betas);

    let query_round_proofs = challenges
        .fri_query_indices
        .iter()
        .map(|&x| {
            let mut x_index = x;
            let mut steps = vec![];
            for (i, &arity_bits) in params_d.reduction_arity_bits.iter().enumerate() {
                let coset_index = x_index >> arity_bits;
                steps.push(FriQueryStep {
                    evals: unflatten::<F, D>(trees[i].get(coset_index)),
                    merkle_proof: trees[i].prove(coset_index),
                });
                x_index = coset_index;
            }
            FriQueryRound {
                initial_trees_proof: FriInitialTreeProof {
                    evals_proofs: vec![(tree.get(x).to_vec(), tree.prove(x))],
                },
                steps,
            }
        })
        .collect();

    Forged {
        degree_bits,
        cap: tree.cap.clone(),
        zeta,
        y,
        challenges,
        proof: FriProof {
            commit_phase_merkle_caps,
            query_round_proofs,
            final_poly,
            pow_witness,
        },
    }
}

fn native_verdict(fg: &Forged) -> Result<()> {
    let config = fri_config();
    let instance = FriInstanceInfo::<F, D> {
        oracles: vec![FriOracleInfo { num_polys: 1, blinding: false }],
        batches: vec![FriBatchInfo {
            point: fg.zeta,
            polynomials: vec![FriPolynomialInfo { oracle_index: 0, polynomial_index: 0 }],
        }],
    };
    let openings = FriOpenings {
        batches: vec![FriOpeningBatch { values: vec![fg.y] }],
    };
    verify_fri_proof::<F, C, D>(
        &instance,
        &openings,
        &fg.challenges,
        &[fg.cap.clone()],
        &fg.proof,
        &config.fri_params(fg.degree_bits, false),
    )
}

struct VerifierCircuit {
    data: CircuitData<F, C, D>,
    cap_t: MerkleCapTarget,
    y_t: ExtensionTarget<D>,
    degree_bits_t: Target,
    proof_t: FriProofTarget<D>,
}

/// The in-circuit verifier, wired the way starky::recursive_verifier wires it.
fn verifier_circuit() -> VerifierCircuit {
    let config = fri_config();
    let params_max = config.fri_params(MAX_DEGREE_BITS, false);
    let mut builder = CircuitBuilder::<F, D>::new(CircuitConfig::standard_recursion_config());
    let cap_t = builder.add_virtual_cap(config.cap_height);
    let proof_t = builder.add_virtual_fri_proof(&[1], &params_max);
    let y_t = builder.add_virtual_extension_target();
    let degree_bits_t = builder.add_virtual_target();

    let mut challenger = RecursiveChallenger::<F, H, D>::new(&mut builder);
    challenger.observe_cap(&cap_t);
    let zeta_t = challenger.get_extension_challenge(&mut builder);
    let openings_t = FriOpeningsTarget {
        batches: vec![FriOpeningBatchTarget { values: vec![y_t] }],
    };
    challenger.observe_openings(&openings_t);
    let challenges_t = challenger.fri_challenges(
        &mut builder,
        &proof_t.commit_phase_merkle_caps,
        &proof_t.final_poly,
        proof_t.pow_witness,
        &config,
    );
    let instance_t = FriInstanceInfoTarget {
        oracles: vec![FriOracleInfo { num_polys: 1, blinding: false }],
        batches: vec![FriBatchInfoTarget {
            point: zeta_t,
            polynomials: vec![FriPolynomialInfo { oracle_index: 0, polynomial_index: 0 }],
        }],
    };

    // Exactly as in starky::recursive_verifier::verify_stark_proof_with_challenges_circuit.
    let one = builder.one();
    let two = builder.two();
    let _ = builder.inverse(degree_bits_t);
    let degree = builder.exp(two, degree_bits_t, MAX_DEGREE_BITS + 1);
    let degree_sub_one = builder.sub(degree, one);
    let degree_sub_one_bits_vec = builder.split_le(degree_sub_one, MAX_DEGREE_BITS);

    builder.verify_fri_proof_with_multiple_degree_bits::<C>(
        &instance_t,
        &openings_t,
        &challenges_t,
        &[cap_t.clone()],
        &proof_t,
        &params_max,
        degree_bits_t,
        &degree_sub_one_bits_vec,
        MIN_DEGREE_BITS,
    );
    builder.register_public_input(degree_bits_t);
    let data = builder.build::<C>();
    println!("verifier circuit degree_bits = {}", data.common.degree_bits());
    VerifierCircuit { data, cap_t, y_t, degree_bits_t, proof_t }
}

fn in_circuit_verdict(vc: &VerifierCircuit, fg: &Forged) -> Result<()> {
    let mut pw = PartialWitness::new();
    pw.set_cap_target(&vc.cap_t, &fg.cap)?;
    pw.set_extension_target(vc.y_t, fg.y)?;
    pw.set_target(vc.degree_bits_t, F::from_canonical_usize(fg.degree_bits))?;
    set_fri_proof_target(&mut pw, &vc.proof_t, &fg.proof)?;
    let proof = vc.data.prove(pw)?;
    vc.data.verify(proof)
}

fn show(r: &Result<()>) -> String {
    match r {
        Ok(()) => "ACCEPT".into(),
        Err(e) => format!("reject ({})", e.to_string().lines().next().unwrap_or("")),
    }
}

#[test]
fn c06_multidegree_fri_final_poly_unconstrained() {
    let vc = verifier_circuit();
    let mut violations = vec![];

    for &d in &[4usize, 5, 7, 9, 12] {
        // Control 1: an honest low-degree oracle with its true opening: both accept.
        let honest = forge(d, true);
        let (n, c) = (native_verdict(&honest), in_circuit_verdict(&vc, &honest));
        println!("degree_bits={d} honest low-degree oracle  : native {} | in-circuit {}", show(&n), show(&c));
        assert!(n.is_ok() && c.is_ok(), "control failed: transcript of the test does not mirror the verifiers");

        // Attack: random function + arbitrary opening value.
        let forged = forge(d, false);
        let (n, c) = (native_verdict(&forged), in_circuit_verdict(&vc, &forged));
        println!(
            "degree_bits={d} RANDOM oracle, random opening: native {} | in-circuit {}   (final_poly has {} coefficients, native allows {})",
            show(&n),
            show(&c),
            forged.proof.final_poly.coeffs.len(),
            fri_config().fri_params(d, false).final_poly_len(),
        );
        if n.is_err() && c.is_ok() {
            violations.push(d);
        }

        // Control 2: the circuit is not vacuous altogether: a wrong final polynomial is rejected.
        let mut bad = forge(d, false);
        bad.proof.final_poly.coeffs[0] += FE::ONE;
        // (transcript changes; re-deriving is unnecessary: the proof must be rejected either way)
        let c = std::panic::catch_unwind(std::panic::AssertUnwindSafe(|| in_circuit_verdict(&vc, &bad)));
        println!(
            "degree_bits={d} control (perturbed final_poly) : in-circuit {}",
            match &c { Ok(r) => show(r), Err(_) => "reject (panic)".into() }
        );
        assert!(!matches!(c, Ok(Ok(()))));
    }

    assert!(
        violations.is_empty(),
        "in-circuit FRI verifier accepted a random (non-low-degree) oracle for degree_bits {:?}; the native verifier rejects the same proofs",
        violations
    );
}
